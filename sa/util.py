"""Helpers shared by the rules."""
from .facts import callee_name, op_place, const_int
from .prov import Terms, strip, access_path, show, subterms
from .cfg import cfg_of

_terms_cache = {}


def terms(P, body):
    k = (id(P), body.id)
    t = _terms_cache.get(k)
    if t is None:
        t = Terms(body, P)
        _terms_cache[k] = t
    return t


def find_aggs(P, adt_suffix, bodies=None, variant=None):
    """(body, bb, idx, rvalue) for every Aggregate of the ADT whose path ends with adt_suffix"""
    for b in (bodies if bodies is not None else P.bodies.values()):
        for bb, idx, s in b.stmts():
            rv = s.get("rv")
            if rv and rv["k"] == "agg" and rv["akind"] == "adt":
                a = rv["adt"]
                if (a == adt_suffix or a.endswith("::" + adt_suffix)) and (variant is None or rv["variant"] == variant):
                    yield b, bb, idx, s


def find_calls(body, pred):
    """(bb, term) for calls whose callee name (resolved or declared) satisfies pred"""
    for bb, t in body.calls():
        n = callee_name(t)
        d = t["callee"].get("decl")
        if (n and pred(n)) or (d and d != n and pred(d)):
            yield bb, t


def calls_named(body, *suffixes):
    def pred(n):
        return any(n == s or n.endswith("::" + s) or n.endswith(s) for s in suffixes)
    return list(find_calls(body, pred))


def name_matches(n, *suffixes):
    return n is not None and any(n == s or n.endswith("::" + s) for s in suffixes)


def capture_binding(P, body):
    """for a closure/coroutine body: (parent_body, [term of each captured upvar, in the parent]) or None"""
    if not body.parent or body.parent not in P.bodies:
        return None
    parent = P.bodies[body.parent]
    T = terms(P, parent)
    for bb, idx, s in parent.stmts():
        rv = s.get("rv")
        if rv and rv["k"] == "agg" and rv["akind"] in ("closure", "coroutine", "coroutine_closure") and rv["def"] == body.id:
            return parent, [T.operand(o, bb, idx) for o in rv["ops"]]
    return None


def resolve_path(P, body, term, depth=0):
    """Follow a pure access path up through closure/coroutine captures to a parameter of a real fn.
    Returns (fn_body, param_local, (field, ...)) or None."""
    ap = access_path(term)
    if ap is None or depth > 6:
        return None
    local, path = ap
    if body.kind in ("closure", "coroutine") and local == 1 and path and path[0].isdigit():
        cb = capture_binding(P, body)
        if cb is None:
            return None
        parent, ups = cb
        k = int(path[0])
        if k >= len(ups):
            return None
        up = resolve_path(P, parent, ups[k], depth + 1)
        if up is None:
            return None
        fb, pl, pp = up
        return fb, pl, pp + path[1:]
    return body, local, path


def param_ty(body, local):
    return body.locals[local]["ty"]


def path_name(P, rp):
    """human-readable name of a resolved path: '<param name>.<fields>'"""
    if rp is None:
        return "?"
    fb, pl, pp = rp
    n = fb.local_name(pl) or ("arg%d" % pl)
    return ".".join((n,) + tuple(pp))


def ty_ends(ty, suffix):
    """type string equality modulo references and leading path"""
    t = ty.replace("&mut ", "").replace("&", "").strip()
    t = strip_lifetimes(t)
    return t == suffix or t.endswith("::" + suffix)


def strip_lifetimes(t):
    import re
    return re.sub(r"'\w+\s*", "", t)


def fn_with_sig(P, inputs_suffixes, output_suffix=None):
    """fns whose declared inputs' types end with the given suffixes (order-sensitive)"""
    out = []
    for name, sig in P.sigs.items():
        ins = sig["inputs"]
        if len(ins) != len(inputs_suffixes):
            continue
        if all(ty_ends(i, s) for i, s in zip(ins, inputs_suffixes)):
            o = sig_output(sig)
            if output_suffix is None or ty_ends(o, output_suffix) or o.endswith(output_suffix):
                out.append(name)
    return out


def sig_output(sig):
    """declared return type; for an async fn the awaited type"""
    o = sig["output"]
    m = "Future<Output = "
    if sig.get("async") and m in o:
        o = o[o.index(m) + len(m):]
        if o.endswith(">"):
            o = o[:-1]
    return o


def body_or_coroutine(P, fn_id):
    """the body that holds the user's code: for an async fn its coroutine child, else the fn body"""
    b = P.bodies[fn_id]
    sig = P.sigs.get(fn_id)
    if sig and sig.get("async"):
        kids = [c for c in P.children(fn_id) if c.kind == "coroutine"]
        if len(kids) == 1:
            return kids[0]
    return b


def switch_on(body, bb):
    t = body.blocks[bb]["term"]
    return t if t is not None and t["k"] == "switch" else None


def is_const(term, value):
    """the term is the constant `value`, whether written as a literal or through a named `const`"""
    t = strip(term) if isinstance(term, tuple) else term
    if not isinstance(t, tuple) or t[0] != "const":
        return False
    v = t[1]
    if isinstance(v, tuple) and v and v[0] == "named":
        v = _core_const(v[1])
    if isinstance(value, bool) or isinstance(v, bool):
        return v is value
    return v == value


def _core_const(name):
    """value of the numeric limits of the primitive integer types, which reach the facts unevaluated"""
    import re
    m = re.match(r"core::num::<impl ([ui])(8|16|32|64|128)>::(MAX|MIN|BITS)$", name)
    if not m:
        return ("named", name)
    signed, bits, what = m.group(1) == "i", int(m.group(2)), m.group(3)
    if what == "BITS":
        return bits
    if what == "MAX":
        return (1 << (bits - 1)) - 1 if signed else (1 << bits) - 1
    return -(1 << (bits - 1)) if signed else 0


def const_value(term, depth=0):
    """integer value of a term built from integer constants with + - * << >> (checked or not), else None"""
    from .prov import norm
    t = norm(term)
    if depth > 12:
        return None
    if t[0] == "const":
        v = t[1]
        if isinstance(v, tuple) and v and v[0] == "named":
            v = _core_const(v[1])
        return v if isinstance(v, int) and not isinstance(v, bool) else None
    if t[0] == "cast":
        return const_value(t[3], depth + 1)
    if t[0] == "field" and t[2] == "0" and norm(t[1])[0] == "bin" and norm(t[1])[1].endswith("WithOverflow"):
        i = norm(t[1])
        t = ("bin", i[1][:-len("WithOverflow")], i[2], i[3])
    if t[0] == "bin" and t[1] in ("Add", "Sub", "Mul", "Shl", "Shr", "Div", "Rem"):
        a, b = const_value(t[2], depth + 1), const_value(t[3], depth + 1)
        if a is None or b is None:
            return None
        if t[1] in ("Div", "Rem"):
            # operands here are unsigned sizes and counts; a negative or zero one is left alone
            return None if a < 0 or b <= 0 else (a // b if t[1] == "Div" else a % b)
        return {"Add": a + b, "Sub": a - b, "Mul": a * b, "Shl": a << b if 0 <= b < 128 else None, "Shr": a >> b if 0 <= b < 128 else None}[t[1]]
    return None


def const_of(term):
    t = strip(term)
    if t[0] == "const":
        return t[1]
    return None


def single_def_stmt(T, operand, bb, idx):
    """the unique assignment statement defining the operand's place at this point (with '_at' = (bb, idx)), else None"""
    pl = op_place(operand)
    if pl is None:
        return None
    defs = T.reaching(pl, bb, idx)
    if len(defs) != 1 or defs[0][0] != "s":
        return None
    _, b, i = defs[0]
    st = T.body.blocks[b]["stmts"][i]
    if "rv" not in st or st["p"] != pl:
        return None
    st = dict(st)
    st["_at"] = (b, i)
    return st


def bool_switches(P, body, match):
    """switches on a boolean whose (possibly negated) condition term satisfies match(term):
    yields (bb, cond_term, true_edges, false_edges) where *_edges are CFG edges taken when the un-negated condition
    is true / false"""
    T = terms(P, body)
    cfg = cfg_of(body)
    from .prov import norm
    for bb, tm in body.terms():
        if tm["k"] != "switch":
            continue
        d = norm(T.at_term(tm["discr"], bb))
        neg = False
        while d[0] == "un" and d[1] == "Not":
            neg = not neg
            d = d[2]
        if not match(d):
            continue
        te, fe = [], []
        for v, tgt in cfg.switch_edges(bb):
            truth = (v != 0)
            if neg:
                truth = not truth
            (te if truth else fe).append((bb, tgt))
        yield bb, d, te, fe


def edge_dominated(cfg, edges, bb):
    return any(cfg.edge_dominates(e, bb) for e in edges)


def body_consts(body):
    """every constant operand of a body: yields (bb, const dict, span)"""
    for bb, idx, st in body.stmts():
        rv = st.get("rv")
        if not rv:
            continue
        ops = []
        k = rv["k"]
        if k in ("use", "cast", "repeat"):
            ops = [rv["op"]]
        elif k == "bin":
            ops = [rv["a"], rv["b"]]
        elif k == "un":
            ops = [rv["a"]]
        elif k == "agg":
            ops = rv["ops"]
        for o in ops:
            if "k" in o:
                yield bb, o["k"], st.get("sp", body.span)
    for bb, tm in body.terms():
        if tm["k"] == "call":
            for o in tm["args"]:
                if "k" in o:
                    yield bb, o["k"], tm["sp"]
        elif tm["k"] == "switch" and "k" in tm["discr"]:
            yield bb, tm["discr"]["k"], body.span


def body_strings(body):
    return [k["str"] for _, k, _ in body_consts(body) if "str" in k]


def discr_edges(cfg, bb, index):
    """edges of the discriminant switch at bb taken when the discriminant equals `index`
    (the explicit target if listed, otherwise the shared `otherwise` edge)"""
    tm = cfg.body.blocks[bb]["term"]
    explicit = [(bb, tgt) for v, tgt in tm["targets"] if v == index]
    if explicit:
        return explicit
    # `otherwise` leading to an `unreachable` block is not a real edge
    ot = tm["otherwise"]
    t2 = cfg.body.blocks[ot]["term"]
    if t2 is not None and t2["k"] == "unreachable":
        return []
    return [(bb, ot)]


def closure_def_of_term(term):
    from .prov import norm
    t = norm(term)
    if t[0] == "agg" and t[1].startswith("closure:"):
        return t[1][len("closure:"):]
    # a named function used where a closure could stand (`.map(render_lease)`): its body plays the closure's role
    if t[0] == "const" and isinstance(t[1], tuple) and t[1] and t[1][0] == "fn" and isinstance(t[1][1], str):
        return t[1][1]
    return None


def borrowed_place(T, operand, bb, idx, depth=0):
    """if the operand is (through moves and reborrows) `&P` / `&mut P`, the place P; else None"""
    if depth > 8:
        return None
    pl = op_place(operand)
    if pl is None:
        return None
    defs = T.reaching(pl, bb, idx)
    if len(defs) == 1 and defs[0][0] == "param" and len(pl) == 1:
        # a reference parameter: what it points to is `(*param)`
        return (pl[0], "*")
    if len(defs) != 1 or defs[0][0] != "s":
        return None
    _, b, i = defs[0]
    st = T.body.blocks[b]["stmts"][i]
    rv = st.get("rv")
    if rv is None or st["p"] != pl:
        return None
    if rv["k"] == "ref":
        p = rv["place"]
        if len(p) >= 2 and p[1] == "*":
            inner = borrowed_place(T, {"c": (p[0],)}, b, i, depth + 1)
            if inner is not None:
                return inner + p[2:]
            return None
        return p
    if rv["k"] == "use" and op_place(rv["op"]):
        return borrowed_place(T, rv["op"], b, i, depth + 1)
    if rv["k"] == "cast" and op_place(rv["op"]):
        return borrowed_place(T, rv["op"], b, i, depth + 1)
    return None


def subst_params(t, mapping, depth=0):
    """replace ('param', n) by mapping[n] inside a term"""
    if depth > 60:
        return t
    k = t[0]
    if k == "param":
        return mapping.get(t[1], t)
    if k == "call":
        fn = t[1]
        return ("call", fn, tuple(subst_params(a, mapping, depth + 1) for a in t[2]), t[3])
    if k == "agg":
        return ("agg", t[1], t[2], tuple((f, subst_params(v, mapping, depth + 1)) for f, v in t[3]))
    if k == "bin":
        return ("bin", t[1], subst_params(t[2], mapping, depth + 1), subst_params(t[3], mapping, depth + 1))
    if k == "un":
        return ("un", t[1], subst_params(t[2], mapping, depth + 1))
    if k == "cast":
        return ("cast", t[1], t[2], subst_params(t[3], mapping, depth + 1))
    if k in ("field", "downcast", "index", "repeat"):
        return (k, subst_params(t[1], mapping, depth + 1)) + tuple(t[2:])
    if k == "payload":
        return ("payload", t[1], subst_params(t[2], mapping, depth + 1))
    if k in ("await", "discr", "ref", "deref"):
        return (k, subst_params(t[1], mapping, depth + 1))
    if k == "phi":
        return ("phi", tuple(subst_params(x, mapping, depth + 1) for x in t[1]))
    return t


def lift(P, body, term, depth=0):
    """rewrite captured-variable accesses into the creating body's vocabulary, repeatedly:
    returns (body, term) where term no longer starts at a closure/coroutine environment field (if resolvable)"""
    from .prov import norm, access_path
    t = norm(term)
    if depth > 6 or body.kind not in ("closure", "coroutine"):
        return body, t
    # find the base of a field chain
    chain = []
    x = t
    while x[0] in ("field", "payload"):
        chain.append(x)
        x = norm(x[1] if x[0] == "field" else x[2])
    if x == ("param", 1) and chain and chain[-1][0] == "field" and chain[-1][2].isdigit():
        cb = capture_binding(P, body)
        if cb is None:
            return body, t
        parent, ups = cb
        k = int(chain[-1][2])
        if k >= len(ups):
            return body, t
        base = norm(ups[k])
        for c in reversed(chain[:-1]):
            base = ("field", base, c[2]) if c[0] == "field" else ("payload", c[1], base)
        return lift(P, parent, base, depth + 1)
    return body, t



def touched_after_copy(P, body, local):
    """where the value held in `local` (followed back through whole moves) is written to or mutably borrowed: places in the source, empty
    when the value is used exactly as it was produced"""
    touched = []
    seen = set()
    rl = local
    while rl is not None and rl not in seen:
        seen.add(rl)
        nxt = None
        for b2, i2, s2 in body.stmts():
            rv2 = s2.get("rv")
            if not rv2:
                continue
            if rv2["k"] in ("ref", "rawptr") and rv2.get("bk") != "shared" and rv2["place"][0] == rl:
                touched.append(P.rel(s2["sp"]))
            if tuple(s2["p"]) == (rl,) and rv2["k"] == "use" and op_place(rv2["op"]) and len(op_place(rv2["op"])) == 1:
                nxt = op_place(rv2["op"])[0]
            if s2["p"][0] == rl and len(s2["p"]) > 1:
                touched.append(P.rel(s2["sp"]))
        rl = nxt
    return touched



def final_aggs(P, body, adt_suffix):
    """find_aggs, minus the aggregates that only serve as the base of a struct update (`S { a: .., ..template(..) }`): a value built
    here whose fields are then copied one by one into another aggregate of the same type is an intermediate, not a result"""
    aggs = list(find_aggs(P, adt_suffix, [body]))
    if len(aggs) < 2:
        return aggs
    feeders = set()
    for _, bb, idx, st in aggs:
        for o in st["rv"]["ops"]:
            pl = op_place(o)
            if pl is not None and len(pl) == 2 and isinstance(pl[1], str) and pl[1].startswith("."):
                feeders.add(pl[0])
    for _ in range(4):          # ... also through whole moves (a spliced helper's result local)
        for _, _, st in body.stmts():
            rv = st.get("rv")
            if rv and rv["k"] == "use" and len(st["p"]) == 1 and st["p"][0] in feeders:
                src = op_place(rv["op"])
                if src is not None and len(src) == 1:
                    feeders.add(src[0])
    out = []
    for a in aggs:
        dst = a[3]["p"]
        if len(dst) == 1 and dst[0] in feeders:
            continue
        out.append(a)
    return out or aggs



def bit_width(t, depth=0):
    """an upper bound on the number of significant bits of an unsigned integer term (32 when nothing is known)"""
    from .prov import norm
    t = norm(t)
    if depth > 10:
        return 32
    if t[0] == "const":
        return max(1, int(t[1]).bit_length()) if isinstance(t[1], int) and not isinstance(t[1], bool) and t[1] >= 0 else 32
    if t[0] == "cast":
        inner = bit_width(t[3], depth + 1)
        src = str(t[1]) if len(t) > 1 else ""
        for name, w in (("u8", 8), ("u16", 16), ("bool", 1)):
            if src == name:
                inner = min(inner, w)
        return inner
    if t[0] == "index":
        return 8        # an octet of a byte buffer
    if t[0] == "bin":
        a, c = bit_width(t[2], depth + 1), bit_width(t[3], depth + 1)
        if t[1].startswith("Shl"):
            k = const_value(t[3])
            return min(32, a + k) if k is not None else 32
        if t[1] in ("BitOr", "BitXor"):
            return max(a, c)
        if t[1] == "BitAnd":
            return min(a, c)
        if t[1].startswith("Shr"):
            k = const_value(t[3])
            return max(0, a - k) if k is not None else a
        return 32
    if t[0] == "field" and norm(t[1])[0] == "bin":
        return bit_width(t[1], depth + 1)
    return 32
