"""Human-readable dump of a body (developer tool: python3 -m sa.mirpp <suffix>)."""
import sys


def pl(body, p):
    l = p[0]
    n = body.local_name(l)
    s = "_%d" % l + ("{%s}" % n if n else "")
    for e in p[1:]:
        if e == "*":
            s = "(*%s)" % s
        else:
            s = s + e
    return s


def kst(k):
    if "int" in k:
        return "%s_%s" % (k["int"], k["ty"].split("::")[-1])
    if "bits" in k:
        return "%s{%s}" % (k["ty"].split("::")[-1], k["bits"])
    if "bool" in k:
        return "true" if k["bool"] else "false"
    if "char" in k:
        return "char(%s)" % k["char"]
    if "str" in k:
        return repr(k["str"])
    if "bytes" in k:
        try:
            return "b" + repr(bytes.fromhex(k["bytes"]))[1:]
        except Exception:
            return "bytes:" + k["bytes"]
    if "fn" in k:
        return "fn:" + k["fn"]
    if "uneval" in k:
        return "const:" + k["uneval"]
    if "static" in k:
        return "static:" + k["static"]
    if "zst" in k:
        return "ZST<%s>" % k["ty"]
    return "?" + str(k)


def op(body, o):
    if "c" in o:
        return pl(body, o["c"])
    if "m" in o:
        return "move " + pl(body, o["m"])
    return kst(o["k"])


def rv(body, r):
    k = r["k"]
    if k == "use":
        return op(body, r["op"])
    if k == "ref":
        return "&%s%s" % ("mut " if r["bk"] == "mut" else ("fake " if r["bk"] == "fake" else ""), pl(body, r["place"]))
    if k == "rawptr":
        return "&raw %s" % pl(body, r["place"])
    if k == "cast":
        return "%s as %s (%s)" % (op(body, r["op"]), r["to"], r["kind"])
    if k == "bin":
        return "%s(%s, %s)" % (r["op"], op(body, r["a"]), op(body, r["b"]))
    if k == "un":
        return "%s(%s)" % (r["op"], op(body, r["a"]))
    if k == "discr":
        return "discriminant(%s)" % pl(body, r["place"])
    if k == "agg":
        ak = r["akind"]
        ops = [op(body, o) for o in r["ops"]]
        if ak == "adt":
            fs = r["fields"]
            return "%s::%s{%s}" % (r["adt"], r["variant"], ", ".join("%s: %s" % (f, o) for f, o in zip(fs, ops)))
        if ak in ("closure", "coroutine", "coroutine_closure"):
            return "%s<%s>[%s]" % (ak, r["def"], ", ".join(ops))
        return "%s(%s)" % (ak, ", ".join(ops))
    if k == "repeat":
        return "[%s; %s]" % (op(body, r["op"]), r["n"])
    return str(r)


def term(body, t):
    k = t["k"]
    if k == "call":
        c = t["callee"]
        name = c.get("resolved") or c.get("decl") or ("(*%s)" % op(body, c["ptr"]))
        extra = ""
        if c.get("resolved") and c.get("decl") and c["resolved"] != c["decl"]:
            extra = "  [decl %s]" % c["decl"]
        return "%s = %s(%s) -> bb%s%s   @%s" % (pl(body, t["dest"]), name, ", ".join(op(body, a) for a in t["args"]),
                                                t["t"], extra, t["sp"].split(":", 1)[1])
    if k == "switch":
        return "switch(%s) [%s, else: bb%d]" % (op(body, t["discr"]), ", ".join("%d: bb%d" % (v, b) for v, b in t["targets"]), t["otherwise"])
    if k == "assert":
        return "assert(%s == %s, %s(%s)) -> bb%d" % (op(body, t["cond"]), t["expected"], t["msg"], ", ".join(op(body, o) for o in t["ops"]), t["t"])
    if k == "drop":
        return "drop(%s) -> bb%d" % (pl(body, t["place"]), t["t"])
    if k == "yield":
        return "yield(%s) -> bb%d resume %s" % (op(body, t["value"]), t["t"], pl(body, t["resume_arg"]))
    if k in ("goto", "falseedge", "falseunwind"):
        return "%s -> bb%d" % (k, t["t"])
    return k


def dump(body, out=sys.stdout):
    out.write("fn %s  [%s] %s args=%d\n" % (body.id, body.kind, body.span, body.arg_count))
    for i, l in enumerate(body.locals):
        n = body.local_name(i)
        out.write("  let _%d%s: %s\n" % (i, "{%s}" % n if n else "", l["ty"]))
    for v in body.vars:
        if "place" in v and len(v["place"]) > 1:
            out.write("  debug %s => %s\n" % (v["name"], pl(body, v["place"])))
    for i, b in enumerate(body.blocks):
        out.write(" bb%d%s:\n" % (i, " (cleanup)" if b.get("cleanup") else ""))
        for s in b["stmts"]:
            if "rv" in s:
                out.write("    %s = %s   @%s\n" % (pl(body, s["p"]), rv(body, s["rv"]), s["sp"].split(":")[1]))
            else:
                out.write("    setdiscr %s = %s\n" % (pl(body, s["p"]), s.get("setdiscr")))
        if b["term"] is not None:
            out.write("    %s\n" % term(body, b["term"]))


if __name__ == "__main__":
    sys.path.insert(0, "/verif")
    from sa.facts import Program
    import os
    from sa.extract import facts_for
    P = Program(os.environ.get("FACTS") or facts_for()[0])
    for suf in sys.argv[1:]:
        for b in P.find(suf):
            dump(b)
