"""Decoding of format_args! sites in built MIR (template byte string + rt::Argument array)."""
from .facts import callee_name
from .prov import norm, strip, subterms
from .util import terms


class FmtError(Exception):
    pass


def decode_template(b):
    """-> list of ('lit', str) | ('arg', index, {'flags': int|None, 'width':..., 'precision':...})"""
    out = []
    i = 0
    nxt = 0
    while i < len(b):
        n = b[i]
        i += 1
        if n == 0:
            break
        if n < 0x80:
            out.append(("lit", b[i:i + n].decode("utf-8", "replace")))
            i += n
        elif n == 0x80:
            ln = b[i] | (b[i + 1] << 8)
            i += 2
            out.append(("lit", b[i:i + ln].decode("utf-8", "replace")))
            i += ln
        elif n >= 0xC0:
            spec = {}
            if n & 1:
                spec["flags"] = int.from_bytes(b[i:i + 4], "little")
                i += 4
            if n & 2:
                spec["width"] = int.from_bytes(b[i:i + 2], "little")
                i += 2
            if n & 4:
                spec["precision"] = int.from_bytes(b[i:i + 2], "little")
                i += 2
            idx = nxt
            if n & 8:
                idx = int.from_bytes(b[i:i + 2], "little")
                i += 2
            nxt = idx + 1
            out.append(("arg", idx, spec))
        else:
            raise FmtError("unknown template byte 0x%02x" % n)
    return out


class FmtSite:
    def __init__(self, body, bb, pieces, args):
        self.body = body
        self.bb = bb
        self.pieces = pieces     # decoded template
        self.args = args         # list of (trait, value_term, value_ty)

    def text(self):
        s = ""
        for p in self.pieces:
            if p[0] == "lit":
                s += p[1]
            else:
                tr = self.args[p[1]][0] if p[1] < len(self.args) else "?"
                s += "{%s}" % {"display": "", "debug": ":?", "lower_hex": ":x", "upper_hex": ":X"}.get(tr, ":" + tr)
        return s


def fmt_sites(P, body):
    """all format_args! sites of a body"""
    T = terms(P, body)
    out = []
    for bb, tm in body.calls():
        n = callee_name(tm) or ""
        if not n.startswith("std::fmt::Arguments::<'a>::"):
            continue
        m = n.rsplit("::", 1)[1]
        args = T.call_args(bb)
        if m == "new":
            tpl = norm(args[0])
            if tpl[0] != "const" or not isinstance(tpl[1], bytes):
                out.append(FmtSite(body, bb, None, None))
                continue
            pieces = decode_template(tpl[1])
            arr = norm(args[1])
            fargs = []
            if arr[0] == "agg" and arr[1] == "array":
                for _, a in arr[3]:
                    a = norm(a)
                    if a[0] == "call" and "fmt::rt::Argument" in a[1]:
                        trait = a[1].rsplit("::new_", 1)[1] if "::new_" in a[1] else a[1]
                        # value type from the generic args of the constructor call
                        tmc = body.blocks[a[3]]["term"]
                        g = tmc["callee"].get("gargs") or []
                        vty = g[-1] if g else "?"
                        fargs.append((trait, norm(a[2][0]), vty))
                    else:
                        fargs.append(("?", a, "?"))
            out.append(FmtSite(body, bb, pieces, fargs))
        elif m in ("from_str", "from_str_nonconst", "new_const"):
            s = norm(args[0])
            lit = s[1] if s[0] == "const" and isinstance(s[1], str) else None
            out.append(FmtSite(body, bb, [("lit", lit)] if lit is not None else None, []))
        else:
            out.append(FmtSite(body, bb, None, None))
    return out
