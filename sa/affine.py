"""Affine normal form of integer terms: sum(coef * atom) + const, over checked/unchecked MIR arithmetic."""
from .prov import norm


def affine(t, is_atom, depth=0):
    """-> (dict atom->coef, const) or None.  `is_atom(term)` marks opaque leaves (after norm)."""
    if depth > 40:
        return None
    t = norm(t)
    if is_atom(t):
        return ({t: 1}, 0)
    k = t[0]
    if k == "const" and isinstance(t[1], int) and not isinstance(t[1], bool):
        return ({}, t[1])
    if k == "field" and t[2] == "0" and t[1][0] == "bin" and t[1][1].endswith("WithOverflow"):
        return affine(t[1], is_atom, depth + 1)
    if k == "cast" and t[1] == "IntToInt":
        return affine(t[3], is_atom, depth + 1)
    if k == "bin":
        op = t[1].replace("WithOverflow", "").replace("Unchecked", "")
        a = affine(t[2], is_atom, depth + 1)
        b = affine(t[3], is_atom, depth + 1)
        if a is None or b is None:
            return None
        if op in ("Add", "Sub"):
            sgn = 1 if op == "Add" else -1
            d = dict(a[0])
            for x, c in b[0].items():
                d[x] = d.get(x, 0) + sgn * c
            return ({x: c for x, c in d.items() if c != 0}, a[1] + sgn * b[1])
        if op == "Mul":
            if not a[0]:
                return ({x: c * a[1] for x, c in b[0].items() if c * a[1] != 0}, a[1] * b[1])
            if not b[0]:
                return ({x: c * b[1] for x, c in a[0].items() if c * b[1] != 0}, a[1] * b[1])
            return None
        return None
    if k == "call" and isinstance(t[1], str):
        n = t[1]
        if n.startswith("core::num::<impl ") and (n.endswith("::wrapping_add") or n.endswith("::wrapping_sub")):
            fake = ("bin", "Add" if n.endswith("add") else "Sub", t[2][0], t[2][1])
            return affine(fake, is_atom, depth + 1)
    return None
