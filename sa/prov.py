"""Backward provenance: the symbolic term a MIR operand/place evaluates to.

Terms are hashable tuples:
  ('param', n)                       n-th local that is an argument (1-based local index)
  ('const', value[, name])           ints / bools / str / bytes / ('fn', path)
  ('call', callee, (args..), bb)     result of a call (callee = resolved path or declaration)
  ('agg', kind, variant, ((field, term)..))   kind = adt path | 'tuple' | 'array' | 'closure:<def>'
  ('bin', op, a, b) ('un', op, a) ('cast', kind, to_ty, a)
  ('ref', t) ('deref', t) ('field', t, name) ('downcast', t, variant) ('payload', variant, t)
  ('index', t, i) ('discr', t) ('repeat', t, n)
  ('phi', (t1, t2, ..))              several reaching definitions
  ('rec', local)                     loop-carried (cyclic) definition
  ('unknown', why)
The analysis is flow-sensitive (reaching definitions along normal CFG edges) and
intraprocedural; rules stitch bodies together through call/closure terms.
"""
from .cfg import cfg_of
from .facts import op_place, const_int

IDENTITY_CALLS = (
    "std::clone::Clone::clone", "std::borrow::ToOwned::to_owned", "std::convert::Into::into",
    "std::convert::From::from", "std::ops::Deref::deref", "std::ops::DerefMut::deref_mut",
    "std::convert::AsRef::as_ref", "std::borrow::Borrow::borrow", "std::future::IntoFuture::into_future",
    "std::convert::AsMut::as_mut", "std::borrow::BorrowMut::borrow_mut",
    "std::iter::IntoIterator::into_iter",
)
IDENTITY_RESOLVED_PREFIXES = (
    "std::pin::Pin::<Ptr>::new_unchecked", "std::pin::Pin::<Ptr>::new", "std::slice::<impl [T]>::to_vec",
    "std::vec::Vec::<T, A>::as_slice", "std::string::String::as_str", "std::string::String::as_bytes",
    "std::option::Option::<T>::as_ref", "std::option::Option::<&T>::cloned", "std::option::Option::<&T>::copied",
    "std::option::Option::<T>::as_deref", "std::sync::Arc::<T>::new", "std::boxed::Box::<T>::new",
    "std::pin::Pin::<Ptr>::as_mut", "std::pin::Pin::<&'a mut T>::get_mut",
)


class Terms:
    def __init__(self, body, program=None):
        self.body = body
        self.P = program
        self.cfg = cfg_of(body)
        self._memo = {}
        self._stack = set()
        self._defsites = None

    # ------------------------------------------------------------------ def sites
    def defsites(self):
        """local -> list of ('s', bb, idx) | ('t', bb)"""
        if self._defsites is None:
            d = {}
            for bb, idx, s in self.body.stmts():
                d.setdefault(s["p"][0], []).append(("s", bb, idx))
            for bb, t in self.body.terms():
                if t["k"] == "call":
                    d.setdefault(t["dest"][0], []).append(("t", bb))
                elif t["k"] == "yield":
                    d.setdefault(t["resume_arg"][0], []).append(("t", bb))
            self._defsites = d
        return self._defsites

    @staticmethod
    def _overlap(dest, place):
        """'whole' if dest is a prefix of (or equal to) place; 'partial' if place is a strict prefix of dest; else None"""
        n = min(len(dest), len(place))
        if dest[:n] != place[:n]:
            return None
        if len(dest) <= len(place):
            return "whole"
        return "partial"

    def reaching(self, place, bb, idx):
        """definitions of `place` (or of a prefix) reaching the point just before statement idx of bb"""
        body = self.body
        L = place[0]
        sites = self.defsites().get(L, [])
        out = []
        if not sites:
            return [("param", L)]
        stmt_defs = {}
        term_defs = set()
        for s in sites:
            if s[0] == "s":
                stmt_defs.setdefault(s[1], []).append(s[2])
            else:
                term_defs.add(s[1])
        seen = set()
        stack = [(bb, idx)]
        first = True
        while stack:
            b, i = stack.pop()
            stopped = False
            if b in stmt_defs:
                for j in sorted(stmt_defs[b], reverse=True):
                    if j < i:
                        dest = body.blocks[b]["stmts"][j]["p"]
                        ov = self._overlap(dest, place)
                        if ov == "whole":
                            out.append(("s", b, j))
                            stopped = True
                            break
                        elif ov == "partial":
                            out.append(("partial", b, j))
            if stopped:
                continue
            if b == 0:
                out.append(("param", L))
            for p in self.cfg.pred[b]:
                # does p's terminator define L along this edge?
                if p in term_defs:
                    t = body.blocks[p]["term"]
                    dest = t["dest"] if t["k"] == "call" else t["resume_arg"]
                    ov = self._overlap(dest, place)
                    if ov == "whole":
                        if ("t", p) not in out:
                            out.append(("t", p))
                        continue
                    elif ov == "partial":
                        out.append(("partial_t", p))
                if p in seen:
                    continue
                seen.add(p)
                stack.append((p, len(body.blocks[p]["stmts"]) + 1))
            first = False
        # a 'param' reaching def only makes sense for arguments (and the coroutine/closure env)
        res = []
        for d in out:
            if d[0] == "param" and not (1 <= L <= body.arg_count):
                continue
            if d not in res:
                res.append(d)
        return res

    # ------------------------------------------------------------------ terms
    def const_term(self, k):
        if "int" in k:
            return ("const", int(k["int"]))
        if "bits" in k:
            return ("const", int(k["bits"]))
        if "bool" in k:
            return ("const", bool(k["bool"]), "bool")  # 3-tuple: never equal to the integer constant 1/0
        if "char" in k:
            return ("const", int(k["char"]))
        if "str" in k:
            return ("const", k["str"])
        if "bytes" in k:
            return ("const", bytes.fromhex(k["bytes"]))
        if "fn" in k:
            return ("const", ("fn", k["fn"]))
        if "uneval" in k:
            name = k["uneval"]
            if self.P is not None:
                v = self.P.consts.get(name)
                if v is not None:
                    t = self.const_term(v)
                    if t[0] == "const":
                        return ("const", t[1], name)
            return ("const", ("named", name), name)
        if "zst" in k:
            return ("const", ("zst", k["ty"]))
        if "static" in k:
            return ("const", ("static", k["static"]))
        return ("unknown", "const")

    def operand(self, o, bb, idx):
        p = op_place(o)
        if p is None:
            return self.const_term(o["k"])
        return self.place(p, bb, idx)

    def place(self, place, bb, idx):
        key = (place, bb, idx)
        if key in self._memo:
            return self._memo[key]
        if key in self._stack:
            return ("rec", place[0])
        self._stack.add(key)
        try:
            t = self._place(place, bb, idx)
        finally:
            self._stack.discard(key)
        self._memo[key] = t
        return t

    def _place(self, place, bb, idx):
        body = self.body
        defs = self.reaching(place, bb, idx)
        terms = []
        for d in defs:
            if d[0] == "param":
                t = ("param", place[0])
                t = self.project(t, place[1:])
            elif d[0] == "s":
                s = body.blocks[d[1]]["stmts"][d[2]]
                if "rv" not in s:
                    t = ("unknown", "setdiscr")
                else:
                    t = self.rvalue(s["rv"], d[1], d[2])
                    t = self.project(t, place[len(s["p"]):])
            elif d[0] == "t":
                tm = body.blocks[d[1]]["term"]
                if tm["k"] == "call":
                    t = self.call_term(tm, d[1])
                    t = self.project(t, place[len(tm["dest"]):])
                else:
                    t = ("unknown", "resume")
            else:
                t = ("unknown", "partial")
            if t not in terms:
                terms.append(t)
        if not terms:
            return ("unknown", "nodef")
        if len(terms) == 1:
            return terms[0]
        return ("phi", tuple(terms))

    def call_term(self, tm, bb):
        c = tm["callee"]
        name = c.get("resolved") or c.get("decl")
        nstm = len(self.body.blocks[bb]["stmts"])
        args = tuple(self.operand(a, bb, nstm) for a in tm["args"])
        if name is None:
            fn = self.operand(c["ptr"], bb, nstm)
            return ("call", ("ptr", fn), args, bb)
        return ("call", name, args, bb)

    def project(self, t, projs):
        for e in projs:
            t = self.project1(t, e)
        return t

    def project1(self, t, e):
        if t[0] == "phi":
            return ("phi", tuple(self.project1(x, e) for x in t[1]))
        if e == "*":
            if t[0] == "ref":
                return t[1]
            return ("deref", t)
        if e.startswith("."):
            name = e[1:]
            if t[0] == "agg":
                for f, v in t[3]:
                    if f == name:
                        return v
            if t[0] == "downcast":
                # payload field of an enum variant
                if t[1][0] == "agg" and t[1][2] == t[2]:
                    for f, v in t[1][3]:
                        if f == name:
                            return v
                if name == "0":
                    return ("payload", t[2], t[1])
                return ("field", t, name)
            return ("field", t, name)
        if e.startswith("@"):
            return ("downcast", t, e[1:])
        if e.startswith("["):
            return ("index", t, e)
        return ("unknown", "proj " + e)

    def rvalue(self, rv, bb, idx):
        k = rv["k"]
        if k == "use":
            return self.operand(rv["op"], bb, idx)
        if k in ("ref", "rawptr"):
            return ("ref", self.place(rv["place"], bb, idx))
        if k == "cast":
            return ("cast", rv["kind"], rv["to"], self.operand(rv["op"], bb, idx))
        if k == "bin":
            return ("bin", rv["op"], self.operand(rv["a"], bb, idx), self.operand(rv["b"], bb, idx))
        if k == "un":
            return ("un", rv["op"], self.operand(rv["a"], bb, idx))
        if k == "discr":
            return ("discr", self.place(rv["place"], bb, idx))
        if k == "agg":
            ak = rv["akind"]
            ops = [self.operand(o, bb, idx) for o in rv["ops"]]
            if ak == "adt":
                return ("agg", rv["adt"], rv["variant"], tuple(zip(rv["fields"], ops)))
            if ak in ("closure", "coroutine", "coroutine_closure"):
                return ("agg", "closure:" + rv["def"], "", tuple((str(i), o) for i, o in enumerate(ops)))
            return ("agg", ak, "", tuple((str(i), o) for i, o in enumerate(ops)))
        if k == "repeat":
            return ("repeat", self.operand(rv["op"], bb, idx), rv.get("n"))
        return ("unknown", k)

    # ------------------------------------------------------------------ convenience
    def call_args(self, bb):
        """terms of the arguments of the call terminating bb"""
        tm = self.body.blocks[bb]["term"]
        nstm = len(self.body.blocks[bb]["stmts"])
        return [self.operand(a, bb, nstm) for a in tm["args"]]

    def at_term(self, o, bb):
        return self.operand(o, bb, len(self.body.blocks[bb]["stmts"]))


# ---------------------------------------------------------------------- normalisation

def is_identity_call(t):
    if t[0] != "call" or not isinstance(t[1], str) or not t[2]:
        return False
    name = t[1]
    for i in IDENTITY_CALLS:
        if name == i or name.endswith("as " + i + ">::" + i.rsplit("::", 1)[1]):
            return True
    # resolved impl paths look like "<T as std::clone::Clone>::clone"
    for i in IDENTITY_CALLS:
        tr, m = i.rsplit("::", 1)
        if (" as " + tr + ">::" + m) in name or (" as " + tr + "<") in name and name.endswith(">::" + m):
            return True
    for p in IDENTITY_RESOLVED_PREFIXES:
        if name == p:
            return True
    return False


def _payload_of_built(tag, x, depth):
    """the success payload of a value whose every success alternative was built right here (`Ok(v)` / `Some(v)`): v.
    Alternatives that are the failure variant (`Err(..)`, `None`, `from_residual(..)`) cannot flow into a success payload.
    This is what a helper returning `Ok(expr)` looks like after inlining, followed by `?` in the caller."""
    alts = x[1] if x[0] == "phi" else (x,)
    good = []
    for a in alts:
        a = strip(a, depth + 1)
        if a[0] == "agg" and a[2] in ("Err", "None"):
            continue
        if a[0] == "call" and isinstance(a[1], str) and a[1].endswith("::from_residual"):
            continue
        if a[0] == "agg" and len(a[3]) == 1 and ((a[2] == "Some") if tag == "Some" else (a[2] == "Ok")):
            good.append(strip(a[3][0][1], depth + 1))
            continue
        return None
    if not good:
        return None
    return good[0] if len(good) == 1 else ("phi", tuple(good))


def strip(t, depth=0):
    """remove value-preserving wrappers: refs/derefs, identity-like calls, pointer coercions, `?`/await plumbing"""
    if depth > 60:
        return t
    k = t[0]
    if k in ("ref", "deref"):
        return strip(t[1], depth + 1)
    if k == "cast" and (t[1].startswith("Coerce") or t[1] in ("PtrToPtr", "Transmute", "Subtype")):
        return strip(t[3], depth + 1)
    if k == "call" and is_identity_call(t):
        return strip(t[2][0], depth + 1)
    if k == "payload":
        inner = strip(t[2], depth + 1)
        # x? : Try::branch(x) then Continue payload  ==> payload of x
        if inner[0] == "call" and isinstance(inner[1], str) and inner[1].endswith("::branch") and "Try" in inner[1] or \
                (inner[0] == "call" and inner[1] == "std::ops::Try::branch"):
            src = strip(inner[2][0], depth + 1)
            # the success value of `x.map_err(f)?` is the success value of `x?`
            for _ in range(3):
                if src[0] == "call" and isinstance(src[1], str) and src[1].endswith("::map_err") and "Result" in src[1] and len(src[2]) == 2:
                    src = strip(src[2][0], depth + 1)
                else:
                    break
            known = _payload_of_built("?", src, depth)
            return known if known is not None else ("payload", "?", src)
        if t[1] in ("Ok", "Some", "Continue"):
            known = _payload_of_built(t[1], inner, depth)
            if known is not None:
                return known
        # awaited future: poll(...)@Ready.0
        if t[1] == "Ready" and inner[0] == "call" and len(inner[2]) == 2:
            fut = strip(inner[2][0], depth + 1)
            return ("await", fut)
        return ("payload", t[1], inner)
    if k == "field":
        inner = strip(t[1], depth + 1)
        if inner[0] == "agg":
            # a field read of a value built right here is that field's operand
            for f, v in inner[3]:
                if f == t[2]:
                    return strip(v, depth + 1)
        return ("field", inner, t[2])
    if k == "phi":
        xs = []
        for x in t[1]:
            s = strip(x, depth + 1)
            if s not in xs:
                xs.append(s)
        if len(xs) == 1:
            return xs[0]
        return ("phi", tuple(xs))
    return t


_norm_memo = {}


def norm(t, depth=0):
    """strip() applied recursively to every sub-term"""
    if depth > 80:
        return t
    r = _norm_memo.get(t)
    if r is not None:
        return r
    s = strip(t)
    k = s[0]
    if k == "call":
        fn = s[1]
        if isinstance(fn, tuple) and fn[0] == "ptr":
            fn = ("ptr", norm(fn[1], depth + 1))
        r = ("call", fn, tuple(norm(a, depth + 1) for a in s[2]), s[3])
    elif k == "agg":
        r = ("agg", s[1], s[2], tuple((f, norm(v, depth + 1)) for f, v in s[3]))
    elif k == "bin":
        r = ("bin", s[1], norm(s[2], depth + 1), norm(s[3], depth + 1))
    elif k == "un":
        r = ("un", s[1], norm(s[2], depth + 1))
    elif k == "cast":
        r = ("cast", s[1], s[2], norm(s[3], depth + 1))
    elif k in ("field", "downcast", "index", "repeat"):
        r = (k, norm(s[1], depth + 1)) + tuple(s[2:])
    elif k == "payload":
        r = ("payload", s[1], norm(s[2], depth + 1))
    elif k == "await":
        r = ("await", norm(s[1], depth + 1))
    elif k == "discr":
        r = ("discr", norm(s[1], depth + 1))
    elif k == "phi":
        xs = []
        for x in s[1]:
            y = norm(x, depth + 1)
            if y not in xs:
                xs.append(y)
        r = xs[0] if len(xs) == 1 else ("phi", tuple(xs))
    else:
        r = s
    if len(_norm_memo) > 200000:
        _norm_memo.clear()
    _norm_memo[t] = r
    return r


def _children(t):
    k = t[0]
    if k in ("ref", "deref", "discr", "field", "downcast", "index", "repeat", "await"):
        return [t[1]]
    if k == "payload":
        return [t[2]]
    if k == "cast":
        return [t[3]]
    if k == "bin":
        return [t[2], t[3]]
    if k == "un":
        return [t[2]]
    if k == "call":
        return ([t[1][1]] if isinstance(t[1], tuple) else []) + list(t[2])
    if k == "agg":
        return [v for _, v in t[3]]
    if k == "phi":
        return list(t[1])
    return []


def _subterms_pruned(t, depth, prune):
    for c in _children(t):
        yield from subterms(c, depth + 1, prune)


def subterms(t, depth=0, prune=None):
    """all sub-terms (pre-order); `prune(t)` true: t is yielded but not entered"""
    yield t
    if depth > 80:
        return
    if prune is not None:
        if prune(t):
            return
        yield from _subterms_pruned(t, depth, prune)
        return
    k = t[0]
    if k in ("ref", "deref", "discr"):
        yield from subterms(t[1], depth + 1)
    elif k == "field" or k == "downcast" or k == "index" or k == "repeat":
        yield from subterms(t[1], depth + 1)
    elif k == "payload":
        yield from subterms(t[2], depth + 1)
    elif k == "await":
        yield from subterms(t[1], depth + 1)
    elif k == "cast":
        yield from subterms(t[3], depth + 1)
    elif k == "bin":
        yield from subterms(t[2], depth + 1)
        yield from subterms(t[3], depth + 1)
    elif k == "un":
        yield from subterms(t[2], depth + 1)
    elif k == "call":
        if isinstance(t[1], tuple):
            yield from subterms(t[1][1], depth + 1)
        for a in t[2]:
            yield from subterms(a, depth + 1)
    elif k == "agg":
        for _, v in t[3]:
            yield from subterms(v, depth + 1)
    elif k == "phi":
        for x in t[1]:
            yield from subterms(x, depth + 1)


def mentions(t, pred):
    for s in subterms(t):
        if pred(s):
            return True
    return False


def access_path(t):
    """for a term that is a pure access path from a parameter: (param_local, ('field',...)) else None.
    Value-preserving wrappers are stripped at every level."""
    path = []
    t = strip(t)
    while True:
        k = t[0]
        if k == "param":
            return (t[1], tuple(reversed(path)))
        if k == "field":
            path.append(t[2])
            t = strip(t[1])
            continue
        if k == "payload":
            path.append("<" + t[1] + ">")
            t = strip(t[2])
            continue
        return None


def show(t, depth=0):
    if depth > 12:
        return "…"
    k = t[0]
    if k == "param":
        return "arg%d" % t[1]
    if k == "const":
        if len(t) > 2:
            return "%s=%r" % (t[2].split("::")[-1], t[1])
        return repr(t[1])
    if k == "call":
        n = t[1] if isinstance(t[1], str) else "(*%s)" % show(t[1][1], depth + 1)
        return "%s(%s)" % (n, ", ".join(show(a, depth + 1) for a in t[2]))
    if k == "agg":
        return "%s::%s{%s}" % (t[1], t[2], ", ".join("%s: %s" % (f, show(v, depth + 1)) for f, v in t[3]))
    if k == "bin":
        return "%s(%s, %s)" % (t[1], show(t[2], depth + 1), show(t[3], depth + 1))
    if k == "un":
        return "%s(%s)" % (t[1], show(t[2], depth + 1))
    if k == "cast":
        return "(%s as %s)" % (show(t[3], depth + 1), t[2])
    if k == "ref":
        return "&" + show(t[1], depth + 1)
    if k == "deref":
        return "*" + show(t[1], depth + 1)
    if k == "field":
        return "%s.%s" % (show(t[1], depth + 1), t[2])
    if k == "downcast":
        return "(%s as %s)" % (show(t[1], depth + 1), t[2])
    if k == "payload":
        return "%s<%s>" % (show(t[2], depth + 1), t[1])
    if k == "await":
        return "await(%s)" % show(t[1], depth + 1)
    if k == "index":
        return "%s%s" % (show(t[1], depth + 1), t[2])
    if k == "discr":
        return "discr(%s)" % show(t[1], depth + 1)
    if k == "phi":
        return "phi(%s)" % " | ".join(show(x, depth + 1) for x in t[1])
    if k == "rec":
        return "rec(_%d)" % t[1]
    return str(t)
