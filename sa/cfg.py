"""CFG utilities over built MIR: successors, dominators, edge dominance, reachability.

Only *normal* edges are followed (unwind/cleanup edges and the imaginary
target of FalseEdge are ignored): the rules talk about executions that
return, not about unwinding.
"""


def succs_of_term(t):
    if t is None:
        return []
    k = t["k"]
    if k in ("goto", "drop", "assert", "falseedge", "falseunwind", "yield"):
        return [t["t"]]
    if k == "call":
        return [t["t"]] if t["t"] is not None else []
    if k == "switch":
        out = []
        for _, bb in t["targets"]:
            if bb not in out:
                out.append(bb)
        if t["otherwise"] not in out:
            out.append(t["otherwise"])
        return out
    if k == "asm":
        return list(t.get("targets", []))
    return []


class CFG:
    def __init__(self, body):
        self.body = body
        n = len(body.blocks)
        self.n = n
        self.succ = [succs_of_term(b["term"]) for b in body.blocks]
        self.pred = [[] for _ in range(n)]
        for i, ss in enumerate(self.succ):
            for s in ss:
                self.pred[s].append(i)
        self.reach = self._reach_from(0)
        self._idom = None
        self._dom_cache = {}
        self._rets = None

    def _reach_from(self, start, blocked=()):
        seen = set()
        todo = [start]
        while todo:
            x = todo.pop()
            if x in seen or x in blocked:
                continue
            seen.add(x)
            todo.extend(self.succ[x])
        return seen

    def reachable_from(self, start, blocked=()):
        return self._reach_from(start, blocked)

    def reachable_from_flags(self, start, blocked=(), limit=20000):
        """Blocks reachable from `start` when the boolean locals that only ever hold constants (or copies of such locals) are followed
        along the way: a switch on one of them whose value is known on the path takes only that branch.  This is reachability in the
        program that threading those constant jumps would produce, without copying any block — so it also sees through stretches that
        contain calls.  A flag nothing is known about (at `start`, or after any other kind of assignment) allows both branches."""
        body = self.body

        def place_of(o):
            pl = o.get("c") or o.get("m")
            return tuple(pl) if pl is not None else None
        bools = {l for l, d in enumerate(body.locals) if d.get("ty") == "bool"}
        tracked = set(bools)
        # a local is tracked when every definition is a constant or a copy of a boolean local; borrowed ones are not
        for blk in body.blocks:
            for st in blk["stmts"]:
                rv = st.get("rv")
                if rv is None:
                    continue
                if rv["k"] in ("ref", "rawptr") and rv["place"][0] in tracked:
                    tracked.discard(rv["place"][0])
        seen = set()
        out = set()
        todo = [(start, frozenset())]
        while todo and len(seen) < limit:
            bb, st8 = todo.pop()
            if (bb, st8) in seen or bb in blocked:
                continue
            seen.add((bb, st8))
            out.add(bb)
            state = dict(st8)
            blk = body.blocks[bb]
            for st in blk["stmts"]:
                rv = st.get("rv")
                p_ = tuple(st["p"])
                if rv is None or len(p_) != 1 or p_[0] not in tracked:
                    if rv is not None and p_ and p_[0] in state and len(p_) > 1:
                        state.pop(p_[0], None)
                    continue
                l = p_[0]
                v = None
                if rv["k"] == "use":
                    k = rv["op"].get("k")
                    if isinstance(k, dict) and isinstance(k.get("bool"), bool):
                        v = k["bool"]
                    else:
                        src = place_of(rv["op"])
                        if src is not None and len(src) == 1 and src[0] in state:
                            v = state[src[0]]
                elif rv["k"] == "un" and rv.get("op") == "Not":
                    src = place_of(rv["a"])
                    if src is not None and len(src) == 1 and src[0] in state:
                        v = not state[src[0]]
                if v is None:
                    state.pop(l, None)
                else:
                    state[l] = v
            t = blk["term"]
            if t is None:
                continue
            if t["k"] == "call" and len(t["dest"]) >= 1:
                state.pop(t["dest"][0], None)
            nxt = None
            if t["k"] == "switch":
                src = place_of(t["discr"])
                if src is not None and len(src) == 1 and src[0] in state:
                    val = 1 if state[src[0]] else 0
                    tg = [x for v_, x in t["targets"] if int(v_) == val]
                    nxt = tg[:1] if tg else [t["otherwise"]]
            if nxt is None:
                nxt = self.succ[bb]
            f8 = frozenset(state.items())
            for x in nxt:
                todo.append((x, f8))
        return out

    def reachable_avoiding_edges(self, start, bad_edges):
        seen = set()
        todo = [start]
        while todo:
            x = todo.pop()
            if x in seen:
                continue
            seen.add(x)
            for s in self.succ[x]:
                if (x, s) not in bad_edges:
                    todo.append(s)
        return seen

    # ---- dominators (Cooper-Harvey-Kennedy)
    def idom(self):
        if self._idom is not None:
            return self._idom
        order = []
        seen = set()

        def dfs(root):
            stack = [(root, iter(self.succ[root]))]
            seen.add(root)
            while stack:
                node, it = stack[-1]
                adv = False
                for s in it:
                    if s not in seen:
                        seen.add(s)
                        stack.append((s, iter(self.succ[s])))
                        adv = True
                        break
                if not adv:
                    order.append(node)
                    stack.pop()

        dfs(0)
        rpo = list(reversed(order))
        num = {b: i for i, b in enumerate(rpo)}
        idom = {0: 0}
        changed = True
        while changed:
            changed = False
            for b in rpo[1:]:
                new = None
                for p in self.pred[b]:
                    if p in idom:
                        if new is None:
                            new = p
                        else:
                            a, c = p, new
                            while a != c:
                                while num[a] > num[c]:
                                    a = idom[a]
                                while num[c] > num[a]:
                                    c = idom[c]
                            new = a
                if new is not None and idom.get(b) != new:
                    idom[b] = new
                    changed = True
        self._idom = idom
        return idom

    def dominators(self, b):
        """set of blocks dominating b (including b)"""
        if b in self._dom_cache:
            return self._dom_cache[b]
        idom = self.idom()
        out = set()
        if b not in idom:
            self._dom_cache[b] = out
            return out
        x = b
        while True:
            out.add(x)
            if x == 0:
                break
            x = idom[x]
        self._dom_cache[b] = out
        return out

    def dominates(self, a, b):
        return a in self.dominators(b)

    def edge_dominates(self, edge, b):
        """every path entry->b uses edge (u,v)?  (b unreachable => False)"""
        if b not in self.reach:
            return False
        u, v = edge
        r = self.reachable_avoiding_edges(0, {(u, v)})
        return b not in r

    def must_pass_block(self, via, target):
        """every path entry->target passes through block `via` (strictly before or equal)"""
        if target not in self.reach:
            return False
        if via == target:
            return True
        return target not in self._reach_from(0, blocked=(via,))

    def return_blocks(self):
        if self._rets is None:
            self._rets = [i for i, b in enumerate(self.body.blocks)
                          if i in self.reach and b["term"] is not None and b["term"]["k"] == "return"]
        return self._rets

    def paths_exist(self, a, b, blocked=()):
        return b in self._reach_from(a, blocked)

    def switch_edges(self, bb):
        """for a switch block: list of (value|None, target)"""
        t = self.body.blocks[bb]["term"]
        out = [(v, tgt) for v, tgt in t["targets"]]
        out.append((None, t["otherwise"]))
        return out

    def back_edges(self):
        out = []
        for u in self.reach:
            for v in self.succ[u]:
                if self.dominates(v, u):
                    out.append((u, v))
        return out

    def loops_by_header(self):
        """natural loops, those that share a header merged (a `continue`-like second back edge does not make a second loop)"""
        by = {}
        for e in self.back_edges():
            by.setdefault(e[1], set()).update(self.natural_loop(e))
        return list(by.values())

    def natural_loop(self, back_edge):
        u, v = back_edge
        loop = {v}
        todo = [u]
        while todo:
            x = todo.pop()
            if x in loop:
                continue
            loop.add(x)
            todo.extend(self.pred[x])
        return loop


def cfg_of(body):
    if body._cfg is None:
        body._cfg = CFG(body)
    return body._cfg
