"""Obligation engine (M4): enumeration of panic-capable sites in built MIR and their discharge.

A *site* is a construct that aborts the task when its condition fails: an Assert terminator (overflow, bounds, division),
a call of a std API documented to panic (unwrap/expect, indexing by range, copy_from_slice, ...), or an explicit panic
(panic!/assert!/unreachable!/unimplemented!).  A site is *discharged* when the engine shows the failing condition cannot hold,
from constants, type ranges, value ranges of known producers, and comparison facts harvested on dominating branch edges.
Terms are the flow-sensitive provenance terms of sa.prov with mutation through `&mut` arguments modelled as clobbers, so a fact
about `self.offset` established before `self.get_u8()` is not used after it.
"""
import re
from .facts import callee_name, op_place, const_int
from .prov import Terms, norm, strip, subterms, show
from .cfg import cfg_of

INT_BITS = {"u8": 8, "u16": 16, "u32": 32, "u64": 64, "u128": 128, "usize": 64, "i8": 8, "i16": 16, "i32": 32, "i64": 64, "i128": 128, "isize": 64}
ISIZE_MAX = (1 << 63) - 1

PANIC_FNS = ("core::panicking::panic", "core::panicking::panic_fmt", "core::panicking::panic_explicit", "core::panicking::assert_failed",
             "core::panicking::unreachable_display", "core::panicking::panic_display", "std::rt::begin_panic", "core::panicking::panic_nounwind",
             "core::panicking::panic_const", "core::option::expect_failed", "core::result::unwrap_failed", "core::panicking::panic_bounds_check")

UNWRAP_LIKE = ("std::option::Option::<T>::unwrap", "std::option::Option::<T>::expect", "std::result::Result::<T, E>::unwrap",
               "std::result::Result::<T, E>::expect", "std::result::Result::<T, E>::unwrap_err", "std::result::Result::<T, E>::expect_err")


def type_range(ty):
    ty = ty.strip()
    if ty in INT_BITS:
        b = INT_BITS[ty]
        if ty.startswith("u"):
            return (0, (1 << b) - 1)
        return (-(1 << (b - 1)), (1 << (b - 1)) - 1)
    if ty == "bool":
        return (0, 1)
    return None


class ClobberTerms(Terms):
    """Terms with kill semantics: a `&mut P` handed to a call makes everything under P unknown afterwards"""

    def defsites(self):
        if self._defsites is None:
            d = Terms.defsites(self)
            body = self.body
            mutref = {}
            for bb, idx, s in body.stmts():
                rv = s.get("rv")
                if rv and rv["k"] == "ref" and rv["bk"] == "mut" and len(s["p"]) == 1:
                    mutref[s["p"][0]] = rv["place"]
                elif rv and rv["k"] == "rawptr" and len(s["p"]) == 1:
                    mutref[s["p"][0]] = rv["place"]
            self._clobbers = {}
            for bb, t in body.calls():
                cn = callee_name(t)
                if self.P is not None and isinstance(cn, str) and cn in self.P.bodies and is_pure_fn(self.P, cn):
                    continue     # a workspace function that stores through none of its parameters (peek_u8(&mut self)) changes nothing
                if isinstance(cn, str) and cn.endswith("::next") and "std::ops::Range<" in " ".join(t["callee"].get("gargs") or []) + str(t["callee"].get("impl_self") or ""):
                    # advancing a `for i in s..e` iterator: the bounds the yielded values lie between are those it was built with
                    continue
                for a in t["args"]:
                    pl = op_place(a)
                    if pl is None or len(pl) != 1:
                        continue
                    target = None
                    if pl[0] in mutref:
                        target = tuple(mutref[pl[0]])
                        # reborrow chain: &mut (*_r) where _r is itself `&mut X`: what is handed over is X
                        hops = 0
                        while len(target) >= 2 and target[1] == "*" and target[0] in mutref and hops < 6:
                            target = tuple(mutref[target[0]]) + target[2:]
                            hops += 1
                    elif body.locals[pl[0]]["ty"].startswith("&mut "):
                        target = (pl[0], "*")
                    if target is None:
                        continue
                    # resolve reborrows `&mut (*_r)`: also clobbers (*_r) which is what _r points to
                    self._clobbers.setdefault(bb, []).append(target)
                    d.setdefault(target[0], []).append(("c", bb, target))
            self._defsites = d
        return self._defsites

    def reaching(self, place, bb, idx):
        body = self.body
        L = place[0]
        sites = self.defsites().get(L, [])
        if not any(s[0] == "c" for s in sites):
            return Terms.reaching(self, place, bb, idx)
        # generic version with clobber sites treated like terminator defs
        stmt_defs = {}
        term_defs = {}
        for s in sites:
            if s[0] == "s":
                stmt_defs.setdefault(s[1], []).append(s[2])
            elif s[0] == "t":
                term_defs.setdefault(s[1], []).append(("t", None))
            else:
                term_defs.setdefault(s[1], []).append(("c", s[2]))
        out = []
        seen = set()
        stack = [(bb, idx)]
        while stack:
            b, i = stack.pop()
            stopped = False
            if b in stmt_defs:
                for j in sorted(stmt_defs[b], reverse=True):
                    if j < i:
                        dest = body.blocks[b]["stmts"][j]["p"]
                        ov = self._overlap(dest, place)
                        if ov == "whole":
                            out.append(("s", b, j))
                            stopped = True
                            break
                        elif ov == "partial":
                            out.append(("partial", b, j))
            if stopped:
                continue
            if b == 0:
                out.append(("param", L))
            for p in self.cfg.pred[b]:
                hit = False
                for kind, tgt in term_defs.get(p, []):
                    if kind == "t":
                        t = body.blocks[p]["term"]
                        dest = t["dest"] if t["k"] == "call" else t["resume_arg"]
                        ov = self._overlap(dest, place)
                        if ov == "whole":
                            if ("t", p) not in out:
                                out.append(("t", p))
                            hit = True
                        elif ov == "partial":
                            out.append(("partial_t", p))
                    else:
                        ov = self._overlap(tgt, place)
                        if ov is not None:
                            if ("clobber", p) not in out:
                                out.append(("clobber", p))
                            hit = True
                if hit:
                    continue
                if p in seen:
                    continue
                seen.add(p)
                stack.append((p, len(body.blocks[p]["stmts"]) + 1))
        res = []
        for d in out:
            if d[0] == "param" and not (1 <= L <= body.arg_count):
                continue
            if d not in res:
                res.append(d)
        return res

    def _place(self, place, bb, idx):
        defs = self.reaching(place, bb, idx)
        if any(d[0] == "clobber" for d in defs):
            cl = [d for d in defs if d[0] == "clobber"]
            if len(defs) == len(cl) == 1:
                return ("clobbered", cl[0][1], place)
            return ("clobbered", tuple(sorted(d[1] for d in cl)), place)
        return Terms._place(self, place, bb, idx)


_ct = {}


def cterms(P, body):
    k = (id(P), body.id)
    t = _ct.get(k)
    if t is None:
        t = ClobberTerms(body, P)
        _ct[k] = t
    return t


class Site:
    __slots__ = ("body", "bb", "kind", "what", "ops", "span", "exp", "term")

    def __init__(self, body, bb, kind, what, ops, span, exp, term=None):
        self.body = body
        self.bb = bb
        self.kind = kind      # overflow | bounds | div | unwrap | index | panic | api
        self.what = what      # e.g. Overflow(Add), unwrap, Index<Range>, assert!, unreachable!
        self.ops = ops        # operand dicts (MIR operands)
        self.span = span
        self.exp = exp
        self.term = term


INDEX_FNS = re.compile(r"(std::ops::Index(Mut)?<I>>::index(_mut)?$)|(core::slice::index::<impl std::ops::Index(Mut)?<I> for \[T\]>::index(_mut)?$)|"
                       r"(core::str::traits::<impl std::ops::Index(Mut)?<I> for str>::index(_mut)?$)|(<std::string::String as std::ops::Index(Mut)?<.*>>::index(_mut)?$)")
API_PANICKY = ("copy_from_slice", "split_at", "split_at_mut", "clone_from_slice", "swap", "remove", "insert", "swap_remove", "drain", "splice",
               "split_off", "chunks", "chunks_exact", "windows", "rotate_left", "rotate_right", "last_mut_unchecked", "from_secs_f64", "abs")


STRING_PANICKY = ("truncate", "split_off", "insert", "insert_str", "remove", "drain", "replace_range")


def sites_of(P, body):
    out = []
    for bb, tm in body.terms():
        k = tm["k"]
        if k == "assert":
            msg = tm["msg"]
            if msg.startswith("Overflow") or msg == "OverflowNeg":
                out.append(Site(body, bb, "overflow", msg, tm["ops"], tm["sp"], tm.get("exp", False), tm))
            elif msg == "BoundsCheck":
                out.append(Site(body, bb, "bounds", msg, tm["ops"], tm["sp"], tm.get("exp", False), tm))
            elif msg in ("DivisionByZero", "RemainderByZero"):
                # the message operand is the dividend; the divisor is the operand compared with zero to produce the condition
                cl = op_place(tm["cond"])
                dv = None
                for st in reversed(body.blocks[bb]["stmts"]):
                    rv = st.get("rv")
                    if cl is not None and tuple(st["p"]) == tuple(cl) and rv and rv["k"] == "bin" and rv["op"] == "Eq":
                        dv = rv["a"] if "k" in rv["b"] else rv["b"]
                        break
                out.append(Site(body, bb, "div", msg, [dv] if dv is not None else [], tm["sp"], tm.get("exp", False), tm))
        elif k == "call":
            n = callee_name(tm) or ""
            d = tm["callee"].get("decl") or ""
            if any(n == p or n.startswith(p + "::") or n.startswith(p + "<") for p in PANIC_FNS) or n.startswith("core::panicking::"):
                out.append(Site(body, bb, "panic", n.rsplit("::", 1)[-1], tm["args"], tm["sp"], tm.get("exp", False), tm))
            elif n in UNWRAP_LIKE:
                out.append(Site(body, bb, "unwrap", n.rsplit("::", 1)[-1], tm["args"], tm["sp"], tm.get("exp", False), tm))
            elif INDEX_FNS.search(n) or INDEX_FNS.search(d):
                out.append(Site(body, bb, "index", "index", tm["args"], tm["sp"], tm.get("exp", False), tm))
            else:
                last = n.rsplit("::", 1)[-1]
                if last in API_PANICKY and (n.startswith("core::slice::") or n.startswith("std::vec::Vec") or n.startswith("std::slice::") or n.startswith("core::str::") or "VecDeque" in n):
                    out.append(Site(body, bb, "api", last, tm["args"], tm["sp"], tm.get("exp", False), tm))
                elif last in ("from_secs_f64", "from_secs_f32", "mul_f64", "mul_f32", "div_f64", "div_f32") and "Duration" in n:
                    # panics when the result is negative, not finite, or does not fit
                    out.append(Site(body, bb, "api", "float-duration:" + last, tm["args"], tm["sp"], tm.get("exp", False), tm))
                elif last in STRING_PANICKY and n.startswith("std::string::String::"):
                    # byte positions inside a String must fall on character boundaries
                    out.append(Site(body, bb, "api", "str-boundary:" + last, tm["args"], tm["sp"], tm.get("exp", False), tm))
                elif " as std::ops::Add" in n or " as std::ops::Sub" in n or " as std::ops::Mul" in n or " as std::ops::AddAssign" in n or " as std::ops::SubAssign" in n:
                    if "Duration" in n or "Instant" in n or "SystemTime" in n:
                        out.append(Site(body, bb, "api", "time-arith:" + n.split(" as std::ops::")[1].split("<")[0].split(">")[0], tm["args"], tm["sp"], tm.get("exp", False), tm))
    return out


# ====================================================================== types of terms

def _strip_ref(ty):
    ty = ty.strip()
    while ty.startswith("&"):
        ty = ty[1:].lstrip()
        if ty.startswith("'"):
            ty = ty.split(" ", 1)[1] if " " in ty else ty
        if ty.startswith("mut "):
            ty = ty[4:]
    return ty.strip()


def _generic_args(ty):
    """top-level generic arguments of a type string"""
    if "<" not in ty:
        return []
    inner = ty[ty.index("<") + 1: ty.rindex(">")]
    out, depth, cur = [], 0, ""
    for ch in inner:
        if ch in "<([":
            depth += 1
        elif ch in ">)]":
            depth -= 1
        if ch == "," and depth == 0:
            out.append(cur.strip())
            cur = ""
        else:
            cur += ch
    if cur.strip():
        out.append(cur.strip())
    return out


class Typer:
    def __init__(self, P, body):
        self.P = P
        self.body = body

    def of(self, t, depth=0):
        """type string of a term, or None"""
        if depth > 25:
            return None
        t = norm(t)
        k = t[0]
        P, body = self.P, self.body
        if k == "param":
            return body.locals[t[1]]["ty"]
        if k == "const":
            v = t[1]
            return None
        if k == "cast":
            return t[2]
        if k == "clobbered":
            pl = t[2]
            return self.place_ty(pl)
        if k == "field":
            bt = self.of(t[1], depth + 1)
            if bt is None:
                return None
            return self.field_ty(bt, t[2])
        if k == "deref":
            bt = self.of(t[1], depth + 1)
            if bt is None:
                return None
            bt = bt.strip()
            if bt.startswith("&"):
                bt = bt[1:].lstrip()
                if bt.startswith("'"):
                    bt = bt.split(" ", 1)[1] if " " in bt else bt
                if bt.startswith("mut "):
                    bt = bt[4:]
                return bt
            if bt.startswith("std::boxed::Box<"):
                return _generic_args(bt)[0]
            return bt
        if k == "payload":
            bt = self.of(t[2], depth + 1)
            if bt is None:
                return None
            bt = _strip_ref(bt)
            ga = _generic_args(bt)
            if bt.startswith("std::option::Option<") and ga:
                return ga[0]
            if bt.startswith("std::result::Result<") and ga:
                return ga[0] if t[1] in ("Ok", "?", "Continue") else (ga[1] if len(ga) > 1 else None)
            if bt.startswith("std::ops::ControlFlow<") and len(ga) > 1:
                return ga[1]
            if bt.startswith("std::task::Poll<") and ga:
                return ga[0]
            return None
        if k == "await":
            bt = self.of(t[1], depth + 1)
            if bt and "Output = " in bt:
                o = bt[bt.index("Output = ") + 9:]
                return o[:-1] if o.endswith(">") else o
            return None
        if k == "call":
            n = t[1]
            if isinstance(n, str):
                sig = P.sigs.get(n)
                if sig is not None:
                    return sig["output"]
                last = n.rsplit("::", 1)[-1]
                if last == "len" or last == "count" or last == "capacity":
                    return "usize"
                if last in ("ok_or", "ok_or_else") and t[2]:
                    inner = self.of(t[2][0], depth + 1)
                    if inner:
                        ga = _generic_args(_strip_ref(inner))
                        if ga:
                            return "std::result::Result<%s, _>" % ga[0]
                if last in ("map_err",) and t[2]:
                    return self.of(t[2][0], depth + 1)
                if last in ("unwrap", "expect", "unwrap_or", "unwrap_or_default", "unwrap_or_else") and t[2]:
                    inner = self.of(t[2][0], depth + 1)
                    if inner:
                        ga = _generic_args(_strip_ref(inner))
                        if ga:
                            return ga[0]
                if last == "from_be_bytes" or last == "from_le_bytes" or last == "from_ne_bytes":
                    m = re.search(r"<impl (\w+)>", n)
                    if m:
                        return m.group(1)
            return None
        if k == "bin":
            if t[1] in ("Lt", "Le", "Gt", "Ge", "Eq", "Ne"):
                return "bool"
            return self.of(t[2], depth + 1)
        if k == "index":
            bt = self.of(t[1], depth + 1)
            if bt:
                bt = _strip_ref(bt)
                m = re.match(r"\[(.+); \d+\]$", bt) or re.match(r"\[(.+)\]$", bt)
                if m:
                    return m.group(1)
                if bt.startswith("std::vec::Vec<"):
                    return _generic_args(bt)[0]
            return None
        if k == "phi":
            tys = {self.of(x, depth + 1) for x in t[1]}
            return tys.pop() if len(tys) == 1 else None
        return None

    def place_ty(self, pl):
        ty = self.body.locals[pl[0]]["ty"]
        for e in pl[1:]:
            if ty is None:
                return None
            if e == "*":
                ty = _strip_ref(ty) if ty.startswith("&") else (_generic_args(ty)[0] if ty.startswith("std::boxed::Box<") else ty)
            elif e.startswith("."):
                ty = self.field_ty(ty, e[1:])
            elif e.startswith("@"):
                pass
            elif e.startswith("["):
                bt = _strip_ref(ty)
                m = re.match(r"\[(.+); \d+\]$", bt) or re.match(r"\[(.+)\]$", bt)
                ty = m.group(1) if m else (_generic_args(bt)[0] if bt.startswith("std::vec::Vec<") else None)
        return ty

    def field_ty(self, bt, name):
        bt = _strip_ref(bt)
        m = re.match(r"\{async fn body of (.+)\(\)\}$", bt)
        if m and name.isdigit():
            # the state of an async fn's coroutine: upvar k is the k-th parameter of the async fn
            sig = self.P.sigs.get(m.group(1))
            i = int(name)
            return sig["inputs"][i] if sig and i < len(sig["inputs"]) else None
        if bt.startswith("(") and name.isdigit():
            parts = _generic_args("X<" + bt[1:-1] + ">")
            i = int(name)
            return parts[i] if i < len(parts) else None
        base = bt.split("<")[0]
        adt = self.P.adts.get(base)
        if adt is None:
            return None
        for v in adt["variants"]:
            for f in v["fields"]:
                if f["name"] == name:
                    return f["ty"]
        return None


# ====================================================================== intervals

def _len_like(t):
    """canonical ('len', x) for the various spellings of a slice/Vec/str length"""
    t = norm(t)
    if t[0] == "call" and isinstance(t[1], str):
        last = t[1].rsplit("::", 1)[-1]
        if last == "len" and len(t[2]) == 1 and ("slice" in t[1] or "Vec" in t[1] or "str" in t[1] or "String" in t[1] or "[T]" in t[1]):
            return ("len", canon(t[2][0]))
    if t[0] == "un" and t[1] == "PtrMetadata":
        return ("len", canon(t[2]))
    return None


def canon(t):
    """canonical form: lengths unified, value-preserving wrappers removed (norm), slices-of-same-content unified"""
    t = norm(t)
    l = _len_like(t)
    if l is not None:
        return l
    k = t[0]
    if k == "call" and isinstance(t[1], str):
        last = t[1].rsplit("::", 1)[-1]
        # views of the same bytes
        if last in ("as_slice", "as_ref", "as_bytes", "deref", "as_mut_slice", "borrow") and len(t[2]) == 1:
            return canon(t[2][0])
        return ("call", t[1], tuple(canon(a) for a in t[2]), t[3])
    if k == "bin":
        return ("bin", t[1], canon(t[2]), canon(t[3]))
    if k == "cast":
        return ("cast", t[1], t[2], canon(t[3]))
    if k == "field":
        return ("field", canon(t[1]), t[2])
    if k == "payload":
        return ("payload", t[1], canon(t[2]))
    if k == "un":
        return ("un", t[1], canon(t[2]))
    if k == "phi":
        return ("phi", tuple(canon(x) for x in t[1])) + tuple(t[2:])
    return t


class Ranger:
    param_range = None   # class-level hook: (body, local) -> (lo, hi) | None, installed by the interprocedural layer

    def __init__(self, P, body, length_of=None):
        self.P = P
        self.body = body
        self.typer = Typer(P, body)
        self.length_of = length_of   # callback term -> affine length or None

    def _min_len_of(self, x):
        """lower bound on the length of a container last touched by calls (a clobbered place, or a field of one): the octets the
        dominating pushes guarantee, from the forward dataflow min_len_out"""
        fld = ()
        y = x
        while y[0] == "field":
            fld = ("." + y[2],) + fld
            y = y[1]
        if y[0] != "clobbered" or not isinstance(y[2], tuple):
            return 0
        bbs = y[1] if isinstance(y[1], tuple) else (y[1],)
        cont = tuple(y[2]) + fld
        try:
            out = min_len_out(self.P, self.body, cont)
        except Exception:
            return 0
        if not out:
            return 0
        return min(out.get(b, 0) for b in bbs) if bbs else 0

    def size_of(self, t):
        """value of std::mem::size_of::<T>() call terms, from the generic argument recorded on the terminator"""
        if t[0] == "call" and t[1] in ("std::mem::size_of", "core::mem::size_of") and isinstance(t[3], int) and t[3] < len(self.body.blocks):
            tm = self.body.blocks[t[3]]["term"]
            if tm and tm["k"] == "call":
                g = (tm["callee"].get("gargs") or [None])[0]
                if g in INT_BITS:
                    return INT_BITS[g] // 8
                m = re.match(r"\[(\w+); (\d+)\]$", g or "")
                if m and m.group(1) in INT_BITS:
                    return INT_BITS[m.group(1)] // 8 * int(m.group(2))
        return None

    def rng(self, t, depth=0):
        """(lo, hi) interval of an integer term (None = unknown bound)"""
        if depth > 30:
            return (None, None)
        t = norm(t)
        k = t[0]
        if k == "call":
            so = self.size_of(t)
            if so is not None:
                return (so, so)
        if k == "param" and self.param_range is not None:
            pr_ = self.param_range(self.body, t[1])
            if pr_ is not None:
                tr0 = type_range(_strip_ref(self.body.locals[t[1]]["ty"]))
                return _meet(pr_, tr0)
        if k == "const":
            v = t[1]
            if isinstance(v, bool):
                return (int(v), int(v))
            if isinstance(v, int):
                return (v, v)
            return (None, None)
        if k == "len":
            x = t[1]
            ml = self._min_len_of(x)
            if ml:
                return (ml, ISIZE_MAX)
            if x[0] == "clobbered" and isinstance(x[1], int) and x[1] < len(self.body.blocks):
                # the last thing that happened to the container was a push: it is not empty
                tm = self.body.blocks[x[1]]["term"]
                if tm and tm["k"] == "call" and (callee_name(tm) or "").rsplit("::", 1)[-1] in ("push", "push_back", "push_front") and \
                        ("Vec" in (callee_name(tm) or "") or "VecDeque" in (callee_name(tm) or "") or "LinkedList" in (callee_name(tm) or "")):
                    return (1, ISIZE_MAX)
            if self.length_of is not None:
                ls = self.length_of(t[1])
                if ls is not None and not ls[0]:
                    return (ls[1], ls[1])
            return (0, ISIZE_MAX)
        l = _len_like(t)
        if l is not None:
            return self.rng(l, depth + 1)
        if k == "phi":
            rs = [self.rng(x, depth + 2) for x in t[1]]
            if rs and all(r[0] is not None for r in rs):
                lo = min(r[0] for r in rs)
            else:
                lo = None
            hi = max(r[1] for r in rs) if rs and all(r[1] is not None for r in rs) else None
            return (lo, hi)
        if k == "cast" and t[1] == "IntToInt":
            inner = self.rng(t[3], depth + 1)
            tr = type_range(t[2])
            if tr is None:
                return inner
            if inner[0] is not None and inner[1] is not None and inner[0] >= tr[0] and inner[1] <= tr[1]:
                return inner
            return tr
        if k == "field":
            for adt, fld, lo, hi in FIELD_RANGES:
                if t[2] == fld:
                    bt = self.typer.of(t[1])
                    if bt and _strip_ref(bt).split("<")[0] == adt:
                        return (lo, hi)
        if k == "field" and t[2] == "0" and norm(t[1])[0] == "bin" and norm(t[1])[1].endswith("WithOverflow"):
            r = self.rng(t[1], depth + 1)
            # a checked operation's result also lies in its type (the assert guarantees no wrap on the path that continues)
            ty = self.typer.of(norm(t[1])[2])
            tr = type_range(ty) if ty else None
            return _meet(r, tr)
        if k == "bin":
            op = t[1].replace("WithOverflow", "").replace("Unchecked", "")
            a = self.rng(t[2], depth + 1)
            b = self.rng(t[3], depth + 1)
            r = _arith(op, a, b)
            if op == "Shl" and b[0] is not None and b[0] == b[1] and 0 <= b[0] < 64:
                # the low k bits of x << k are zero: the value is at most MAX - (2^k - 1)
                ty = self.typer.of(t[2])
                tr = type_range(_strip_ref(ty)) if ty else None
                if tr is not None:
                    r = _meet(r, (tr[0], tr[1] - ((1 << b[0]) - 1)))
            if op in ("BitAnd",):
                # x & m <= m for non-negative m
                for x in (a, b):
                    if x[0] is not None and x[1] is not None and x[0] >= 0:
                        r = _meet(r, (0, x[1]))
            return r
        ty = self.typer.of(t)
        tr = type_range(_strip_ref(ty)) if ty else None
        if k == "call" and isinstance(t[1], str) and t[1] in self.P.bodies and depth < 12:
            inl = inline_pure(self.P, t)
            if inl is not None:
                return _meet(self.rng(inl, depth + 4), tr)
        if k == "call" and isinstance(t[1], str):
            last = t[1].rsplit("::", 1)[-1]
            if last in ("min",) and len(t[2]) == 2:
                a, b = self.rng(t[2][0], depth + 1), self.rng(t[2][1], depth + 1)
                hi = min([x for x in (a[1], b[1]) if x is not None], default=None)
                lo = min(a[0], b[0]) if a[0] is not None and b[0] is not None else None
                return _meet((lo, hi), tr)
            if last in ("max",) and len(t[2]) == 2:
                a, b = self.rng(t[2][0], depth + 1), self.rng(t[2][1], depth + 1)
                lo = max([x for x in (a[0], b[0]) if x is not None], default=None)
                hi = max(a[1], b[1]) if a[1] is not None and b[1] is not None else None
                return _meet((lo, hi), tr)
            if last in ("saturating_sub", "saturating_add", "saturating_mul", "wrapping_add", "wrapping_sub", "div_ceil", "count_ones", "leading_zeros", "trailing_zeros"):
                if last in ("count_ones", "leading_zeros", "trailing_zeros"):
                    return (0, 128)
                if last == "div_ceil" and len(t[2]) == 2:
                    a, b = self.rng(t[2][0], depth + 1), self.rng(t[2][1], depth + 1)
                    if a[1] is not None and b[0] is not None and b[0] > 0:
                        return (0, -(-a[1] // b[0]))
                return tr or (None, None)
        return tr or (None, None)


def _meet(a, b):
    if b is None:
        return a
    lo = a[0] if b[0] is None else (b[0] if a[0] is None else max(a[0], b[0]))
    hi = a[1] if b[1] is None else (b[1] if a[1] is None else min(a[1], b[1]))
    return (lo, hi)


def _arith(op, a, b):
    def allk(*xs):
        return all(x is not None for x in xs)
    if op == "Add":
        return (a[0] + b[0] if allk(a[0], b[0]) else None, a[1] + b[1] if allk(a[1], b[1]) else None)
    if op == "Sub":
        return (a[0] - b[1] if allk(a[0], b[1]) else None, a[1] - b[0] if allk(a[1], b[0]) else None)
    if op == "Mul":
        if allk(a[0], a[1], b[0], b[1]):
            c = [a[0] * b[0], a[0] * b[1], a[1] * b[0], a[1] * b[1]]
            return (min(c), max(c))
        if allk(a[0], b[0]) and a[0] >= 0 and b[0] >= 0:
            return (a[0] * b[0], None)
        return (None, None)
    if op == "Div":
        if allk(a[0], a[1], b[0], b[1]) and b[0] > 0 and a[0] >= 0:
            return (a[0] // b[1], a[1] // b[0])
        if allk(a[0], b[0]) and a[0] >= 0 and b[0] > 0:
            return (0, a[1] // b[0] if a[1] is not None else None)
        return (None, None)
    if op == "Rem":
        if allk(b[0], b[1]) and b[0] > 0 and (a[0] is None or a[0] >= 0):
            return (0, b[1] - 1)
        return (None, None)
    if op == "Shr":
        if allk(a[0], a[1], b[0], b[1]) and a[0] >= 0 and b[0] >= 0:
            return (a[0] >> b[1], a[1] >> b[0])
        if allk(a[0]) and a[0] >= 0:
            return (0, a[1])
        return (None, None)
    if op == "Shl":
        if allk(a[0], a[1], b[0], b[1]) and a[0] >= 0 and 0 <= b[0] <= b[1] < 200:
            return (a[0] << b[0], a[1] << b[1])
        return (None, None)
    if op == "BitAnd":
        his = [x[1] for x in (a, b) if x[0] is not None and x[0] >= 0 and x[1] is not None]
        if his:
            return (0, min(his))
        return (None, None)
    if op in ("BitOr", "BitXor"):
        if allk(a[0], a[1], b[0], b[1]) and a[0] >= 0 and b[0] >= 0:
            m = max(a[1], b[1])
            return (0, (1 << m.bit_length()) - 1)
        return (None, None)
    return (None, None)


# ====================================================================== linear facts and proofs

ARITH = ("Add", "Sub", "Mul", "AddWithOverflow", "SubWithOverflow", "MulWithOverflow", "AddUnchecked", "SubUnchecked", "MulUnchecked")


class Prover:
    def __init__(self, P, body):
        self.P = P
        self.body = body
        self.T = cterms(P, body)
        self.cfg = cfg_of(body)
        self.ranger = Ranger(P, body)
        self.ranger.length_of = self.len_summary
        self._facts = {}

    # ---- linear forms over canonical atoms
    def lin(self, t, depth=0):
        t = canon(t)
        if depth > 40:
            return ({t: 1}, 0)
        k = t[0]
        if k == "const" and isinstance(t[1], int) and not isinstance(t[1], bool):
            return ({}, t[1])
        if k == "const" and isinstance(t[1], bool):
            return ({}, int(t[1]))
        if k == "field" and t[2] == "0" and t[1][0] == "bin" and t[1][1].endswith("WithOverflow"):
            return self.lin(t[1], depth + 1)
        if k == "cast" and t[1] == "IntToInt":
            inner = self.ranger.rng(t[3])
            tr = type_range(t[2])
            if tr and inner[0] is not None and inner[1] is not None and inner[0] >= tr[0] and inner[1] <= tr[1]:
                return self.lin(t[3], depth + 1)
            return ({t: 1}, 0)
        if k == "bin" and t[1] in ARITH:
            op = t[1].replace("WithOverflow", "").replace("Unchecked", "")
            a = self.lin(t[2], depth + 1)
            b = self.lin(t[3], depth + 1)
            if op in ("Add", "Sub"):
                s = 1 if op == "Add" else -1
                d = dict(a[0])
                for x, c in b[0].items():
                    d[x] = d.get(x, 0) + s * c
                return ({x: c for x, c in d.items() if c}, a[1] + s * b[1])
            if op == "Mul":
                if not a[0]:
                    return ({x: c * a[1] for x, c in b[0].items() if c * a[1]}, a[1] * b[1])
                if not b[0]:
                    return ({x: c * b[1] for x, c in a[0].items() if c * b[1]}, a[1] * b[1])
            return ({t: 1}, 0)
        if k == "len":
            s = self.len_summary(t[1])
            if s is not None:
                return s
            return ({t: 1}, 0)
        if k == "payload" and t[1] in ("Some", "?"):
            # the value inside Some(..) of a.checked_sub(b) / a.checked_add(b) is exactly a - b / a + b
            c = canon(t[2])
            if c[0] == "call" and isinstance(c[1], str) and re.search(r"^core::num::.*::checked_(sub|add)$", c[1]) and len(c[2]) == 2:
                a = self.lin(c[2][0], depth + 1)
                b = self.lin(c[2][1], depth + 1)
                sgn = 1 if c[1].endswith("add") else -1
                d = dict(a[0])
                for x, co in b[0].items():
                    d[x] = d.get(x, 0) + sgn * co
                return ({x: co for x, co in d.items() if co}, a[1] + sgn * b[1])
        if k == "call":
            so = self.ranger.size_of(t)
            if so is not None:
                return ({}, so)
            inl = inline_pure(self.P, t)
            if inl is not None and depth < 6:
                return self.lin(inl, depth + 3)
            if isinstance(t[1], str) and is_pure_fn(self.P, t[1]):
                # two calls of a pure observer with the same arguments denote the same value wherever they are made
                return ({("call", t[1], t[2], 0): 1}, 0)
        return ({t: 1}, 0)

    def len_summary(self, x):
        """length of a slice/Vec-valued term when a producer fixes it: -> linear form or None"""
        x = canon(x)
        # payload of a call to a local function with a length summary
        y = x
        hops = 0
        while y[0] in ("payload",) and hops < 6:
            y = canon(y[2])
            hops += 1
        while y[0] == "call" and isinstance(y[1], str) and y[1].rsplit("::", 1)[-1] in ("ok_or", "ok_or_else", "map_err", "to_vec", "to_owned", "into_boxed_slice", "into_vec") and y[2]:
            y = canon(y[2][0])
            while y[0] == "payload":
                y = canon(y[2])
        if y[0] == "call" and isinstance(y[1], str):
            last = y[1].rsplit("::", 1)[-1]
            if y[1] in self.P.bodies:
                k = length_param(self.P, y[1])
                if k is not None and k - 1 < len(y[2]):
                    return self.lin(y[2][k - 1])
            # slicing by a range: length = end - start
            if INDEX_FNS.search(y[1]) and len(y[2]) == 2:
                r = canon(y[2][1])
                se = _range_bounds(r)
                if se is not None:
                    s, e, kind = se
                    if kind == "range" and s is not None and e is not None:
                        a, b = self.lin(e), self.lin(s)
                        d = dict(a[0])
                        for z, c in b[0].items():
                            d[z] = d.get(z, 0) - c
                        return ({z: c for z, c in d.items() if c}, a[1] - b[1])
                    if kind == "inclusive" and s is not None and e is not None:
                        a, b = self.lin(e), self.lin(s)
                        d = dict(a[0])
                        for z, c in b[0].items():
                            d[z] = d.get(z, 0) - c
                        return ({z: c for z, c in d.items() if c}, a[1] - b[1] + 1)
                    if kind == "from" and s is not None:
                        base = self.lin(("len", canon(y[2][0])))
                        b = self.lin(s)
                        d = dict(base[0])
                        for z, c in b[0].items():
                            d[z] = d.get(z, 0) - c
                        return ({z: c for z, c in d.items() if c}, base[1] - b[1])
                    if kind == "to" and e is not None:
                        return self.lin(e)
            if last == "concat" and len(y[2]) == 1:
                arr = canon(y[2][0])
                if arr[0] == "agg" and arr[1] == "array":
                    tot = ({}, 0)
                    for _, e in arr[3]:
                        le = self.lin(("len", canon(e)))
                        tot = _add(tot, le)
                    return tot
            if last in ("to_be_bytes", "to_le_bytes", "to_ne_bytes", "octets"):
                m = re.search(r"<impl (u8|u16|u32|u64|u128|i8|i16|i32|i64)>", y[1])
                if m:
                    return ({}, INT_BITS[m.group(1)] // 8)
                if "Ipv4Addr" in y[1]:
                    return ({}, 4)
                if "Ipv6Addr" in y[1]:
                    return ({}, 16)
        if y == ("param", 2) and self.body.kind == "closure" and self.body.parent in self.P.bodies:
            # the item of `chunks_exact(k)` handed to an adaptor's closure has exactly k elements
            par = self.P.bodies[self.body.parent]
            PT = cterms(self.P, par)
            for pbb, ptm in par.calls():
                nme = callee_name(ptm) or ""
                if nme.rsplit("::", 1)[-1] in ("map", "for_each", "filter_map", "flat_map", "all", "any") and "Iterator" in nme + (ptm["callee"].get("decl") or "") and len(ptm["args"]) == 2:
                    pa = [canon(PT.operand(o, pbb, len(par.blocks[pbb]["stmts"]))) for o in ptm["args"]]
                    if pa[1][0] == "agg" and pa[1][1] == "closure:" + self.body.id:
                        src = pa[0]
                        if src[0] == "call" and isinstance(src[1], str) and src[1].rsplit("::", 1)[-1] == "chunks_exact" and len(src[2]) == 2:
                            k = canon(src[2][1])
                            if k[0] == "const" and isinstance(k[1], int) and k[1] > 0:
                                return ({}, k[1])
        if y[0] == "agg" and y[1] == "array":
            return ({}, len(y[3]))
        if y[0] == "repeat" and isinstance(y[2], int):
            return ({}, y[2])
        ty = self.ranger.typer.of(x)
        if ty:
            m = re.match(r"\[.+; (\d+)\]$", _strip_ref(ty))
            if m:
                return ({}, int(m.group(1)))
        return None

    # ---- facts on dominating edges
    def facts_at(self, bb):
        if bb in self._facts:
            return self._facts[bb]
        body, T, cfg = self.body, self.T, self.cfg
        facts = []     # linear forms: expr <= 0
        some = set()   # canonical terms known to be Some / Ok
        for sbb in cfg.dominators(bb):
            tm = body.blocks[sbb]["term"]
            if tm is None or tm["k"] != "switch" or sbb == bb:
                continue
            # which edges lead to bb?
            edges = cfg.switch_edges(sbb)
            taken = [(v, tgt) for v, tgt in edges if cfg.edge_dominates((sbb, tgt), bb)]
            if not taken:
                continue
            # all dominating edges must agree on the truth value to be usable
            d = canon(T.at_term(tm["discr"], sbb))
            neg = False
            while d[0] == "un" and d[1] == "Not":
                neg = not neg
                d = canon(d[2])
            vals = {v for v, _ in taken}
            explicit = {v for v, _ in edges if v is not None}
            if d[0] == "discr":
                inner = canon(d[1])
                v = None
                if len(vals) == 1 and None not in vals:
                    v = list(vals)[0]
                elif vals == {None}:
                    # otherwise edge: discriminant not in explicit set
                    if explicit == {1}:
                        v = 0
                    elif explicit == {0}:
                        v = 1
                if v is not None:
                    some.add((inner, v))
                    self._callee_success_facts(inner, v, facts)
                    y0, ok0 = inner, (v == 1)
                    if y0[0] == "call" and isinstance(y0[1], str) and y0[1].endswith("::branch") and y0[2]:
                        y0, ok0 = canon(y0[2][0]), (v == 0)
                    if ok0:
                        facts.extend(self._std_success_facts(y0))
                continue
            is_bool = len(edges) == 2 and explicit == {0}
            if is_bool:
                truth = None
                if vals == {0}:
                    truth = False
                elif vals == {None}:
                    truth = True
                if truth is None:
                    continue
                if neg:
                    truth = not truth
                self._cond_facts(d, truth, facts, some)
            else:
                # integer match: an explicit edge pins the value
                if len(vals) == 1 and None not in vals:
                    v = list(vals)[0]
                    l = self.lin(d)
                    facts.append((dict(l[0]), l[1] - v))
                    facts.append(({x: -c for x, c in l[0].items()}, v - l[1]))
        self._facts[bb] = (facts, some)
        return self._facts[bb]

    def _std_success_facts(self, y):
        """`y` is an Option known to be Some: what std guarantees about it.  slice.get(i) / get(a..b) succeeded => the index is in
        bounds (through copied()/cloned()/map(..) wrappers, which keep Some-ness)"""
        out = []
        hops = 0
        while y[0] == "call" and isinstance(y[1], str) and y[1].rsplit("::", 1)[-1] in ("copied", "cloned", "map", "as_ref", "as_deref", "ok_or", "ok_or_else") and y[2] and hops < 4:
            y = canon(y[2][0])
            hops += 1
        if y[0] == "call" and isinstance(y[1], str) and y[1].rsplit("::", 1)[-1] in ("get", "get_mut") and len(y[2]) == 2 and \
                ("[T]" in y[1] or "Vec" in y[1] or "slice" in y[1]):
            ln = self.lin(("len", canon(y[2][0])))
            ix = canon(y[2][1])
            se = _range_bounds(ix)
            if se is None:
                out.append(_sub(self.lin(ix), ln, 1))            # i + 1 <= len
            else:
                st, en, kind = se
                if kind in ("range", "to") and en is not None:
                    out.append(_sub(self.lin(en), ln))
                if kind == "range" and st is not None and en is not None:
                    out.append(_sub(self.lin(st), self.lin(en)))
                if kind == "from" and st is not None:
                    out.append(_sub(self.lin(st), ln))
                if kind in ("inclusive", "toinclusive") and en is not None:
                    out.append(_sub(self.lin(en), ln, 1))
        return out

    def _callee_success_facts(self, inner, v, facts):
        """`inner` (the scrutinee of a variant test) is the result of a call to a pure workspace function and this edge is the one
        where it succeeded (Some / Ok, directly or through `?`): the comparison facts that dominate every place where the callee
        builds its success value hold here for the arguments it was called with"""
        from .util import subst_params
        y, ok = inner, None
        if y[0] == "call" and isinstance(y[1], str) and y[1].endswith("::branch") and y[2]:
            y, ok = canon(y[2][0]), (v == 0)
        if y[0] != "call" or not isinstance(y[1], str) or y[1] not in self.P.bodies or not is_pure_fn(self.P, y[1]):
            return
        fb = self.P.bodies[y[1]]
        out_ty = _strip_ref(fb.locals[0]["ty"])
        if ok is None:
            ok = (v == 1) if out_ty.startswith("std::option::Option<") else (v == 0) if out_ty.startswith("std::result::Result<") else None
        if not ok:
            return
        key = ("succ", id(self.P), y[1])
        summ = _succ_memo.get(key)
        if summ is None:
            summ = []
            fp = Prover(self.P, fb)
            sites = [bb for bb, idx, st in fb.stmts() if st["p"] == (0,) and st.get("rv") and st["rv"]["k"] == "agg" and st["rv"].get("variant") in ("Some", "Ok")]
            if sites and len(y[2]) == fb.arg_count:
                common = None
                for sb in sites:
                    fs = {(frozenset(f[0].items()), f[1]) for f in fp.facts_at(sb)[0]}
                    common = fs if common is None else common & fs
                summ = [(dict(a), c) for a, c in (common or ())]
            elif not sites and len(y[2]) == fb.arg_count:
                # the function returns what a std call returned (`self.buffer.get(self.offset).copied()`): its success is that call's
                rets = [(bb2, tm2) for bb2, tm2 in fb.calls() if tuple(tm2["dest"]) == (0,)]
                direct = [st2 for _, _, st2 in fb.stmts() if st2["p"] == (0,)]
                if len(rets) == 1 and not direct:
                    t0 = canon(fp.T.call_term(rets[0][1], rets[0][0]))
                    summ = [(dict(a), c) for a, c in fp._std_success_facts(t0)]
            _succ_memo[key] = summ
        mapping = {i + 1: a for i, a in enumerate(y[2])}
        for atoms, c in summ:
            nf = {}
            for atom, coef in atoms.items():
                na = canon(subst_params(atom, mapping))
                l = self.lin(na)
                for z, cz in l[0].items():
                    nf[z] = nf.get(z, 0) + coef * cz
                c = c + coef * l[1]
            facts.append(({z: cz for z, cz in nf.items() if cz}, c))

    def _cond_facts(self, d, truth, facts, some):
        k = d[0]
        if k == "bin" and d[1] in ("Lt", "Le", "Gt", "Ge", "Eq", "Ne"):
            self._cmp_fact(d[1], d[2], d[3], truth, facts)
        elif k == "call" and isinstance(d[1], str):
            last = d[1].rsplit("::", 1)[-1]
            if last in ("lt", "le", "gt", "ge", "eq", "ne") and len(d[2]) == 2 and ("PartialOrd" in d[1] or "PartialEq" in d[1] or "cmp" in d[1]):
                self._cmp_fact(last.capitalize(), d[2][0], d[2][1], truth, facts)
            elif last == "is_empty" and len(d[2]) == 1:
                ln = self.lin(("len", canon(d[2][0])))
                if truth:
                    facts.append((dict(ln[0]), ln[1]))
                else:
                    facts.append(({x: -c for x, c in ln[0].items()}, 1 - ln[1]))
            elif last in ("is_some", "is_ok") and len(d[2]) == 1:
                some.add((canon(d[2][0]), 1 if (last == "is_some") == truth else 0) if last == "is_some" else (canon(d[2][0]), 0 if truth else 1))
            elif last in ("is_none", "is_err") and len(d[2]) == 1:
                if last == "is_none":
                    some.add((canon(d[2][0]), 0 if truth else 1))
                else:
                    some.add((canon(d[2][0]), 1 if truth else 0))

    def _cmp_fact(self, op, a, b, truth, facts):
        ty = self.ranger.typer.of(a) or self.ranger.typer.of(b)
        la, lb = self.lin(a), self.lin(b)

        def sub(x, y, k):
            d = dict(x[0])
            for z, c in y[0].items():
                d[z] = d.get(z, 0) - c
            return ({z: c for z, c in d.items() if c}, x[1] - y[1] + k)
        if not truth:
            op = {"Lt": "Ge", "Le": "Gt", "Gt": "Le", "Ge": "Lt", "Eq": "Ne", "Ne": "Eq"}[op]
        if op == "Lt":
            facts.append(sub(la, lb, 1))
        elif op == "Le":
            facts.append(sub(la, lb, 0))
        elif op == "Gt":
            facts.append(sub(lb, la, 1))
        elif op == "Ge":
            facts.append(sub(lb, la, 0))
        elif op == "Eq":
            facts.append(sub(la, lb, 0))
            facts.append(sub(lb, la, 0))
        elif op == "Ne":
            # x != c where c is the lower (upper) end of x's range: x >= c + 1 (x <= c - 1)
            for x, lx, c, lc in ((a, la, b, lb), (b, lb, a, la)):
                if not lc[0]:
                    r = self.ranger.rng(x)
                    if r[0] is not None and r[0] == lc[1]:
                        facts.append(sub(({}, lc[1] + 1), lx, 0))
                    if r[1] is not None and r[1] == lc[1]:
                        facts.append(sub(lx, ({}, lc[1] - 1), 0))

    use_invariants = True

    def axioms(self, goal):
        """facts from verified field invariants, for the values mentioned in the goal"""
        out = []
        if not self.use_invariants:
            return out
        for atom in list(goal[0]):
            # values drawn from `for i in s..e`: s <= i < e
            a0 = atom
            while a0[0] == "cast":
                a0 = a0[3]
            if a0[0] == "payload" and a0[1] == "Some" and a0[2][0] == "call" and "Iterator for std::ops::Range<" in str(a0[2][1]) and str(a0[2][1]).endswith("::next"):
                for y in subterms(a0[2]):
                    if y[0] == "agg" and y[1] == "std::ops::Range":
                        f = dict(y[3])
                        ls, le = self.lin(f["start"]), self.lin(f["end"])
                        me = ({atom: 1}, 0)
                        out.append(_sub(ls, me))          # s - i <= 0
                        out.append(_sub(me, le, 1))       # i - e + 1 <= 0
                        break
            if atom[0] == "call" and isinstance(atom[1], str) and atom[1].rsplit("::", 1)[-1] in ("min", "max") and len(atom[2]) == 2 and \
                    ("cmp" in atom[1] or "Ord" in atom[1]):
                # min(a, b) <= a, min(a, b) <= b;  max(a, b) >= a, max(a, b) >= b
                me = ({atom: 1}, 0)
                for x in atom[2]:
                    lx = self.lin(x)
                    out.append(_sub(me, lx) if atom[1].endswith("min") else _sub(lx, me))
            for a in subterms(atom) if atom[0] != "len" else [atom] + list(subterms(atom[1])):
                for adt, small, big in FIELD_INVARIANTS:
                    if a[0] == "field" and a[2] == small:
                        ty = self.ranger.typer.of(a[1])
                        if ty and _strip_ref(ty).split("<")[0] == adt:
                            out.append(({a: 1, ("len", ("field", a[1], big)): -1}, 0))
                    if a[0] == "len" and a[1][0] == "field" and a[1][2] == big:
                        ty = self.ranger.typer.of(a[1][1])
                        if ty and _strip_ref(ty).split("<")[0] == adt:
                            out.append(({("field", a[1][1], small): 1, a: -1}, 0))
        return out

    # ---- proving
    def maxval(self, l):
        tot = l[1]
        for atom, c in l[0].items():
            r = self.ranger.rng(atom)
            if c > 0:
                if r[1] is None:
                    return None
                tot += c * r[1]
            else:
                if r[0] is None:
                    return None
                tot += c * r[0]
        return tot

    def prove(self, goal, bb):
        """goal: linear form g; prove g <= 0 at block bb"""
        m = self.maxval(goal)
        if m is not None and m <= 0:
            return "range"
        facts, _ = self.facts_at(bb)
        facts = list(facts) + self.axioms(goal)

        def minus(g, f):
            d = dict(g[0])
            for z, c in f[0].items():
                d[z] = d.get(z, 0) - c
            return ({z: c for z, c in d.items() if c}, g[1] - f[1])
        def scaled(f, k):
            return ({z: c * k for z, c in f[0].items()}, f[1] * k)

        def multipliers(g, f):
            ks = {1}
            for z, c in f[0].items():
                gc = g[0].get(z)
                if gc and c and (gc > 0) == (c > 0) and abs(gc) > abs(c) and abs(gc) % abs(c) == 0:
                    ks.add(abs(gc) // abs(c))
            return sorted(ks)
        for f in facts:
            for k in multipliers(goal, f):
                h = minus(goal, scaled(f, k))
                m = self.maxval(h)
                if m is not None and m <= 0:
                    return "guard"
        for i, f1 in enumerate(facts):
            h1 = minus(goal, f1)
            for f2 in facts[i + 1:]:
                h = minus(h1, f2)
                m = self.maxval(h)
                if m is not None and m <= 0:
                    return "guards"
        return None


def _range_bounds(r):
    """(start, end, kind) of a range-valued canonical term"""
    if r[0] == "agg" and r[1].startswith("std::ops::Range"):
        f = dict(r[3])
        name = r[1].rsplit("::", 1)[-1]
        if name == "Range":
            return (f.get("start"), f.get("end"), "range")
        if name == "RangeFrom":
            return (f.get("start"), None, "from")
        if name == "RangeTo":
            return (None, f.get("end"), "to")
        if name == "RangeToInclusive":
            return (None, f.get("end"), "toinclusive")
        if name == "RangeFull":
            return (None, None, "full")
    if r[0] == "call" and isinstance(r[1], str) and "RangeInclusive" in r[1] and r[1].endswith("::new") and len(r[2]) == 2:
        return (r[2][0], r[2][1], "inclusive")
    if r[0] == "const" and isinstance(r[1], tuple) and r[1][0] == "zst" and "RangeFull" in r[1][1]:
        return (None, None, "full")
    return None


_lenparam = {}


def length_param(P, fid):
    """k such that the slice/Vec returned (inside Some/Ok) by local fn `fid` has length == its k-th parameter (1-based local), else None"""
    if fid in _lenparam:
        return _lenparam[fid]
    _lenparam[fid] = None
    b = P.bodies.get(fid)
    if b is None or b.kind not in ("fn", "assoc_fn"):
        return None
    T = cterms(P, b)
    pr = Prover(P, b)
    res = set()
    rets = []
    for bb, idx, s in b.stmts():
        if s["p"] == (0,) and "rv" in s:
            rets.append(canon(T.rvalue(s["rv"], bb, idx)))
    for bb, tm in b.calls():
        if tm["dest"] == (0,):
            rets.append(canon(T.call_term(tm, bb)))
    for r in rets:
        alts = list(r[1]) if r[0] == "phi" else [r]
        for a in alts:
            a = canon(a)
            if a[0] == "agg" and a[2] in ("None", "Err"):
                continue
            if a[0] == "call" and isinstance(a[1], str) and "from_residual" in a[1]:
                continue
            v = a
            if a[0] == "agg" and a[2] in ("Some", "Ok"):
                v = canon(a[3][0][1])
            # passthrough through Option::map(.., to_vec-like)
            while v[0] == "call" and isinstance(v[1], str) and v[1].rsplit("::", 1)[-1] in ("map", "to_vec", "to_owned", "ok_or", "map_err", "ok") and v[2]:
                v = canon(v[2][0])
            l = pr.len_summary(v)
            if l is None and v[0] == "call" and v[1] in P.bodies:
                k2 = length_param(P, v[1])
                if k2 is not None and k2 - 1 < len(v[2]):
                    l = pr.lin(v[2][k2 - 1])
            if l is None:
                res.add(None)
            elif l[1] == 0 and len(l[0]) == 1 and list(l[0].values()) == [1] and list(l[0])[0][0] == "param":
                res.add(list(l[0])[0][1])
            else:
                res.add(None)
    if len(res) == 1 and None not in res:
        _lenparam[fid] = res.pop()
    return _lenparam[fid]


# ====================================================================== discharge

def _neg(l):
    return ({x: -c for x, c in l[0].items()}, -l[1])


def _add(a, b, k=0):
    d = dict(a[0])
    for z, c in b[0].items():
        d[z] = d.get(z, 0) + c
    return ({z: c for z, c in d.items() if c}, a[1] + b[1] + k)


def _sub(a, b, k=0):
    return _add(a, _neg(b), k)


class Discharger:
    def __init__(self, P):
        self.P = P
        self._pr = {}

    def prover(self, body):
        p = self._pr.get(body.id)
        if p is None:
            p = Prover(self.P, body)
            self._pr[body.id] = p
        return p

    def discharge(self, s):
        """-> (rule, detail) when the site cannot fail, else None"""
        pr = self.prover(s.body)
        T = pr.T
        body = s.body
        n = len(body.blocks[s.bb]["stmts"])
        ops = [canon(T.operand(o, s.bb, n)) for o in s.ops]
        if s.kind == "overflow":
            return self._overflow(pr, s, ops)
        if s.kind == "bounds":
            ln, ix = ops
            goal = _sub(pr.lin(ix), pr.lin(ln if ln[0] != "un" else ("len", canon(ln[2]))), 1)
            r = pr.prove(goal, s.bb)
            return ("D-" + r, "index < len") if r else None
        if s.kind == "div":
            if not ops:
                return None
            d = ops[0]
            r = pr.ranger.rng(d)
            if r[0] is not None and r[0] > 0:
                return ("D-range", "divisor >= %d" % r[0])
            g = _add(_neg(pr.lin(d)), ({}, 0), 1)
            p = pr.prove(g, s.bb)
            return ("D-" + p, "divisor > 0") if p else None
        if s.kind == "index":
            return self._index(pr, s, ops)
        if s.kind == "unwrap":
            return self._unwrap(pr, s, ops)
        if s.kind == "api":
            return self._api(pr, s, ops)
        if s.kind == "panic":
            return self._panic(pr, s, ops)
        return None

    def _overflow(self, pr, s, ops):
        msg = s.what
        body = s.body
        if msg == "OverflowNeg":
            return None
        op = msg[len("Overflow("):-1]
        a, b = ops
        ty = pr.ranger.typer.of(a) or pr.ranger.typer.of(b)
        # the checked statement carries the operand type
        for st in reversed(body.blocks[s.bb]["stmts"]):
            rv = st.get("rv")
            if rv and rv["k"] == "bin" and rv.get("ty"):
                ty = rv["ty"]
                break
        if op in ("Shl", "Shr"):
            bits = INT_BITS.get(_strip_ref(ty or ""), None)
            # the condition of a shift check is `shift < BITS` with BITS the width of the shifted value: read it from there
            cl = op_place(s.term["cond"])
            for st in reversed(body.blocks[s.bb]["stmts"]):
                rv = st.get("rv")
                if cl is not None and tuple(st["p"]) == tuple(cl) and rv and rv["k"] == "bin" and rv["op"] == "Lt" and "k" in rv["b"]:
                    kb = const_int(rv["b"]["k"]) if "int" in rv["b"]["k"] else None
                    if kb is not None:
                        bits = kb
                    break
            # the shifted value's type: first operand
            r = pr.ranger.rng(b)
            if bits and r[1] is not None and r[1] < bits and (r[0] is None or r[0] >= 0):
                return ("D-const" if r[0] == r[1] else "D-range", "shift < %d" % bits)
            if bits is None and r[1] is not None and r[1] < 8:
                return ("D-const", "shift < 8")
            return None
        tr = type_range(_strip_ref(ty)) if ty else None
        if tr is None:
            return None
        la, lb = pr.lin(a), pr.lin(b)
        if op == "Add":
            g = _add(_add(la, lb), ({}, -tr[1]))
            r = pr.prove(g, s.bb)
            if r and tr[0] < 0:
                g2 = _add(_neg(_add(la, lb)), ({}, tr[0]))
                r = pr.prove(g2, s.bb) and r
            return ("D-" + r, "a + b <= %s::MAX" % ty) if r else None
        if op == "Sub":
            g = _sub(lb, la) if tr[0] == 0 else _add(_sub(lb, la), ({}, tr[0]))
            r = pr.prove(g, s.bb)
            if r and tr[0] < 0:
                g2 = _add(_sub(la, lb), ({}, -tr[1]))
                r = pr.prove(g2, s.bb) and r
            return ("D-" + r, "b <= a") if r else None
        if op == "Mul":
            ra, rb = pr.ranger.rng(a), pr.ranger.rng(b)
            pr_ = _arith("Mul", ra, rb)
            if pr_[1] is not None and pr_[1] <= tr[1] and (pr_[0] is not None and pr_[0] >= tr[0]):
                return ("D-range", "product <= %d" % pr_[1])
            return None
        return None

    def _index(self, pr, s, ops):
        n = callee_name(s.term) or ""
        if "HashMap" in n or "BTreeMap" in n:
            return None
        if len(ops) != 2:
            return None
        base, ix = ops
        ln = pr.lin(("len", canon(base)))
        se = _range_bounds(ix)
        goals = []
        if se is None:
            # index by an integer
            ty = pr.ranger.typer.of(ix)
            if ty and _strip_ref(ty) in INT_BITS or ix[0] in ("const", "cast", "bin", "field", "param"):
                goals.append(_sub(pr.lin(ix), ln, 1))
            else:
                return None
        else:
            st, en, kind = se
            if kind == "full":
                return ("D-const", "full range")
            if kind == "range":
                goals.append(_sub(pr.lin(st), pr.lin(en)))
                goals.append(_sub(pr.lin(en), ln))
            elif kind == "from":
                goals.append(_sub(pr.lin(st), ln))
            elif kind == "to":
                goals.append(_sub(pr.lin(en), ln))
            elif kind == "toinclusive":
                goals.append(_sub(pr.lin(en), ln, 1))
            elif kind == "inclusive":
                goals.append(_sub(pr.lin(st), pr.lin(en), -1))
                goals.append(_sub(pr.lin(en), ln, 1))
        how = set()
        for g in goals:
            r = pr.prove(g, s.bb)
            if not r:
                return None
            how.add(r)
        return ("D-" + "+".join(sorted(how)), "range within length")

    def _unwrap(self, pr, s, ops):
        x = ops[0]
        body = s.body
        _, some = pr.facts_at(s.bb)
        want = 1 if "option" in (callee_name(s.term) or "").lower() else 0   # Some == 1, Ok == 0
        if (x, want) in some:
            return ("D-opt", "dominated by is_some/is_ok or a matching arm")
        # array conversions of a slice with a known length
        y = x
        if y[0] == "call" and isinstance(y[1], str) and ("try_into" in y[1] or "try_from" in y[1]) and y[2]:
            src = canon(y[2][0])
            dty = body.local_ty(s.term["dest"][0]) if len(s.term["dest"]) == 1 else ""
            m = re.search(r"\[\w+; (\d+)\]", dty)
            l = pr.len_summary(src)
            if m and l is not None and not l[0] and l[1] == int(m.group(1)):
                return ("D-len", "slice of length %d into [_; %d]" % (l[1], int(m.group(1))))
            if m and l is not None and l[0]:
                nn = int(m.group(1))
                r1 = pr.prove(_add(l, ({}, -nn)), s.bb)
                r2 = pr.prove(_add(_neg(l), ({}, nn)), s.bb)
                if r1 and r2:
                    return ("D-len", "length proven equal to %d under the dominating guards" % nn)
            # integer conversions that cannot fail by range
            m2 = re.search(r"^(u8|u16|u32|u64|usize|i32|i64)$", dty.strip())
            if m2:
                r = pr.ranger.rng(src)
                tr = type_range(m2.group(1))
                if r[0] is not None and r[1] is not None and r[0] >= tr[0] and r[1] <= tr[1]:
                    return ("D-range", "value fits %s" % m2.group(1))
        # first / last / split_first / split_last of a slice known not to be empty
        if y[0] == "call" and isinstance(y[1], str) and y[1].rsplit("::", 1)[-1] in ("split_last", "split_first", "first", "last", "split_last_mut",
                                                                                       "split_first_mut", "first_mut", "last_mut") and len(y[2]) == 1 and \
                ("slice" in y[1] or "[T]" in y[1]):
            l = pr.len_summary(canon(y[2][0])) or pr.lin(("len", canon(y[2][0])))
            if l is not None and pr.prove(_add(_neg(l), ({}, 1)), s.bb):        # 1 - len <= 0
                return ("D-len", "the slice has at least one element under the dominating guards")
        # constructors that cannot fail for constant arguments
        if y[0] == "call" and isinstance(y[1], str):
            last = y[1].rsplit("::", 1)[-1]
            if last == "parse" and y[2] and canon(y[2][0])[0] == "const":
                return ("D-const", "parse of a literal")
            if last in ("ok_or", "ok_or_else"):
                inner = canon(y[2][0])
                if (inner, 1) in some:
                    return ("D-opt", "source known Some")
        if y[0] == "agg" and y[2] in ("Some", "Ok"):
            return ("D-const", "freshly built %s" % y[2])
        # x.or_else(|| Some(..)) / x.or(Some(..)): Some whatever x is
        if y[0] == "call" and isinstance(y[1], str) and want == 1 and len(y[2]) == 2:
            last = y[1].rsplit("::", 1)[-1]
            alt = canon(y[2][1])
            if last == "or" and alt[0] == "agg" and alt[2] == "Some":
                return ("D-const", "or(Some(..))")
            if last == "or_else" and alt[0] == "agg" and str(alt[1]).startswith("closure:"):
                cb = self.P.bodies.get(str(alt[1])[len("closure:"):])
                if cb is not None:
                    rets = [st for _, _, st in cb.stmts() if st["p"] == (0,) and "rv" in st]
                    calls0 = [tm for _, tm in cb.calls() if tuple(tm["dest"]) == (0,)]
                    if rets and not calls0 and all(st["rv"]["k"] == "agg" and st["rv"].get("variant") == "Some" for st in rets):
                        return ("D-const", "or_else(|| Some(..)): the fallback always yields Some")
        # http::response::Builder::body on a builder made of literal, valid parts only
        if y[0] == "call" and isinstance(y[1], str) and y[1].endswith("response::Builder::body") and want == 0 and y[2]:
            cur, okb = canon(y[2][0]), True
            for _ in range(12):
                if cur[0] != "call" or not isinstance(cur[1], str):
                    okb = False
                    break
                last = cur[1].rsplit("::", 1)[-1]
                if last in ("builder", "new") and not cur[2]:
                    break
                if last == "status" and len(cur[2]) == 2:
                    c = canon(cur[2][1])
                    okb = okb and c[0] == "const" and isinstance(c[1], int) and 100 <= c[1] <= 999
                elif last == "header" and len(cur[2]) == 3:
                    k_, v_ = canon(cur[2][1]), canon(cur[2][2])
                    okb = okb and k_[0] == "const" and isinstance(k_[1], str) and re.match(r"^[!#$%&'*+.^_`|~0-9A-Za-z-]+$", k_[1]) is not None and \
                        v_[0] == "const" and isinstance(v_[1], str) and all(32 <= ord(ch) < 127 for ch in v_[1])
                else:
                    okb = False
                    break
                cur = canon(cur[2][0])
            if okb:
                return ("D-const", "response builder with a literal status and literal, valid header names and values")
        return None

    def _api(self, pr, s, ops):
        what = s.what
        if what.startswith("str-boundary:"):
            # position 0 and the string's own length are always boundaries
            if len(ops) > 1:
                r = pr.ranger.rng(ops[1])
                if r == (0, 0):
                    return ("D-const", "position 0")
                if ops[1] == ("len", canon(ops[0])) or (ops[1][0] == "call" and str(ops[1][1]).endswith("::len") and ops[1][2] and canon(ops[1][2][0]) == canon(ops[0])):
                    return ("D-len", "the string's own length")
            return None
        if what in ("chunks", "chunks_exact", "windows"):
            r = pr.ranger.rng(ops[1]) if len(ops) > 1 else (None, None)
            if r[0] is not None and r[0] > 0:
                return ("D-const", "chunk size > 0")
            return None
        if what == "copy_from_slice" and len(ops) == 2:
            a = pr.lin(("len", canon(ops[0])))
            b = pr.lin(("len", canon(ops[1])))
            if a == b:
                return ("D-len", "equal lengths")
            g1, g2 = _sub(a, b), _sub(b, a)
            r1, r2 = pr.prove(g1, s.bb), pr.prove(g2, s.bb)
            if r1 and r2:
                return ("D-len", "equal lengths")
            return None
        if what in ("split_at", "split_at_mut", "split_off", "truncate") and len(ops) == 2:
            ln = pr.lin(("len", canon(ops[0])))
            mid = ops[1]
            cands = [mid]
            if mid[0] == "call" and isinstance(mid[1], str) and mid[1].rsplit("::", 1)[-1] == "min" and len(mid[2]) == 2:
                cands = [canon(mid[2][0]), canon(mid[2][1])]     # min(a, b) <= len when either is
            for c in cands:
                r = pr.prove(_sub(pr.lin(c), ln), s.bb)
                if r:
                    return ("D-" + r, "split point within the length")
            return None
        if what.startswith("time-arith:Sub") and len(ops) == 2:
            # a - b on clock readings / durations cannot fail when a dominating comparison established b <= a
            g = _sub(pr.lin(ops[1]), pr.lin(ops[0]))
            r = pr.prove(g, s.bb)
            return ("D-" + r, "later minus earlier: b <= a holds on every path to here") if r else None
        if what == "drain" and len(ops) == 2:
            se = _range_bounds(ops[1])
            if se and se[2] == "full":
                return ("D-const", "full range")
        return None

    def _panic(self, pr, s, ops):
        """assert!/debug_assert!: the panic block is entered on the failing edge of a condition; prove the condition"""
        body, cfg, T = s.body, pr.cfg, pr.T
        # walk up single-predecessor chains to the deciding switch
        b = s.bb
        for _ in range(6):
            preds = cfg.pred[b]
            if len(preds) != 1:
                return None
            p = preds[0]
            tm = body.blocks[p]["term"]
            if tm["k"] == "switch":
                d = canon(T.at_term(tm["discr"], p))
                neg = False
                while d[0] == "un" and d[1] == "Not":
                    neg = not neg
                    d = canon(d[2])
                edges = cfg.switch_edges(p)
                explicit = {v for v, _ in edges if v is not None}
                if explicit != {0} or len(edges) != 2:
                    return None
                # value of d on the edge into the panic
                v = [val for val, tgt in edges if tgt == b]
                if len(v) != 1:
                    return None
                fails_when = (v[0] is None)       # d true leads to the panic?
                if neg:
                    fails_when = not fails_when
                # need: d == (not fails_when) always
                facts = []
                some = set()
                pr._cond_facts(d, fails_when, facts, some)   # facts that hold when it FAILS
                # the failure is impossible if a failing fact contradicts ranges/guards: prove the negation of one of them
                for f in facts:
                    # f <= 0 holds on failure; show f >= 1 always, i.e. 1 - f <= 0
                    g = _add(_neg(f), ({}, 1))
                    r = pr.prove(g, p)
                    if r:
                        return ("D-" + r, "asserted condition always holds")
                return None
            if tm["k"] in ("goto", "falseedge", "falseunwind"):
                b = p
                continue
            if tm["k"] == "call":
                b = p
                continue
            return None
        return None



# ====================================================================== interprocedural argument ranges and field invariants

class Inter:
    """context-insensitive argument intervals (join over all call sites), bounded recursion"""

    def __init__(self, P, cg):
        self.P = P
        self.cg = cg
        self._memo = {}
        self._stack = set()
        Ranger.param_range = self.param_range

    def param_range(self, body, local):
        if not (1 <= local <= body.arg_count):
            return None
        ty = _strip_ref(body.locals[local]["ty"])
        if ty not in INT_BITS:
            return None
        key = (body.id, local)
        if key in self._memo:
            return self._memo[key]
        if key in self._stack or len(self._stack) > 4:
            return None
        if body.kind not in ("fn", "assoc_fn"):
            return None
        sites = self.cg.callers(body.id)
        # functions whose address is taken / public API without callers keep their type range
        if not sites:
            return None
        self._stack.add(key)
        try:
            lo, hi = None, None
            first = True
            for cb, bb, tm in sites:
                if callee_name(tm) != body.id or local - 1 >= len(tm["args"]):
                    return None
                rg = Ranger(self.P, cb)
                T = cterms(self.P, cb)
                a = canon(T.at_term(tm["args"][local - 1], bb))
                r = rg.rng(a)
                if r[0] is None or r[1] is None:
                    return None
                lo = r[0] if first else min(lo, r[0])
                hi = r[1] if first else max(hi, r[1])
                first = False
            res = (lo, hi)
        finally:
            self._stack.discard(key)
        self._memo[key] = res
        return res


# (adt, field, lo, hi): the field of every value of that type lies in [lo, hi]; verified at every construction and assignment
FIELD_RANGES = [("erbium_net::Ipv4Subnet", "prefixlen", 0, 32)]

FIELD_INVARIANTS = [
    # (ADT path, small field, big field): small <= len(big) holds whenever a value of the ADT is observable
    ("erbium::pktparser::Buffer", "offset", "buffer"),
]


def check_field_invariants(P, D):
    """verify each declared invariant at every construction and every assignment of the small field; returns list of failures"""
    bad = []
    proven = []
    for adt, small, big in FIELD_INVARIANTS:
        for b in P.bodies.values():
            T = cterms(P, b)
            pr = D.prover(b)
            for bb, idx, s in b.stmts():
                rv = s.get("rv")
                if rv is None:
                    continue
                # construction
                if rv["k"] == "agg" and rv.get("adt") == adt:
                    t = canon(T.rvalue(rv, bb, idx))
                    f = dict(t[3])
                    g = _sub(pr.lin(f[small]), pr.lin(("len", canon(f[big]))))
                    r = pr.prove(g, bb)
                    (proven if r else bad).append((b, s["sp"], "construction", r))
                # assignment to the small field of a value of that type
                pl = s["p"]
                if len(pl) >= 2 and pl[-1] == "." + small:
                    ty = pr.ranger.typer.place_ty(pl[:-1])
                    if ty and _strip_ref(ty).split("<")[0] == adt:
                        newv = canon(T.rvalue(rv, bb, idx))
                        bigt = canon(T.place(pl[:-1] + ("." + big,), bb, idx))
                        g = _sub(pr.lin(newv), pr.lin(("len", bigt)))
                        r = pr.prove(g, bb)
                        (proven if r else bad).append((b, s["sp"], "assignment", r))
                if len(pl) >= 2 and pl[-1] == "." + big:
                    ty = pr.ranger.typer.place_ty(pl[:-1])
                    if ty and _strip_ref(ty).split("<")[0] == adt:
                        bad.append((b, s["sp"], "the bounded buffer field is reassigned", None))
    return proven, bad



def check_field_ranges(P, D):
    """verify each declared field range at every construction and every assignment of the field"""
    bad, proven = [], []
    for adt, fld, lo, hi in FIELD_RANGES:
        for b in P.bodies.values():
            T = cterms(P, b)
            pr = D.prover(b)
            for bb, idx, s in b.stmts():
                rv = s.get("rv")
                if rv is None:
                    continue
                newv = None
                if rv["k"] == "agg" and rv.get("adt") == adt:
                    t = canon(T.rvalue(rv, bb, idx))
                    newv, what = dict(t[3]).get(fld), "construction"
                pl = s["p"]
                if len(pl) >= 2 and pl[-1] == "." + fld:
                    ty = pr.ranger.typer.place_ty(pl[:-1])
                    if ty and _strip_ref(ty).split("<")[0] == adt:
                        newv, what = canon(T.rvalue(rv, bb, idx)), "assignment"
                if newv is None:
                    continue
                l = pr.lin(newv)
                r1 = pr.prove(_add(l, ({}, -hi)), bb)
                r2 = pr.prove(_add(_neg(l), ({}, lo)), bb)
                (proven if r1 and r2 else bad).append((b, s["sp"], "%s of %s.%s in [%d, %d]" % (what, adt.split("::")[-1], fld, lo, hi), "%s+%s" % (r1, r2) if r1 and r2 else None))
    return proven, bad


_pure = {}
_succ_memo = {}


# ====================================================================== guaranteed minimum length of a byte container

_GROW = {"push": 1, "push_back": 1, "push_front": 1, "insert": 1}
_SHRINK_TO_ZERO = ("clear", "drain", "split_off", "retain", "dedup", "retain_mut", "dedup_by", "dedup_by_key", "swap_remove", "set_len", "take")
_minlen_memo = {}
_effect_memo = {}


def _overlaps(a, b):
    n = min(len(a), len(b))
    return tuple(x for x in a[:n] if x != "*") == tuple(x for x in b[:n] if x != "*") or a[:n] == b[:n]


def callee_growth(P, fid, param, fld, depth=0, arg_lens=()):
    """octets a workspace function is guaranteed to append to the container reached through its parameter `param`
    (the parameter itself when fld is None, else its field fld), or None when it may shrink it"""
    key = (id(P), fid, param, fld, tuple(arg_lens))
    if key in _effect_memo:
        return _effect_memo[key]
    _effect_memo[key] = None
    b = P.bodies.get(fid)
    if b is None or depth > 3:
        return None
    cont = (param, "*") if fld is None else (param, "*", "." + fld)
    if not b.locals[param]["ty"].startswith("&"):
        cont = (param,) if fld is None else (param, "." + fld)
    out = min_len_out(P, b, cont, depth + 1, tuple(arg_lens))
    if out is None:
        return None
    rets = [bb for bb, tm in b.terms() if tm["k"] == "return"]
    if not rets:
        return None
    g = min(out.get(r, 0) for r in rets)
    _effect_memo[key] = g
    return g


def min_len_out(P, body, cont, depth=0, arg_lens=()):
    """forward dataflow: for every block, a lower bound on len(cont) after the block, assuming 0 at entry; None if the container is
    handed to something whose effect is unknown in a way that could hide a reassignment of the analysis' assumptions"""
    key = (id(P), body.id, cont, tuple(arg_lens))
    if key in _minlen_memo:
        return _minlen_memo[key]
    _minlen_memo[key] = {}
    T = cterms(P, body)
    T.defsites()
    cfg = cfg_of(body)
    INF = 1 << 40
    nblk = len(body.blocks)
    rg = Ranger(P, body)

    def effect(bb, L):
        tm = body.blocks[bb]["term"]
        # whole-container assignments in the block
        for st in body.blocks[bb]["stmts"]:
            if _overlaps(tuple(st["p"]), cont) and len(st["p"]) <= len(cont):
                L = 0
        if tm is None or tm["k"] != "call":
            return L
        hit = [t for t in T._clobbers.get(bb, []) if _overlaps(tuple(t), cont)]
        if tm["k"] == "call" and tuple(tm["dest"]) == cont:
            return 0
        if not hit:
            return L
        n = callee_name(tm) or ""
        last = n.rsplit("::", 1)[-1]
        nst = len(body.blocks[bb]["stmts"])
        std = "std::vec::Vec" in n or "alloc::vec::Vec" in n or "VecDeque" in n or "std::string::String" in n or "core::slice::" in n or "[T]" in n
        if std and last in _GROW:
            return L + 1
        if std and last in ("extend_from_slice", "push_str", "extend_from_within", "append", "extend"):
            if last == "extend_from_slice" and len(tm["args"]) == 2:
                a = canon(T.operand(tm["args"][1], bb, nst))
                if a[0] == "param" and a[1] - 1 < len(arg_lens):
                    return L + arg_lens[a[1] - 1]      # a slice parameter: the caller told us how long it is at least
                pr = Prover(P, body)
                ls = pr.len_summary(a)
                if ls is not None and not ls[0] and ls[1] >= 0:
                    return L + ls[1]
            return L
        if std and last in ("truncate",) and len(tm["args"]) == 2:
            a = canon(T.operand(tm["args"][1], bb, nst))
            lo = rg.rng(a)[0]
            return min(L, lo if lo is not None else 0)
        if std and last in ("resize", "resize_with") and len(tm["args"]) >= 2:
            a = canon(T.operand(tm["args"][1], bb, nst))
            lo = rg.rng(a)[0]
            return lo if lo is not None else 0
        if std and last in ("pop", "remove", "pop_back", "pop_front"):
            return max(L - 1, 0)
        if std and last in _SHRINK_TO_ZERO:
            return 0
        if std and last in ("reserve", "reserve_exact", "shrink_to_fit", "as_mut_slice", "as_mut", "deref_mut", "index_mut", "iter_mut", "sort", "sort_unstable",
                            "copy_from_slice", "fill", "reverse", "swap", "as_mut_ptr", "get_mut", "last_mut", "first_mut"):
            return L
        if n in P.bodies and depth < 3:
            # which parameter carries the container?
            for i, a in enumerate(tm["args"]):
                pl = op_place(a)
                if pl is None or len(pl) != 1:
                    continue
                tgt = None
                for t in hit:
                    tgt = t
                # the argument is &mut <prefix of cont>
                rest = None
                arg_t = T._clobbers.get(bb, [])
                for t in arg_t:
                    t = tuple(t)
                    if _overlaps(t, cont):
                        extra = cont[len(t):]
                        rest = extra
                if rest is None:
                    continue
                fld = None
                extra = tuple(e for e in rest if e != "*")
                if len(extra) == 1 and extra[0].startswith("."):
                    fld = extra[0][1:]
                elif extra:
                    return 0
                lens = []
                prl = Prover(P, body)
                for a2 in tm["args"]:
                    t2 = canon(T.operand(a2, bb, nst))
                    ls2 = prl.len_summary(t2)
                    if ls2 is not None and not ls2[0] and ls2[1] >= 0:
                        lens.append(ls2[1])
                    elif t2[0] == "param" and t2[1] - 1 < len(arg_lens):
                        lens.append(arg_lens[t2[1] - 1])
                    else:
                        lens.append(0)
                g = callee_growth(P, n, i + 1, fld, depth, tuple(lens))
                if g is None:
                    return 0
                return L + g
            return 0
        return 0

    out = {b: INF for b in range(nblk)}
    inn = {b: INF for b in range(nblk)}
    inn[0] = 0
    work = [0]
    steps = 0
    while work and steps < 20 * nblk + 200:
        steps += 1
        b = work.pop()
        L = inn[b]
        if L >= INF:
            continue
        o = effect(b, L)
        if o != out[b]:
            out[b] = o
        for s2 in cfg.succ[b]:
            if o < inn[s2]:
                inn[s2] = o
                work.append(s2)
    res = {b: (v if v < INF else 0) for b, v in out.items()}
    _minlen_memo[key] = res
    return res
_PURE_STD = re.compile(r"( as std::ops::(Add|Sub|Mul|Div|Rem|Shl|Shr|BitAnd|BitOr|BitXor|Not|Neg)[<>])|(^core::num::)|( as std::cmp::Partial(Ord|Eq))|"
                       r"(^std::time::Duration::(as_|from_|new|subsec))|(::len$)|( as std::clone::Clone>::clone$)|(^std::cmp::(min|max)$)|"
                       r"( as std::convert::(From|Into)<)|(<impl \[T\]>::(get|first|last|is_empty|iter|as_ptr|contains|starts_with|ends_with)$)|"
                       r"(^std::option::Option::<.*>::(copied|cloned|is_some|is_none|as_ref|as_deref|unwrap_or|ok_or)$)|(Vec::<T, A>::(as_slice|is_empty|capacity)$)|"
                       r"( as std::ops::Deref>::deref$)")


def is_pure_fn(P, fid, depth=0):
    """a workspace function that only reads its arguments: no `&mut` parameter, no store through a parameter, and every call it
    makes is to a pure std operator/observer or to another such function"""
    key = (id(P), fid)
    if key in _pure:
        return _pure[key]
    b = P.bodies.get(fid)
    sig = P.sigs.get(fid) or {}
    if b is None or depth > 4 or b.kind not in ("fn", "assoc_fn"):
        _pure[key] = False
        return False
    _pure[key] = False   # cycles are not pure
    ok = True
    for bb, idx, st in b.stmts():
        if "*" in st["p"][1:]:
            ok = False
    for bb, tm in b.calls():
        n = callee_name(tm) or ""
        if not (_PURE_STD.search(n) or is_pure_fn(P, n, depth + 1)):
            ok = False
    for bb, tm in b.terms():
        if tm["k"] in ("yield",):
            ok = False
    _pure[key] = ok
    return ok


_inl = {}


def inline_pure(P, t):
    """a call of a small local observer function `fn f(&self..) -> int { expr over params }` rewritten to that expression"""
    from .util import subst_params
    name = t[1]
    if not isinstance(name, str) or name not in P.bodies:
        return None
    if name not in _inl:
        _inl[name] = None
        b = P.bodies[name]
        if b.kind in ("fn", "assoc_fn") and len(b.blocks) <= 8 and not cfg_of(b).back_edges():
            T = cterms(P, b)
            rets = []
            for bb, idx, s in b.stmts():
                if s["p"] == (0,) and "rv" in s:
                    rets.append(canon(T.rvalue(s["rv"], bb, idx)))
            for bb, tm in b.calls():
                if tm["dest"] == (0,):
                    rets.append(canon(T.call_term(tm, bb)))
            if len(rets) == 1 and rets[0][0] != "phi":
                ok = True
                for y in subterms(rets[0]):
                    if y[0] in ("clobbered", "rec", "unknown", "phi"):
                        ok = False
                if ok and type_range(_strip_ref(b.locals[0]["ty"])) is not None:
                    _inl[name] = rets[0]
    r = _inl[name]
    if r is None:
        return None
    mapping = {i + 1: canon(a) for i, a in enumerate(t[2])}
    return canon(subst_params(r, mapping))


# ====================================================================== stable keys

_SHAPE_BODY = [None]
_SHAPE_LOOSE = [False]


def shape(t, depth=0):
    """position-free rendering of a canonical term (no block numbers, no local numbers except parameters)"""
    if depth > 14:
        return "…"
    k = t[0]
    if k == "param":
        return "arg%d" % t[1]
    if k == "const":
        v = t[1]
        if len(t) > 2 and t[2] != "bool" and not isinstance(v, int):
            return str(t[2]).split("::")[-1]
        if isinstance(v, int) and not isinstance(v, bool):
            return repr(v)            # a named constant is its value: introducing or renaming a `const` changes nothing
        if isinstance(v, tuple):
            return str(v[-1]).split("::")[-1]
        if isinstance(v, (bytes, str)) and len(v) > 24:
            return repr(v[:24]) + "…"
        return repr(v)
    if k == "call":
        n = t[1] if isinstance(t[1], str) else "(ptr)"
        if n.startswith("rusqlite::Connection::") and len(t[2]) >= 2:
            # a query is identified by its statement; how the bound values are spelled is not part of the construct's identity
            return "%s(%s)" % ("::".join(n.split("::")[-2:]), shape(t[2][1], depth + 1))
        last = n.rsplit("::", 1)[-1]
        if last in ("min", "max") and len(t[2]) == 2 and ("cmp::" in n or "Ord" in n):
            n = "cmp::" + last           # std::cmp::min(a, b), Ord::min(a, b) and a.min(b) are one operation
        n = re.sub(r"<[^<>]*>", "", n)
        n = re.sub(r"<[^<>]*>", "", n)
        n = "::".join(n.split("::")[-2:])
        if n in ("cmp::min", "cmp::max"):
            # commutative: min(a, b) and min(b, a) are one construct
            return "%s(%s)" % (n, ",".join(sorted(shape(a, depth + 1) for a in t[2])))
        return "%s(%s)" % (n, ",".join(shape(a, depth + 1) for a in t[2]))
    if k == "agg":
        return "%s{%s}" % (t[1].split("::")[-1] + ("::" + t[2] if t[2] else ""), ",".join("%s:%s" % (f, shape(v, depth + 1)) for f, v in t[3]))
    if k == "bin":
        return "%s(%s,%s)" % (t[1].replace("WithOverflow", ""), shape(t[2], depth + 1), shape(t[3], depth + 1))
    if k == "un":
        return "%s(%s)" % (t[1], shape(t[2], depth + 1))
    if k == "cast":
        return "(%s as %s)" % (shape(t[3], depth + 1), t[2].split("::")[-1])
    if k == "field":
        if t[2] == "0" and t[1][0] == "bin":
            return shape(t[1], depth + 1)
        return "%s.%s" % (shape(t[1], depth + 1), t[2])
    if k == "payload":
        return "%s<%s>" % (shape(t[2], depth + 1), t[1])
    if k == "len":
        return "len(%s)" % shape(t[1], depth + 1)
    if k == "index":
        return "%s[]" % shape(t[1], depth + 1)
    if k == "clobbered":
        pl = t[2]
        b = _SHAPE_BODY[0]
        if _SHAPE_LOOSE[0] and not (b is None or pl[0] <= b.arg_count):
            return "mut(local%s)" % "".join(e for e in pl[1:] if e != "*")
        if b is None or pl[0] <= b.arg_count:
            root = "arg%d" % pl[0]
        else:
            # a local of the function: its source name, else its type (local numbers shift when unrelated code changes)
            root = b.local_name(pl[0]) or ("tmp:" + re.sub(r"<.*>", "", b.locals[pl[0]]["ty"]).split("::")[-1])
        return "mut(%s%s)" % (root, "".join(e for e in pl[1:] if e != "*"))
    if k == "phi":
        return "phi(%s)" % "|".join(sorted(shape(x, depth + 1) for x in t[1]))
    if k == "rec":
        return "loopvar"
    if k == "await":
        return "await(%s)" % shape(t[1], depth + 1)
    if k == "downcast":
        return "%s@%s" % (shape(t[1], depth + 1), t[2])
    if k == "discr":
        return "discr(%s)" % shape(t[1], depth + 1)
    if k == "repeat":
        return "[%s;%s]" % (shape(t[1], depth + 1), t[2])
    return k


def site_key(P, D, s):
    import hashlib
    pr = D.prover(s.body)
    n = len(s.body.blocks[s.bb]["stmts"])
    ops = [canon(pr.T.operand(o, s.bb, n)) for o in s.ops[:2]]
    _SHAPE_BODY[0] = s.body
    shp = [shape(o) for o in ops]
    _SHAPE_BODY[0] = None
    fn = s.body.id
    # the function's own name (closures: the enclosing function's name) keeps reports diagnosable; module path is left out
    parts = [p_ for p_ in fn.split("::") if not p_.startswith("{closure")]
    short = parts[-1] if parts else fn
    full = "%s|%s|%s" % (s.kind + ":" + s.what, short, "|".join(shp))
    h = hashlib.sha1(full.encode()).hexdigest()[:10]
    head = "%s:%s@%s(%s)" % (s.kind, s.what, short, ";".join(x[:48] for x in shp))
    return "%s#%s" % (head[:150], h)


def loose_key(P, D, s):
    """the site's shape with the enclosing function's name and the names of its locals erased: used only to recognise a
    reviewed construct again after its function or a local was renamed (see rules/c05.check_sites)"""
    import hashlib
    pr = D.prover(s.body)
    n = len(s.body.blocks[s.bb]["stmts"])
    ops = [canon(pr.T.operand(o, s.bb, n)) for o in s.ops[:2]]
    _SHAPE_BODY[0] = s.body
    _SHAPE_LOOSE[0] = True
    try:
        shp = [shape(o) for o in ops]
    finally:
        _SHAPE_BODY[0] = None
        _SHAPE_LOOSE[0] = False
    return hashlib.sha1(("%s|%s" % (s.kind + ":" + s.what, "|".join(shp))).encode()).hexdigest()[:8]
