"""Extraction of the DNS header flag tables from the decoder (parse.rs get_dns) and the encoder
(dnspkt.rs serialise_with_size): field -> (flag octet, mask), opcode shift, rcode mask, OPT packing."""
from .facts import callee_name, op_place, const_int
from .prov import norm, subterms, show
from .cfg import cfg_of
from .util import terms, find_aggs, fn_with_sig, closure_def_of_term

FLAG_FIELDS = ("rd", "tc", "aa", "qr", "cd", "ad", "ra")


def _find_decoder(P):
    """the body that builds a DNSPkt whose flag fields are bit tests on bytes read from the wire"""
    for b, bb, idx, s in find_aggs(P, "dns::dnspkt::DNSPkt"):
        T = terms(P, b)
        t = norm(T.rvalue(s["rv"], bb, idx))
        f = dict(t[3])
        if all(any(x[0] == "bin" and x[1] == "BitAnd" for x in subterms(f[k])) for k in ("rd", "qr", "ra")):
            return b, bb, idx, s, f
    return None


def decode_table(P):
    """-> (table, info) ; table: name -> dict(octet=1|2, mask=int[, shift=int]); info: body, where"""
    d = _find_decoder(P)
    if d is None:
        return None, None
    b, bb, idx, s, f = d
    cfg = cfg_of(b)
    # identify flag octets by the order of the byte reads
    reads = {}
    tab = {}

    def octet_of(t):
        calls = [x for x in subterms(t) if x[0] == "call" and isinstance(x[1], str) and x[1].endswith("::get_u8")]
        if len(calls) != 1:
            return None
        return calls[0][3]
    sites = set()
    for k in FLAG_FIELDS + ("opcode", "rcode"):
        o = octet_of(f[k]) if k not in ("rcode",) else None
        if k == "rcode":
            cs = [x for x in subterms(f[k]) if x[0] == "call" and isinstance(x[1], str) and x[1].endswith("::get_u8")]
            o = cs[0][3] if cs else None
        if o is not None:
            sites.add(o)
    order = sorted(sites, key=lambda x: sum(1 for y in sites if cfg.dominates(y, x)))
    octet_index = {site: i + 1 for i, site in enumerate(order)}
    for k in FLAG_FIELDS:
        t = f[k]
        # Ne(BitAnd(x, M), 0)
        m = None
        if t[0] == "bin" and t[1] == "Ne" and norm(t[3]) == ("const", 0):
            a = norm(t[2])
            if a[0] == "bin" and a[1] == "BitAnd":
                c = norm(a[3])
                if c[0] == "const":
                    m = c[1]
        tab[k] = {"octet": octet_index.get(octet_of(t)), "mask": m}
    # opcode: Opcode{0: Shr(BitAnd(flag1, M), S)}
    t = f["opcode"]
    for x in subterms(t):
        if x[0] == "bin" and x[1] in ("Shr", "ShrUnchecked"):
            a = norm(x[2])
            sh = norm(x[3])
            if a[0] == "bin" and a[1] == "BitAnd" and sh[0] == "const":
                tab["opcode"] = {"octet": octet_index.get(octet_of(t)), "mask": norm(a[3])[1], "shift": sh[1]}
    # rcode: BitOr(cast(BitAnd(flag2, M)), Shl(cast(ercode), 4))
    t = f["rcode"]
    for x in subterms(t):
        if x[0] == "bin" and x[1] == "BitAnd" and norm(x[3])[0] == "const" and any(y[0] == "call" and str(y[1]).endswith("::get_u8") for y in subterms(x[2])):
            cs = [y for y in subterms(x[2]) if y[0] == "call" and str(y[1]).endswith("::get_u8")]
            tab["rcode"] = {"octet": octet_index.get(cs[0][3]), "mask": norm(x[3])[1]}
        if x[0] == "bin" and x[1] in ("Shl", "ShlUnchecked") and norm(x[3])[0] == "const":
            tab.setdefault("rcode_ext", {})["shift_into_rcode"] = norm(x[3])[1]
    # OPT-derived fields: what is computed from the OPT record, whether in a closure handed to map / map_or / is_some_and or in
    # the arm of a match on the record.  Closures that *select* the record (find, position, filter) compute nothing of the kind.
    SELECTORS = ("find", "position", "filter", "rposition", "find_map", "any", "all", "skip_while", "take_while")

    def selecting(t):
        out = set()
        for x in subterms(t):
            if x[0] == "call" and isinstance(x[1], str) and x[1].rsplit("::", 1)[-1] in SELECTORS:
                for a_ in x[2]:
                    a_ = norm(a_)
                    if a_[0] == "agg" and a_[1].startswith("closure:"):
                        out.add(a_[1])
        return out

    def is_closure(x):
        return x[0] == "agg" and isinstance(x[1], str) and x[1].startswith("closure:")

    def closure_expr(t):
        out = []
        skip = selecting(t)
        for x in subterms(t):
            if is_closure(x) and x[1] not in skip:
                cb = P.bodies.get(x[1][8:])
                if cb is not None:
                    Tc = terms(P, cb)
                    for b2, i2, s2 in cb.stmts():
                        if s2["p"] == (0,) and "rv" in s2:
                            out.append(norm(Tc.rvalue(s2["rv"], b2, i2)))
        return out

    def alternatives(t):
        alts = [norm(t)]
        for _ in range(4):
            alts = [z for y in alts for z in ([norm(q) for q in y[1]] if y[0] == "phi" else [y])]
        return alts

    def direct(t):
        """the sub-expressions of t outside any closure"""
        return list(subterms(t, prune=is_closure))
    for e in closure_expr(f["edns_do"]) + alternatives(f["edns_do"]):
        if e[0] == "bin" and e[1] == "Ne":
            a = norm(e[2])
            if a[0] == "bin" and a[1] == "BitAnd" and norm(a[3])[0] == "const":
                tab["edns_do"] = {"mask": norm(a[3])[1], "of": "ttl" if any(y[0] == "field" and y[2] == "ttl" for y in subterms(a[2])) else "?"}
    for x in [y for e in closure_expr(f["edns_ver"]) for y in subterms(e)] + direct(f["edns_ver"]):
        if x[0] == "bin" and x[1] in ("Shr", "ShrUnchecked") and norm(x[3])[0] == "const" and any(y[0] == "field" and y[2] == "ttl" for y in subterms(x[2])):
            tab["edns_ver"] = {"shift": norm(x[3])[1]}
    for x in [y for e in closure_expr(f["rcode"]) for y in subterms(e)] + direct(f["rcode"]):
        if x[0] == "bin" and x[1] in ("Shr", "ShrUnchecked") and norm(x[3])[0] == "const" and any(y[0] == "field" and y[2] == "ttl" for y in subterms(x[2])):
            tab["ext_rcode"] = {"shift": norm(x[3])[1]}
    # bufsize: max(map_or(opt, D, closure), FLOOR), or per arm: max(o.class, FLOOR) with the record, D without
    floors, dflt, from_class, shaped = [], None, False, True
    for t in alternatives(f["bufsize"]):
        if t[0] == "const" and isinstance(t[1], int):
            dflt = t[1]
            floors.append(t[1])
        elif t[0] == "call" and str(t[1]).endswith("cmp::max"):
            consts = [norm(a)[1] for a in t[2] if norm(a)[0] == "const"]
            floors.append(consts[0] if consts else None)
            for i in [norm(a) for a in t[2] if norm(a)[0] != "const"]:
                if i[0] == "call" and str(i[1]).endswith("::map_or"):
                    d0 = norm(i[2][1])
                    dflt = d0[1] if d0[0] == "const" else None
                    for e in closure_expr(i):
                        if any(y[0] == "field" and y[2] == "class" for y in subterms(e)):
                            from_class = True
                elif any(y[0] == "field" and y[2] == "class" for y in direct(i)):
                    from_class = True
        else:
            shaped = False
    if shaped and floors and None not in floors:
        tab["bufsize"] = {"floor": min(floors), "default": dflt, "from_opt_class": from_class}
    return tab, (b, s["sp"])


def encode_table(P):
    """flag tables of the serialiser: name -> dict(octet, mask[, shift]) from the BitOr chains of the two flag bytes"""
    cands = [f for f in fn_with_sig(P, ["DNSPkt", "usize"], "Vec<u8>") if f in P.bodies]
    if not cands:
        return None, None
    b = P.bodies[cands[0]]
    T = terms(P, b)
    cfg = cfg_of(b)
    tab = {}
    # the two single-byte pushes after the id: Vec::push(ret, flagN)
    pushes = []
    for bb, tm in b.calls():
        n = callee_name(tm) or ""
        if n.endswith("Vec::<T, A>::push") and len(tm["args"]) == 2 and op_place(tm["args"][1]) and b.local_ty(op_place(tm["args"][1])[0]) == "u8":
            pushes.append((bb, tm))
    snap = list(pushes)
    pushes = sorted(snap, key=lambda x: sum(1 for y in snap if cfg.dominates(y[0], x[0])))
    for octet, (bb, tm) in enumerate(pushes[:2], start=1):
        _collect_or_chain(P, b, T, cfg, tm["args"][1], bb, len(b.blocks[bb]["stmts"]), octet, tab)
    # OPT packing: the RR aggregate with rrtype RR_OPT: ttl expression
    for _, bb, idx, s in find_aggs(P, "dns::dnspkt::RR", [b]):
        t = norm(T.rvalue(s["rv"], bb, idx))
        f = dict(t[3])
        for x in subterms(f["ttl"]):
            if x[0] == "bin" and x[1] in ("Shl", "ShlUnchecked") and norm(x[3])[0] == "const":
                inner = x[2]
                sh = norm(x[3])[1]
                if any(y[0] == "field" and y[2] == "edns_ver" for y in subterms(inner)):
                    tab["edns_ver"] = {"shift": sh}
                elif any(y[0] == "field" and y[2] == "rcode" for y in subterms(inner)):
                    tab["ext_rcode"] = {"shift": sh}
                    for y in subterms(inner):
                        if y[0] == "bin" and y[1] in ("Shr", "ShrUnchecked") and norm(y[3])[0] == "const":
                            tab["rcode_ext"] = {"shift_into_rcode": norm(y[3])[1]}
        # DO bit: a conditional constant guarded by self.edns_do
        op = s["rv"]["ops"][s["rv"]["fields"].index("ttl")]
        _collect_or_chain(P, b, T, cfg, op, bb, idx, "opt", tab)
        cl = norm(f["class"])
        # the field itself (through the newtype and borrows), not something computed from it: min(bufsize, 4096) is not what was decoded
        cx = norm(cl)
        for _ in range(6):
            if cx[0] in ("ref", "deref"):
                cx = norm(cx[1])
            elif cx[0] == "agg" and len(cx[3]) == 1:
                cx = norm(cx[3][0][1])
            elif cx[0] == "cast":
                cx = norm(cx[3])
            else:
                break
        tab["bufsize"] = {"class_from": "bufsize" if (cx[0] == "field" and cx[2] == "bufsize") else show(cl)[:40]}
    return tab, (b, b.span)


def _single_def(T, place, bb, idx):
    defs = T.reaching(place, bb, idx)
    if len(defs) == 1 and defs[0][0] == "s":
        _, b, i = defs[0]
        st = T.body.blocks[b]["stmts"][i]
        if "rv" in st and st["p"] == place:
            return st, b, i
    return None


def _collect_or_chain(P, body, T, cfg, operand, bb, idx, octet, tab, depth=0):
    """walk a BitOr tree of temporaries; leaves are: conditional constants (phi of M / 0 guarded by a bool field),
    u8::from(bool field) (mask 1), shifts of a field, masked casts"""
    if depth > 20:
        return
    pl = op_place(operand)
    if pl is None:
        return
    defs = T.reaching(pl, bb, idx)
    if len(defs) == 1 and defs[0][0] == "s":
        _, b, i = defs[0]
        st = body.blocks[b]["stmts"][i]
        rv = st.get("rv")
        if rv is None:
            return
        if rv["k"] == "use" and op_place(rv["op"]):
            return _collect_or_chain(P, body, T, cfg, rv["op"], b, i, octet, tab, depth + 1)
        if rv["k"] == "bin" and rv["op"] == "BitOr":
            _collect_or_chain(P, body, T, cfg, rv["a"], b, i, octet, tab, depth + 1)
            _collect_or_chain(P, body, T, cfg, rv["b"], b, i, octet, tab, depth + 1)
            return
        if rv["k"] == "bin" and rv["op"] in ("Shl", "ShlUnchecked"):
            t = norm(T.rvalue(rv, b, i))
            sh = norm(t[3])
            flds = [y[2] for y in subterms(t[2]) if y[0] == "field" and y[2] not in ("0",)]
            if sh[0] == "const" and flds:
                _put(tab, octet, flds[-1], {"octet": octet, "shift": sh[1]})
            return
        if rv["k"] == "cast":
            t = norm(T.rvalue(rv, b, i))
            for y in subterms(t):
                if y[0] == "bin" and y[1] == "BitAnd" and norm(y[3])[0] == "const":
                    flds = [z[2] for z in subterms(y[2]) if z[0] == "field" and z[2] != "0"]
                    if flds:
                        _put(tab, octet, flds[0], {"octet": octet, "mask": norm(y[3])[1]})
            return _collect_or_chain(P, body, T, cfg, rv["op"], b, i, octet, tab, depth + 1)
        return
    if len(defs) == 1 and defs[0][0] == "t":
        tm = body.blocks[defs[0][1]]["term"]
        n = callee_name(tm) or ""
        if tm["k"] == "call" and "From<bool>" in n:
            a = norm(T.call_args(defs[0][1])[0])
            if a[0] == "field":
                _put(tab, octet, a[2], {"octet": octet, "mask": 1})
        return
    # conditional constant: two (or more) reaching defs, constants, guarded by a switch on a bool field of self
    consts = []
    blocks = []
    for d in defs:
        if d[0] != "s":
            return
        st = body.blocks[d[1]]["stmts"][d[2]]
        rv = st.get("rv")
        if not rv or rv["k"] != "use" or "k" not in rv["op"]:
            return
        consts.append(const_int(rv["op"]["k"]))
        blocks.append(d[1])
    nz = [(c, b) for c, b in zip(consts, blocks) if c]
    if len(nz) != 1:
        return
    mask, mb = nz[0]
    for sbb, tm in body.terms():
        if tm["k"] != "switch":
            continue
        d = norm(T.at_term(tm["discr"], sbb))
        if d[0] == "field" and d[1][0] == "param":
            te = [(sbb, tgt) for v, tgt in cfg.switch_edges(sbb) if v != 0]
            if any(cfg.edge_dominates(e, mb) for e in te) and all(cfg.dominates(sbb, bl) for bl in blocks):
                # innermost switch wins: choose the one closest to the def
                _put(tab, octet, d[2], {"octet": octet, "mask": mask})


def _put(tab, octet, name, val):
    tab[("opt." + name) if octet == "opt" else name] = val
