"""Specification tables written from the manual (erbium.conf(5)) and the RFCs — NOT from the repository's code.
They are the oracles for table-agreement rules."""

# ---- erbium.conf(5): HTTP path -> permission the manual names for it
HTTP_ROUTE_PERMISSION = {
    "/": "Http",                            # "http: Allows access to the non-API parts of the HTTP server"
    "/metrics": "HttpMetrics",              # "http-metrics: Allows access to the /metrics endpoint"
    "/api/v1/leases.json": "HttpLeases",    # "http-leases: Allows access to the list of active leases over HTTP"
}

# ---- PermissionType -> Permission field
PERMISSION_FIELD = {
    "DnsRecursion": "allow_dns_recursion",
    "Http": "allow_http",
    "HttpLeases": "allow_http_leases",
    "HttpMetrics": "allow_http_metrics",
}

# ---- apply-access strings -> (must grant, may grant)
ACCESS_STRINGS = {
    "dhcp-client": ({"allow_dns_recursion"}, {"allow_dns_recursion"}),
    "dns-recursion": ({"allow_dns_recursion"}, {"allow_dns_recursion"}),
    "http": ({"allow_http"}, {"allow_http"}),
    "http-metrics": ({"allow_http_metrics"}, {"allow_http_metrics"}),
    "http-leases": ({"allow_http_leases"}, {"allow_http_leases"}),
    # the manual: "An alias for http-metrics and http-leases"; the implementation (and the defaults) also grant the
    # root page `http` — tolerated documentation looseness (DESIGN.md 7.1)
    "http-ro": ({"allow_http_metrics", "allow_http_leases"}, {"allow_http", "allow_http_metrics", "allow_http_leases"}),
}

# ---- default ACLs (manual, "The defaults for ACLs are as follows")
DEFAULT_ACLS = [
    {"subnet": "addresses", "unix": None, "dns": True, "http_min": {"allow_http_metrics", "allow_http_leases"}},
    {"subnet": ["127.0.0.0/8", "::1/128"], "unix": None, "dns": True, "http_min": {"allow_http_metrics", "allow_http_leases"}},
    {"subnet": None, "unix": True, "dns": False, "http_min": {"allow_http_metrics", "allow_http_leases"}},
]

# ---- RFC 1035 / 4035 / 6891 DNS header
DNS_HEADER_OFFSETS = {"id": (0, 2), "flags": (2, 2), "qdcount": (4, 2), "ancount": (6, 2), "nscount": (8, 2), "arcount": (10, 2)}
DNS_FLAG1 = {"qr": 0x80, "aa": 0x04, "tc": 0x02, "rd": 0x01}           # octet 2 (opcode: mask 0x78, shift 3)
DNS_FLAG2 = {"ra": 0x80, "ad": 0x20, "cd": 0x10}                       # octet 3 (Z = 0x40 reserved, rcode: mask 0x0f)
DNS_OPCODE_SHIFT = 3
DNS_RCODE_MASK = 0x0F
DNS_OPT_DO = 0x8000
DNS_OPT_EXT_RCODE_SHIFT = 24
DNS_OPT_VERSION_SHIFT = 16
DNS_POINTER_LIMIT = 0x3FFF
DNS_MIN_UDP = 512
DNS_MAX_LABELS = 127

# ---- RFC 2131 BOOTP fixed header: (field, width in octets) in wire order
BOOTP_HEADER = [("op", 1), ("htype", 1), ("hlen", 1), ("hops", 1), ("xid", 4), ("secs", 2), ("flags", 2), ("ciaddr", 4),
                ("yiaddr", 4), ("siaddr", 4), ("giaddr", 4), ("chaddr", 16), ("sname", 64), ("file", 128), ("magic", 4)]
BOOTP_BROADCAST_FLAG = 0x8000
DHCP_MAGIC = 0x63825363

# ---- RFC 791 / 768
IPV4_HEADER_LEN = 20
IPV4_OFFSETS = {"version_ihl": 0, "total_length": 2, "ttl": 8, "protocol": 9, "checksum": 10, "src": 12, "dst": 16}
UDP_HEADER_LEN = 8
UDP_OFFSETS = {"sport": 0, "dport": 2, "length": 4, "checksum": 6}
ETHERTYPE_IPV4 = 0x0800
IPPROTO_UDP = 17

# ---- RFC 4861 / 8106 / 8781 / 8910 Router Advertisement
RA_TYPE = 134
RA_FLAG_M = 0x80
RA_FLAG_O = 0x40
ND_OPT = {"source_ll": 1, "target_ll": 2, "prefix": 3, "mtu": 5, "rdnss": 25, "dnssl": 31, "captive_portal": 37, "pref64": 38}
PREFIX_FLAG_L = 0x80
PREFIX_FLAG_A = 0x40
PREF64_PLC = {96: 0, 64: 1, 56: 2, 48: 3, 40: 4, 32: 5}
PREF64_MAX_SCALED_LIFETIME = 8191
