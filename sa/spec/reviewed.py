"""Reviewed panic-capable sites: constructs the obligation engine cannot discharge but that are safe for a stated,
non-local reason, or that do not depend on packet bytes / configuration text at all.  One entry per construct shape
(hash of kind + enclosing function name + position-free operand shapes; no line numbers).  `requires` names structural
rules of other properties that are re-evaluated on every run: if one fails, the entry is void and the site is reported.
Genuine defects are NOT listed here: they are repaired in /repo or listed in KNOWN_FINDINGS.txt."""

REVIEWED = {}
REVIEWED_LOOPS = {}


def R(h, cls, why, count=1, requires=(), props=("C05", "C19")):
    # several entries may exist for one shape when the reason differs per property (C05: "configuration only"; C19: the validation rule)
    REVIEWED.setdefault(h, []).append({"class": cls, "why": why, "count": count, "requires": tuple(requires), "props": tuple(props)})


class SideConditions:
    """lazily evaluates rules of other properties on the same facts; holds(name) is True when the rule produced no violation"""

    def __init__(self, ctx):
        self.ctx = ctx
        self._cache = {}

    def _run(self, prop):
        if prop in self._cache:
            return self._cache[prop]
        import importlib
        from ..engine import Ctx
        mod = importlib.import_module("sa.rules." + prop.lower())
        c = Ctx(prop, self.ctx.P, self.ctx.tier, self.ctx.config)
        try:
            mod.run(c)
            bad = {i.rule for i in c.instances if i.verdict == "violation"}
        except Exception as e:
            bad = {"%s.*" % prop}
        self._cache[prop] = bad
        return bad

    def holds(self, name):
        if "." not in name:
            # a local side rule of the running module (already evaluated into ctx.instances)
            mine = [i for i in self.ctx.instances if i.rule == "%s.%s" % (self.ctx.prop, name)]
            return bool(mine) and not any(i.verdict == "violation" for i in mine)
        prop, rule = name.split(".", 1)
        bad = self._run(prop)
        return ("%s.%s" % (prop, rule)) not in bad and ("%s.*" % prop) not in bad

from . import reviewed_entries  # noqa: E402,F401  (fills REVIEWED)
