"""Reviewed residue of the obligation engine (see reviewed.py for the format).

Classes
  env       the operand comes from the kernel, the clock, the RNG or socket metadata, never from packet bytes or configuration text
  config    the operand comes from the loaded configuration only; outside C05's quantifier (byte strings), decided by C19
  internal  an invariant between erbium's own components makes the failure impossible; `requires` names the structural rules
            (of this or another property) that establish the invariant and are re-evaluated on every run
  unreach   a match arm that is unreachable by construction (the matched value cannot carry that variant there)
  loop      safe by a loop invariant the engine does not infer
"""
from .reviewed import R, REVIEWED_LOOPS

C05 = ("C05",)

# ------------------------------------------------------------------ configuration-only operands (C19 decides them)
R("09b85350de", "config", "Prefix4::new asserts prefixlen <= 32; every caller passes the length of a configured prefix or of an interface "
  "address, never a packet field", count=2, props=C05)
R("e89c8b29b6", "internal", "the arm is entered only when network() has the ::ffff:0:0/96 pattern, and network() masks the address with the "
  "prefix length, so the pattern can only survive when prefixlen >= 96", requires=("C08.R6", "S2"))
R("b7c00e393d", "config", "network + offset with offset < 2^(32-prefixlen): stays inside the configured subnet", props=C05)
R("23d3481b86", "config", "dest[0] of a forward route: the server list comes from the configuration", props=C05)
R("886401a65b", "config", "RA option length octet: length of a configured option value", props=C05)
R("1ff92d722b", "internal", "RA DNSSL length octet: names are appended only while the list stays within 254 * 8 octets, so after padding len / 8 <= 254",
  requires=("C17.R10",))
R("88f12b364c", "config", "IPv4 total length: 20 + size of the DHCP reply, whose size is fixed by the configured options and the fixed "
  "BOOTP header, not by the request", props=C05)
R("3b271e10e0", "config", "UDP length: 8 + size of the DHCP reply (see new_ipv4)", props=C05)

# ------------------------------------------------------------------ environment
for h, n, why in (
    ("a91be69c17", 1, "destination address of a received datagram: IP_PKTINFO is enabled on the DHCP socket at creation"),
    ("2d9e57c744", 1, "receiving interface index from IP_PKTINFO"),
    ("884afb67b5", 1, "interface index i32 -> u32: kernel indices are positive"),
    ("39fa54a5f7", 1, "interface index conversion for the raw socket: kernel value"),
    ("0dfdb9faa8", 1, "source address of a datagram received on an AF_INET socket is a sockaddr_in"),
    ("68e9f5214c", 1, "source address of a datagram received on an AF_INET socket is a sockaddr_in"),
    ("90134077b2", 1, "interface index conversion: kernel value"),
    ("b73d7cef78", 1, "system clock earlier than 1970"),
    ("20de02d239", 1, "system clock earlier than 1970"),
    ("8d4b2be7e6", 1, "system clock earlier than 1970"),
    ("222b0f2f65", 1, "now - 10 with now = seconds since 1970"),
    ("58c915c69b", 1, "bucket level (seconds since 1970, at most the cost of one datagram ahead) + cost/TOKENS_PER_SECOND in u32: year 2106"),
    ("1889e1f7e4", 1, "Instant::now() + a random duration below a constant"),
    ("3bf427676e", 1, "operating-system RNG failure"),
    ("da700b9ab1", 1, "operating-system RNG failure"),
    ("520a4d9390", 1, "remote address of a UDP/TCP DNS socket is an IP address"),
    ("43341b128a", 1, "remote address of a UDP/TCP DNS socket is an IP address (other address families never reach the cookie code)"),
    ("284bd6810e", 1, "local address of a received datagram: IP_PKTINFO / IPV6_RECVPKTINFO enabled on the DNS socket"),
    ("80b1e4deb0", 2, "source address of a received datagram is always reported by recvmsg"),
    ("d39023a62f", 1, "local address of an accepted TCP connection"),
    ("6bd8eb597a", 1, "local address of an accepted TCP connection"),
    ("92d7502898", 1, "local address of a connected UDP socket"),
    ("16674eaf0e", 1, "difference of two Instant::now() readings of the monotonic clock, later minus earlier"),
    ("bcfd80baec", 1, "Instant + constant 120 s"),
    ("f7dbcef064", 1, "Instant + constant 120 s"),
    ("06c759d009", 1, "interface table from netlink: the interface a solicitation arrived on is known"),
    ("602cf923c3", 1, "an IPv6-enabled interface always has a link-local address (netlink)"),
    ("c2953f5b87", 1, "interface index conversion: kernel value"),
    ("bb83030d3d", 1, "sockaddr handed out by the kernel has a valid family and length"),
):
    R(h, "env", why, count=n)

# ------------------------------------------------------------------ clock arithmetic on bounded durations
R("c85496bada", "config", "seconds since 1970 + a lease duration already clamped to the policy maximum, in u64: no packet chooses the maximum", props=("C05",))
R("c85496bada", "internal", "seconds since 1970 + a lease duration clamped to Response.maxlease.unwrap_or(86400 s), which nothing sets beyond a constant",
  props=("C19",), requires=("V5", "C10.R4"))
R("8248e5f66d", "internal", "Instant + lifetime, lifetime <= u32::MAX seconds (folded from 32-bit record TTLs or the constant 8 s)", requires=("C06.R3",))
R("a626129d44", "internal", "Instant + lifetime, lifetime <= u32::MAX seconds", requires=("C06.R3",))
R("72e0fc64e3", "internal", "(birth + lifetime) - now on the edge where expiry() >= now", requires=("C06.R2",))
R("2e61caff4b", "internal", "now - birth: birth is an earlier reading of the same monotonic clock")
R("f954ce034e", "internal", "Duration * small constant: dur is a measured round trip below the timeout (<= MAX_DNS_TIMEOUT)")
R("f824cf3ae7", "internal", "Duration * small constant: the shared timeout is clamped to [MIN_DNS_TIMEOUT, MAX_DNS_TIMEOUT] on every store",
  requires=("C07.R10",))
R("c551b98544", "internal", "sum of the two bounded products above")
R("90454f67e9", "internal", "Duration * small constant: dur is a measured round trip")
R("c72bdfceac", "internal", "timeout/2 + jitter < timeout; the retry loop ends after a fixed number of rounds so the timeout stays far below Duration::MAX")
R("5b5e45b5c2", "internal", "timeout += at most 1.5 * timeout for a fixed number of retry rounds")

# ------------------------------------------------------------------ mutexes and channels
R("c3fdd12a00", "internal", "address_cache mutex: the critical sections only touch a HashSet and cannot panic, so the lock is never poisoned", count=3)
R("469778b6a2", "internal", "the cache Option was filled a few lines above under the same call")
R("1b171b2551", "internal", "oneshot send: the requester awaits the receiver with no cancellation point in between", requires=("S4",))
R("3f26c090d5", "internal", "oneshot send: the requester awaits the receiver with no cancellation point in between", requires=("S4",))
R("4c63a904dd", "internal", "oneshot send: the requester awaits the receiver with no cancellation point in between", requires=("S4",))
R("48fba22fcf", "internal", "send_tcp_query is called only after run() has (re)opened self.tcp on the same loop iteration")
R("33b83cdd98", "internal", "read_reply is polled only while self.tcp is Some (the select arm is guarded by it)")
R("b9718c2c5b", "internal", "futures::select! without a complete branch: the mpsc receiver and the timers never all complete")
R("4ba84a4f1f", "internal", "futures::select! without a complete branch: the sleep arm is always pending or ready")
R("70a2ffa08a", "internal", "recv_in_query's Err is matched before the unwrap on the Ok arm")
R("36922c6f41", "internal", "recv_in_query's Err is matched before the unwrap on the Ok arm")
R("4d80141621", "internal", "the set of service futures is non-empty: at least one listener was pushed or new() failed earlier")
R("a73b4599b9", "internal", "JoinError only if a listener task panicked, which is what this property excludes")
for h in ("ae74cf4d8d", "6f515e6407", "7a08c882c5", "7898263e58"):
    R(h, "internal", "fmt::Write for String never returns an error")

# ------------------------------------------------------------------ decoder / encoder agreements
R("e35858ec62", "loop", "v[i] with i from 0..v.len(); the only mutation (truncate) is followed by break")
R("2996a0b99f", "internal", "expiry - start of a lease row: the single lease write stores expiry = start + duration", requires=("C10.R3", "C01.R1"))
R("081d962e6d", "internal", "2 * (u32 difference as u64)")
R("4a36f6da52", "unreach", "the cache sits below the ACL and listener layers: listener/ACL error variants are never produced by what it calls",
  count=5, requires=("S1",))
R("eaf4a031b1", "unreach", "create_in_error receives errors of the handler chain only; listen/accept/recv/parse errors are produced "
  "before a query exists", count=4, requires=("C07.R5",))
R("f13c6cccc5", "internal", "RData::Other is only built by the decoder from get_bytes(rdlen) with rdlen a u16", requires=("C14.R1",))
R("b6ce84023a", "internal", "rcode <= 0xfff: the decoder builds it from a 4-bit field plus an 8-bit extension; local errors are constants", requires=("C14.R2",))
R("83515f7b55", "internal", "record counters: one increment per record of a decoded message, whose section counts are u16; more records "
  "than 65535 cannot fit the size limit first", count=3, requires=("C04.R3",))
for h in ("872241c237", "f0c374f670", "8614637107", "739d43bbc3"):
    R(h, "internal", "patching the 12-octet header that the same function wrote first", requires=("C04.R2",))
R("6f500c9ab2", "internal", "ttl - decrement: a hit is served only while now <= birth + lifetime and lifetime is the minimum TTL over the very "
  "sections that are decremented", count=3, requires=("C06.R1", "C06.R2", "C06.R3"))
R("232ad62f6d", "internal", "Label::from(bytes): the decoder reads 1..63 octets for a label (a zero length ends the name)", requires=("C14.R6",))
R("c2b4296573", "internal", "labels are never empty (Label::from asserts it at construction)")
R("6e7553bc2c", "internal", "labels hold at most 63 octets: the decoder accepts only length octets without the two top bits", requires=("C14.R6",))
R("63a735528d", "internal", "push_prefix is called with a non-empty label list: the root name is written by the caller; the recursion passes a non-empty prefix")
R("dedea7bf5f", "unreach", "a callee that found no node cannot have been given a child, so (None, None) cannot come back")
R("555fb018c7", "internal", "write position + base offset: both bounded by the message size limit", requires=("C04.R3",))
R("a95c54b1c8", "internal", "write position + base offset: both bounded by the message size limit", requires=("C04.R3",))
R("b928934e4f", "internal", "a node is a pointer target only when its offset is below 0x4000", requires=("C14.R3",))
R("52d40a7c0c", "internal", "node offsets are >= 12: every name is written after the header", requires=("C14.R4", "C04.R2"))
R("7532e66d42", "internal", "0xc0 + (offset >> 8) with offset < 0x4000", requires=("C14.R3",))
R("0f1c7121e2", "internal", "0xc0 + (offset >> 8) with offset < 0x4000", requires=("C14.R3",))
R("cc0b823c76", "internal", "character-strings come from get_string, whose length is one octet", requires=("C14.R12",))
R("6271723e32", "internal", "the client cookie is the first 8 octets returned by get_cookie", requires=("S3",))
R("f966cff6de", "internal", "the server cookie is the 32-octet HMAC output")
R("d28506018c", "internal", "the RDATA variant is chosen from the record type by the decoder, so the type asserted for a variant is the type "
  "that selected it", count=3, requires=("C14.R1",))
R("04aec6340c", "internal", "HMAC accepts keys of any length")
R("6b0b444066", "internal", "HMAC-SHA256 output is 32 octets")
R("08eac32c12", "internal", "offset + count: offset <= 0x3fff or <= len(buffer), count <= 65535", count=2)
R("90644cccd8", "internal", "len - offset in the error message: get_bytes runs only after a successful get_u8, so offset <= len (a pointer "
  "jump past the end fails in get_u8 first)")
R("3092b59d64", "internal", "name length accumulator: checked against 254 after every addition of at most 64", requires=("C14.R5",))
R("8a54f9a3cd", "unreach", "the record was selected by rrtype == OPT and the decoder builds RData::Opt for exactly that type", requires=("C14.R1",))
R("2e9c712800", "loop", "dns_routes[route] with route from 0..dns_routes.len() under the same read guard")
R("21878a16be", "loop", "dns_routes[best_route]: an index taken from the same range under the same read guard")
R("332f8c648f", "internal", "best_suffix is set together with best_route")
R("061ac92a02", "internal", "value[..p + 1] with p a position inside value (rposition), or value[..0]")
R("94e434c019", "internal", "p + 1 with p < len(value)")
R("75eb8593d2", "internal", "every option arm pads what it writes to a multiple of 8 octets")
R("e81b6d25f8", "internal", "serialise() is only called with the advertisement erbium built itself; the other message kinds are never sent", count=2)
R("9ba7aae664", "loop", "i + count == len(buffer) is a loop invariant and count > 1", count=2)
R("531e3caf16", "loop", "i + 1 < len(buffer)")
R("b8d3abb7db", "loop", "i + count == len(buffer) is a loop invariant and count > 1")
R("420047cd5d", "loop", "i + 2 <= len(buffer)")
R("47d428e3f3", "internal", "sum of at most 32768 16-bit words per buffer of at most 65535 octets fits u32")
R("6a764779e6", "internal", "sum of at most 32768 16-bit words per buffer of at most 65535 octets fits u32")
R("a9a13530a4", "internal", "(sum >> 16) + (sum & 0xffff) <= 0xffff + 0xffff")
R("4d6470b732", "internal", "sum of two in-memory lengths")

# ================================================================== C19: the loader
C19 = ("C19",)
R("c4ffd76e63", "internal", "UnixAddr::new of a constant path shorter than sun_path", props=C19)
R("c341203487", "internal", "st.as_bytes()[1..] in the arm where st.get(0..1) == Some(\"@\"), so the string has at least one octet", props=C19)
R("a09ae52d51", "internal", "k.as_str().unwrap() inside the arm that matched k.as_str() == Some(\"match-interface\")", props=C19)
R("eb5fb1c324", "internal", "x[6..] in the arms guarded by x.starts_with(\"match-\") / x.starts_with(\"apply-\"), both 6 octets long", count=2, props=C19)
R("79e1895d07", "internal", "network + i with i below the host mask of the same subnet: the network address has zero host bits", props=C19,
  requires=("inv",))
R("5f75373222", "internal", "parse_interface returns Ok(Some(_)) for a hash and Err otherwise; it never returns Ok(None)", props=C19)
R("a8adc4aea8", "internal", "parse_interface returns Ok(Some(_)) for a hash and Err otherwise; it never returns Ok(None)", props=C19)

# ================================================================== C19: configuration-dependent sites of the service scope
R("09b85350de", "internal", "Prefix4::new / Prefix6::new assert the length: the only non-test callers pass prefixlen - 96 of a ::ffff:0:0/96+ prefix "
  "whose length the loader bounded by 128, or the prefix length of an interface address reported by the kernel", count=2, props=C19, requires=("V1",))
R("b7c00e393d", "internal", "network + offset with offset below the host mask of the same prefix (zero host bits in network())", props=C19, requires=("inv",))
R("23d3481b86", "internal", "dest[0] of a forward route: the loader builds a forward route only with a non-empty server list", props=C19, requires=("V3",))
R("886401a65b", "env", "RA source link-layer address option: the address comes from the kernel's link table (6 octets for Ethernet)", props=C19)
R("88f12b364c", "internal", "IPv4 total length: the DHCP reply is framed only when it has at most 65507 octets", props=C19, requires=("V4",))
R("3b271e10e0", "internal", "UDP length: the DHCP reply is framed only when it has at most 65507 octets", props=C19, requires=("V4",))

R("4abc071785", "unreach", "Debug for radv::Void: the type is an enum without variants, no value of it exists to be formatted")

# ================================================================== C20: what the HTTP responders reach
C20 = ("C20",)
R("a62504f0c5", "env", "TextEncoder::encode into a Vec fails only for a metric family without samples or with an invalid name; the families "
  "are the crate's own constant registrations", props=C20)
R("08eac32c12", "internal", "offset + count: offset <= len(buffer) (cursor invariant), count <= 255 (an option length octet)", props=C20, requires=("C05.inv",))

# ------------------------------------------------------------------ loops the termination rule cannot classify
REVIEWED_LOOPS["erbium_net::packet::finish_netsum"] = (
    "while sum > 0xffff { sum = (sum >> 16) + (sum & 0xffff) }: for sum > 0xffff the new value is at most 0xffff + (sum >> 16) < sum, "
    "so the value strictly decreases until it fits 16 bits (at most two rounds for a 32-bit sum); shape checked by C12.R7")
