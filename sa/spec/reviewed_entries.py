from .reviewed import R, REVIEWED_LOOPS
