"""Reviewed *patterns*: reviewed reasons keyed by what a site computes instead of by the spelling of its operands.

An entry of reviewed_entries.py is tied to one shape of one expression; moving that expression into a helper, a closure or an
iterator chain changes the shape and asks for a new review although the argument has not changed.  For the few arguments
that are about *values* (not about the surrounding code) the argument itself is encoded here: the matcher resolves the
operands through closure captures and iterator adaptors to what they denote, and the entry applies when they denote what
the reviewed reason talks about.  Every pattern names the rules that establish the facts it relies on (`requires`), exactly
like a keyed entry.

A pattern is tried only after the engine failed to discharge the site and no keyed entry matched.
"""
from ..util import *
from ..prov import norm, subterms, show
from .. import oblig


def _adaptor_site(P, body):
    """for a closure handed to an iterator adaptor: (parent body, block, [argument terms in the parent]) of that call"""
    if body.kind != "closure" or not body.parent or body.parent not in P.bodies:
        return None
    par = P.bodies[body.parent]
    T = terms(P, par)
    for bb, tm in par.calls():
        args = T.call_args(bb)
        for a in args[1:]:
            if closure_def_of_term(a) == body.id:
                return par, bb, tm, [norm(x) for x in args]
    return None


ITEM_PRESERVING = ("filter", "rev", "into_iter", "inspect", "skip", "take", "skip_while", "take_while", "step_by", "peekable", "fuse", "by_ref")
ITEM_CONSUMERS = ("map", "for_each", "filter", "filter_map", "flat_map", "all", "any", "find", "position", "take_while", "skip_while", "inspect")


def _range_of_source(t):
    """the half-open integer range an iterator expression draws its items from, through adaptors that only drop items"""
    t = norm(t)
    for _ in range(12):
        if t[0] in ("ref", "deref"):
            t = norm(t[1])
            continue
        if t[0] == "call" and isinstance(t[1], str) and t[1].rsplit("::", 1)[-1] in ITEM_PRESERVING and t[2]:
            t = norm(t[2][0])
            continue
        break
    if t[0] == "agg" and t[1] == "std::ops::Range":
        f = dict(t[3])
        return norm(f["start"]), norm(f["end"])
    return None


def _offset_range(P, body, t):
    """(start, end, body in whose terms they are written) when `t` is drawn from a half-open range start..end"""
    t = norm(t)
    while t[0] == "cast":
        t = norm(t[3])
    # the variable of `for i in s..e`
    if t[0] == "payload" and t[1] == "Some" and norm(t[2])[0] == "call" and str(norm(t[2])[1]).endswith("::next") and \
            "Iterator for std::ops::Range<" in str(norm(t[2])[1]):
        for y in subterms(norm(t[2])):
            if y[0] == "agg" and y[1] == "std::ops::Range":
                f = dict(y[3])
                return norm(f["start"]), norm(f["end"]), body
    # the item parameter of a closure handed to an adaptor over such a range
    if t in (("param", 2), ("deref", ("param", 2))):
        site = _adaptor_site(P, body)
        if site is not None:
            par, bb, tm, args = site
            if (callee_name(tm) or "").rsplit("::", 1)[-1] in ITEM_CONSUMERS and "Iterator" in (callee_name(tm) or ""):
                r = _range_of_source(args[0])
                if r is not None:
                    return r[0], r[1], par
    return None


def _is_host_mask(t):
    """u32::MAX >> prefixlen, in either spelling (plain shift, or checked_shr(..).unwrap_or(0)); the shift count must be a
    prefix length as stored (no arithmetic on it)"""
    def plen(x):
        x = norm(x)
        while x[0] in ("cast", "call") and (x[0] == "cast" or (str(x[1]).rsplit("::", 1)[-1] in ("from", "into") and len(x[2]) == 1)):
            x = norm(x[3] if x[0] == "cast" else x[2][0])
        return x[0] == "field" and x[2] == "prefixlen"
    t = norm(t)
    for y in subterms(t):
        if y[0] == "bin" and y[1] in ("Shr", "ShrUnchecked") and is_const(norm(y[2]), 0xffffffff) and plen(y[3]):
            return True
        if y[0] == "call" and str(y[1]).endswith("::checked_shr") and len(y[2]) == 2 and is_const(norm(y[2][0]), 0xffffffff) and plen(y[2][1]):
            return True
    return False


def _network_u32(P, body, t):
    """the prefix whose network address `t` is (as a u32), or None"""
    body2, t = lift(P, body, t)
    t = norm(t)
    while t[0] in ("cast", "deref", "ref"):
        t = norm(t[3] if t[0] == "cast" else t[1])
    # u32::from(x.network()) / x.network().into() (the conversion is transparent to the provenance terms)
    if t[0] == "call" and str(t[1]).rsplit("::", 1)[-1] in ("from", "into") and "Ipv4Addr" in str(t[1]) and len(t[2]) == 1:
        t = norm(t[2][0])
        while t[0] in ("deref", "ref"):
            t = norm(t[1])
    if t[0] == "call" and str(t[1]).rsplit("::", 1)[-1] == "network" and ("Ipv4Subnet" in str(t[1]) or "Prefix4" in str(t[1])):
        return t
    return None


def host_offset(P, D, s):
    if s.kind != "overflow" or s.what != "Overflow(Add)":
        return None
    body = s.body
    pr = D.prover(body)
    n = len(body.blocks[s.bb]["stmts"])
    a, b = [pr.T.operand(o, s.bb, n) for o in s.ops[:2]]
    for base, off in ((a, b), (b, a)):
        net = _network_u32(P, body, base)
        rng = _offset_range(P, body, off)
        if net is None or rng is None:
            continue
        start, end, rbody = rng
        _, end = lift(P, rbody, end)
        lo = const_of(start)
        if isinstance(lo, int) and lo >= 0 and _is_host_mask(end):
            return {"class": "internal", "requires": ("C02.R1", "inv"), "pattern": "host-offset",
                    "why": "network() + offset with offset drawn from %s..(u32::MAX >> prefix length): the network address has zero host "
                           "bits and the offset has only host bits, so the sum cannot carry out of 32 bits (the pairing of range and "
                           "network address is C02.R1's, the prefix-length range is the verified field invariant)" % lo}
    return None


def _strip_refs(t):
    t = norm(t)
    for _ in range(12):
        if t[0] in ("ref", "deref"):
            t = norm(t[1])
        elif t[0] == "call" and len(t[2]) == 1 and str(t[1]).rsplit("::", 1)[-1] in ("deref", "deref_mut", "as_slice", "as_ref", "borrow", "as_mut_slice"):
            t = norm(t[2][0])
        else:
            break
    return t


def _enumerated_collection(P, body, call_term, T=None):
    """for `<Enumerate<I> as Iterator>::next(&mut it)`: the collection `it` walks (term), following the definition of `it` back
    through into_iter / enumerate / iter / deref"""
    T = T or terms(P, body)
    bb = call_term[3]
    tm = body.blocks[bb]["term"]
    if tm is None or tm.get("k") != "call" or not tm["args"]:
        return None
    bp = borrowed_place(T, tm["args"][0], bb, len(body.blocks[bb]["stmts"]))
    if bp is None or len(bp) != 1:
        return None
    cur = bp[0]
    for _ in range(8):
        defs = [(b2, t2) for b2, t2 in body.calls() if tuple(t2["dest"]) == (cur,)]
        if not defs:
            moves = [st for _, _, st in body.stmts() if tuple(st["p"]) == (cur,) and st.get("rv") and st["rv"]["k"] == "use" and op_place(st["rv"]["op"])]
            if len(moves) == 1 and len(op_place(moves[0]["rv"]["op"])) == 1:
                cur = op_place(moves[0]["rv"]["op"])[0]
                continue
            return None
        if len(defs) != 1:
            return None
        b2, t2 = defs[0]
        last = (callee_name(t2) or "").rsplit("::", 1)[-1]
        if last in ("into_iter", "enumerate", "by_ref") and t2["args"]:
            pl = op_place(t2["args"][0])
            if pl is None or len(pl) != 1:
                return None
            cur = pl[0]
            continue
        if last in ("iter", "iter_mut") and t2["args"]:
            return _strip_refs(T.call_args(b2)[0])
        return None
    return None


def index_from_own_enumeration(P, D, s, prop=None):
    """v[i] where every value i can take was handed out by `v.iter().enumerate()` (possibly kept in an Option and unpacked later):
    such an index is below v.len() as long as v is the same vector, which it is under one read guard"""
    if s.kind != "index" or len(s.ops) != 2:
        return None
    body = s.body
    pr = D.prover(body)
    n = len(body.blocks[s.bb]["stmts"])
    base = _strip_refs(pr.T.operand(s.ops[0], s.bb, n))
    idx = norm(pr.T.operand(s.ops[1], s.bb, n))
    leaves, todo = [], [idx]
    while todo:
        x = norm(todo.pop())
        if x[0] == "phi":
            todo.extend(x[1])
        elif x[0] == "cast":
            todo.append(x[3])
        elif x[0] == "payload" and x[1] == "Some" and norm(x[2])[0] == "agg" and norm(x[2])[2] == "None":
            continue                      # the Some payload of a None: not a value
        elif (x[0] == "field" and norm(x[1])[0] == "payload" and norm(norm(x[1])[2])[0] == "rec") or (x[0] == "payload" and norm(x[2])[0] == "rec") or x[0] == "rec":
            continue                      # the variable's own earlier value (`else { best }`): whatever the other alternatives are
        elif x[0] == "field" and norm(x[1])[0] == "payload" and norm(x[1])[1] == "Some" and norm(norm(x[1])[2])[0] == "agg" and norm(norm(x[1])[2])[2] == "None":
            continue                      # ... nor is a field of it
        elif x[0] == "field" and norm(x[1])[0] == "payload" and norm(x[1])[1] == "Some" and norm(norm(x[1])[2])[0] == "phi":
            todo.extend(("field", ("payload", "Some", y), x[2]) for y in norm(norm(x[1])[2])[1])
        elif x[0] == "field" and norm(x[1])[0] == "payload" and norm(x[1])[1] == "Some" and norm(norm(x[1])[2])[0] == "agg" and \
                norm(norm(x[1])[2])[2] == "Some" and norm(norm(norm(x[1])[2])[3][0][1])[0] == "agg":
            inner = dict(norm(norm(norm(x[1])[2])[3][0][1])[3])       # Some((a, b)).0  ->  a
            if x[2] in inner:
                todo.append(inner[x[2]])
            else:
                leaves.append(x)
        elif x[0] == "payload" and x[1] == "Some" and norm(x[2])[0] in ("phi", "agg") and norm(x[2])[0] == "phi":
            todo.extend(("payload", "Some", y) for y in norm(x[2])[1])
        elif x[0] == "payload" and x[1] == "Some" and norm(x[2])[0] == "agg" and norm(x[2])[2] == "Some":
            todo.append(norm(x[2])[3][0][1])
        else:
            leaves.append(x)
    if not leaves:
        return None
    for x in leaves:
        if not (x[0] == "field" and x[2] == "0" and norm(x[1])[0] == "payload" and norm(norm(x[1])[2])[0] == "call" and
                "Enumerate" in str(norm(norm(x[1])[2])[1]) and str(norm(norm(x[1])[2])[1]).endswith("::next")):
            return None
        coll = _enumerated_collection(P, body, norm(norm(x[1])[2]), pr.T)
        if coll is None or oblig.canon(coll) != oblig.canon(base):
            return None
    return {"class": "loop", "requires": (), "pattern": "index-from-own-enumeration",
            "why": "the index was handed out by iter().enumerate() over the same collection (%s), read under the same guard: it is below its length" % show(base)[:60]}


def forward_route_first_server(P, D, s, prop=None):
    """route.dest[0] in the Forward arm: the loader builds a forward route only with a non-empty server list (C19.V3)"""
    if s.kind != "index" or len(s.ops) != 2:
        return None
    body = s.body
    pr = D.prover(body)
    n = len(body.blocks[s.bb]["stmts"])
    base = _strip_refs(pr.T.operand(s.ops[0], s.bb, n))
    idx = norm(pr.T.operand(s.ops[1], s.bb, n))
    if not is_const(idx, 0):
        return None
    alts = [base]
    if base[0] == "phi":
        alts = [_strip_refs(y) for y in base[1] if not (norm(y)[0] == "payload" and norm(norm(y)[2])[0] == "agg" and norm(norm(y)[2])[2] == "None")]
    for a_ in alts:
        if not (a_[0] == "payload" and a_[1] == "Forward" and _strip_refs(a_[2])[0] == "field" and _strip_refs(a_[2])[2] == "dest"):
            return None
        ty = pr.ranger.typer.of(oblig.canon(norm(_strip_refs(a_[2])[1]))) or ""
        if ty and not oblig._strip_ref(ty).endswith("dns::config::Route"):
            return None            # (Handler::Forward is the only `Forward` variant with a `dest` field in front of it)
    if not alts:
        return None
    if prop == "C05":
        return {"class": "config", "requires": (), "pattern": "forward-route-first-server",
                "why": "dest[0] of a forward route: the server list comes from the configuration"}
    return {"class": "internal", "requires": ("V3",), "pattern": "forward-route-first-server",
            "why": "dest[0] of a forward route: the loader builds a forward route only with a non-empty server list"}


def pointer_high_octet(P, D, s, prop=None):
    """0xC0 + (node.data >> 8) as u8 in the name writer: a suffix-tree node is chosen as a pointer target only when its offset is below
    0x4000 (C14.R3), so the high octet of the offset is below 0x40 however the chosen node reaches this line"""
    if s.kind != "overflow" or s.what != "Overflow(Add)" or not s.body.id.split("::{")[0].endswith("dns::dnspkt::push_prefix"):
        return None
    body = s.body
    pr = D.prover(body)
    n = len(body.blocks[s.bb]["stmts"])
    a, b = [norm(pr.T.operand(o, s.bb, n)) for o in s.ops[:2]]
    for c, v in ((a, b), (b, a)):
        if not is_const(c, 0xC0):
            continue
        while v[0] == "cast":
            v = norm(v[3])
        if v[0] == "index" and v[2] == "[0]" and norm(v[1])[0] == "call" and str(norm(v[1])[1]).endswith("u16>::to_be_bytes"):
            v = ("bin", "Shr", norm(v[1])[2][0], ("const", 8))          # the high octet of a 16-bit value
        if not (v[0] == "bin" and v[1] in ("Shr", "ShrUnchecked") and is_const(norm(v[3]), 8)):
            continue
        x = norm(v[2])
        alts = [x]
        for _ in range(4):
            alts = [z for y in alts for z in ([norm(q) for q in y[1]] if y[0] == "phi" else [y])]
        if alts and all(y[0] == "field" and y[2] == "data" for y in alts):
            return {"class": "internal", "requires": ("C14.R3",), "pattern": "pointer-high-octet",
                    "why": "0xc0 + (offset >> 8) of a suffix-tree node: a node is a pointer target only when its offset is below 0x4000"}
    return None


def checksum_addend(P, D, s, prop=None):
    """sum += <a 16-bit word> in the Internet checksum: at most 32768 words of at most 16 bits per buffer of at most 65535 octets fit
    the 32-bit accumulator, however the word is put together (C12.R7 checks that every addend is at most 16 bits wide)"""
    if s.kind != "overflow" or s.what != "Overflow(Add)" or not s.body.id.split("::{")[0].endswith("erbium_net::packet::partial_netsum"):
        return None
    pr = D.prover(s.body)
    n = len(s.body.blocks[s.bb]["stmts"])
    ws = sorted(bit_width(pr.T.operand(o, s.bb, n)) for o in s.ops[:2])
    if ws[0] <= 16 and ws[1] == 32:
        return {"class": "internal", "requires": ("C12.R7",), "pattern": "checksum-addend",
                "why": "sum of at most 32768 16-bit words per buffer of at most 65535 octets fits u32"}
    return None


PATTERNS = [host_offset, index_from_own_enumeration, forward_route_first_server, pointer_high_octet, checksum_addend]


def match(P, D, s, prop):
    for p in PATTERNS:
        try:
            e = p(P, D, s, prop) if p is not host_offset else p(P, D, s)
        except Exception:
            e = None
        if e is not None:
            return e
    return None
