"""Reviewed *patterns*: reviewed reasons keyed by what a site computes instead of by the spelling of its operands.

An entry of reviewed_entries.py is tied to one shape of one expression; moving that expression into a helper, a closure or an
iterator chain changes the shape and asks for a new review although the argument has not changed.  For the few arguments
that are about *values* (not about the surrounding code) the argument itself is encoded here: the matcher resolves the
operands through closure captures and iterator adaptors to what they denote, and the entry applies when they denote what
the reviewed reason talks about.  Every pattern names the rules that establish the facts it relies on (`requires`), exactly
like a keyed entry.

A pattern is tried only after the engine failed to discharge the site and no keyed entry matched.
"""
from ..util import *
from ..prov import norm, subterms, show
from .. import oblig


def _adaptor_site(P, body):
    """for a closure handed to an iterator adaptor: (parent body, block, [argument terms in the parent]) of that call"""
    if body.kind != "closure" or not body.parent or body.parent not in P.bodies:
        return None
    par = P.bodies[body.parent]
    T = terms(P, par)
    for bb, tm in par.calls():
        args = T.call_args(bb)
        for a in args[1:]:
            if closure_def_of_term(a) == body.id:
                return par, bb, tm, [norm(x) for x in args]
    return None


ITEM_PRESERVING = ("filter", "rev", "into_iter", "inspect", "skip", "take", "skip_while", "take_while", "step_by", "peekable", "fuse", "by_ref")
ITEM_CONSUMERS = ("map", "for_each", "filter", "filter_map", "flat_map", "all", "any", "find", "position", "take_while", "skip_while", "inspect")


def _range_of_source(t):
    """the half-open integer range an iterator expression draws its items from, through adaptors that only drop items"""
    t = norm(t)
    for _ in range(12):
        if t[0] in ("ref", "deref"):
            t = norm(t[1])
            continue
        if t[0] == "call" and isinstance(t[1], str) and t[1].rsplit("::", 1)[-1] in ITEM_PRESERVING and t[2]:
            t = norm(t[2][0])
            continue
        break
    if t[0] == "agg" and t[1] == "std::ops::Range":
        f = dict(t[3])
        return norm(f["start"]), norm(f["end"])
    return None


def _offset_range(P, body, t):
    """(start, end, body in whose terms they are written) when `t` is drawn from a half-open range start..end"""
    t = norm(t)
    while t[0] == "cast":
        t = norm(t[3])
    # the variable of `for i in s..e`
    if t[0] == "payload" and t[1] == "Some" and norm(t[2])[0] == "call" and str(norm(t[2])[1]).endswith("::next") and \
            "Iterator for std::ops::Range<" in str(norm(t[2])[1]):
        for y in subterms(norm(t[2])):
            if y[0] == "agg" and y[1] == "std::ops::Range":
                f = dict(y[3])
                return norm(f["start"]), norm(f["end"]), body
    # the item parameter of a closure handed to an adaptor over such a range
    if t in (("param", 2), ("deref", ("param", 2))):
        site = _adaptor_site(P, body)
        if site is not None:
            par, bb, tm, args = site
            if (callee_name(tm) or "").rsplit("::", 1)[-1] in ITEM_CONSUMERS and "Iterator" in (callee_name(tm) or ""):
                r = _range_of_source(args[0])
                if r is not None:
                    return r[0], r[1], par
    return None


def _is_host_mask(t):
    """u32::MAX >> prefixlen, in either spelling (plain shift, or checked_shr(..).unwrap_or(0)); the shift count must be a
    prefix length as stored (no arithmetic on it)"""
    def plen(x):
        x = norm(x)
        while x[0] in ("cast", "call") and (x[0] == "cast" or (str(x[1]).rsplit("::", 1)[-1] in ("from", "into") and len(x[2]) == 1)):
            x = norm(x[3] if x[0] == "cast" else x[2][0])
        return x[0] == "field" and x[2] == "prefixlen"
    t = norm(t)
    for y in subterms(t):
        if y[0] == "bin" and y[1] in ("Shr", "ShrUnchecked") and is_const(norm(y[2]), 0xffffffff) and plen(y[3]):
            return True
        if y[0] == "call" and str(y[1]).endswith("::checked_shr") and len(y[2]) == 2 and is_const(norm(y[2][0]), 0xffffffff) and plen(y[2][1]):
            return True
    return False


def _network_u32(P, body, t):
    """the prefix whose network address `t` is (as a u32), or None"""
    body2, t = lift(P, body, t)
    t = norm(t)
    while t[0] in ("cast", "deref", "ref"):
        t = norm(t[3] if t[0] == "cast" else t[1])
    # u32::from(x.network()) / x.network().into() (the conversion is transparent to the provenance terms)
    if t[0] == "call" and str(t[1]).rsplit("::", 1)[-1] in ("from", "into") and "Ipv4Addr" in str(t[1]) and len(t[2]) == 1:
        t = norm(t[2][0])
        while t[0] in ("deref", "ref"):
            t = norm(t[1])
    if t[0] == "call" and str(t[1]).rsplit("::", 1)[-1] == "network" and ("Ipv4Subnet" in str(t[1]) or "Prefix4" in str(t[1])):
        return t
    return None


def host_offset(P, D, s):
    if s.kind != "overflow" or s.what != "Overflow(Add)":
        return None
    body = s.body
    pr = D.prover(body)
    n = len(body.blocks[s.bb]["stmts"])
    a, b = [pr.T.operand(o, s.bb, n) for o in s.ops[:2]]
    for base, off in ((a, b), (b, a)):
        net = _network_u32(P, body, base)
        rng = _offset_range(P, body, off)
        if net is None or rng is None:
            continue
        start, end, rbody = rng
        _, end = lift(P, rbody, end)
        lo = const_of(start)
        if isinstance(lo, int) and lo >= 0 and _is_host_mask(end):
            return {"class": "internal", "requires": ("C02.R1", "inv"), "pattern": "host-offset",
                    "why": "network() + offset with offset drawn from %s..(u32::MAX >> prefix length): the network address has zero host "
                           "bits and the offset has only host bits, so the sum cannot carry out of 32 bits (the pairing of range and "
                           "network address is C02.R1's, the prefix-length range is the verified field invariant)" % lo}
    return None


PATTERNS = [host_offset]


def match(P, D, s, prop):
    for p in PATTERNS:
        try:
            e = p(P, D, s)
        except Exception:
            e = None
        if e is not None:
            return e
    return None
