"""C20 — lease listing is valid JSON with one entry per row; gauges report active/expired truthfully (structural clauses)."""
from ..util import *
from ..prov import strip, norm, show, subterms
from ..cfg import cfg_of
from ..callgraph import callgraph
from ..poolmodel import *
from ..fmtargs import fmt_sites
from ..sql import conjuncts

EXPLANATION = ("SQL-shape + provenance + format-typing rules: the metrics query's `active` column counts rows with expiry > now "
               "(or >=), `expired` the complement, NULL-safe over an empty table, and column k flows to the gauge whose metric "
               "name says active/expired; the listing query has no WHERE/LIMIT and the rendering has no filter/take; every "
               "value interpolated into the application/json body is JSON-inert by (format trait, type) or passes through an "
               "escaper whose body handles quote, backslash and control characters")
ASSUMPTIONS = ["not decided: numeric equality of gauges and row counts (no store is executed)",
               "trusted: Display of integers / Ipv4Addr and LowerHex of integers emit only [0-9a-fx.:] characters"]
EXPLANATION += "; also: every exit of the gauge refresher has run the query and the metrics page is rendered after it; the obligation engine covers everything the two responders reach; C18's migrated-column rule is evaluated here too"
EXTRA_CONFIGS = []

INT_TYS = {"u8", "u16", "u32", "u64", "u128", "usize", "i8", "i16", "i32", "i64", "i128", "isize"}
INERT_DISPLAY_TYS = INT_TYS | {"std::net::Ipv4Addr", "std::net::Ipv6Addr", "std::net::IpAddr", "bool"}
STRINGY = ("std::string::String", "str", "&str", "std::borrow::Cow<'_, str>")


def _base_ty(t):
    t = t.strip()
    while t.startswith("&"):
        t = t[1:].strip()
        if t.startswith("mut "):
            t = t[4:]
        if t.startswith("'"):
            t = t.split(" ", 1)[1] if " " in t else t
    return t


class Json:
    def __init__(self, ctx):
        self.ctx = ctx
        self.P = ctx.P
        self.sites = 0
        self.problems = []   # (key, where, detail)
        self.seen_sites = set()
        self.sanitisers = {}

    def lit_ok(self, s):
        return True  # template literals are the JSON syntax the author wrote; only interpolated values are judged

    def check_site(self, site, where_body):
        P = self.P
        key = (site.body.id, site.bb)
        if key in self.seen_sites:
            return
        self.seen_sites.add(key)
        self.sites += 1
        self.ctx.saw(site.body)
        where = self.ctx.where(site.body, site.body.blocks[site.bb]["term"]["sp"])
        if site.pieces is None:
            self.problems.append(("json-format:undecodable", where, "cannot decode the format template"))
            return
        for p in site.pieces:
            if p[0] != "arg":
                continue
            if p[1] >= len(site.args):
                self.problems.append(("json-format:missing-arg", where, "placeholder without argument"))
                continue
            trait, val, vty = site.args[p[1]]
            bt = _base_ty(vty)
            spec = p[2] if len(p) > 2 else {}
            # where the placeholder stands: after `\u` it is the four hex digits of an escape, otherwise a bare value
            k = site.pieces.index(p)
            before = site.pieces[k - 1][1] if k > 0 and site.pieces[k - 1][0] == "lit" else ""
            if trait in ("lower_hex", "upper_hex") and bt in INT_TYS and before.endswith("\\u"):
                if not (spec.get("width") == 4 and spec.get("flags") is not None and spec.get("flags") & 0x01000000 or
                        (spec.get("width") == 4 and spec.get("flags") not in (None, 0))):
                    self.problems.append(("json-escape:\\u-needs-four-hex-digits", where,
                                          "a JSON \\u escape is exactly four hex digits ({:04x}); the placeholder's width is %s" % spec.get("width")))
                continue
            if trait in ("lower_hex", "upper_hex", "octal", "binary") and bt in INT_TYS:
                continue
            if trait in ("display", "debug") and bt in INT_TYS:
                # a JSON number has no padding: leading zeros or blanks inside a number are not JSON
                if spec.get("width") or spec.get("precision"):
                    self.problems.append(("json-number:padded", where,
                                          "an integer is written with a field width (%s): a zero-padded number is not a JSON number" % spec.get("width")))
                continue
            if trait == "display" and bt in INERT_DISPLAY_TYS:
                continue
            if trait == "display" and bt in STRINGY:
                okk, why = self.inert_string(site.body, val, 0)
                if not okk:
                    self.problems.append(("json-arg:display:%s:unescaped" % bt, where,
                                          "a string is interpolated into the JSON body without JSON escaping: %s (%s)" % (show(val)[:120], why)))
                continue
            if trait == "debug":
                self.problems.append(("json-arg:debug:%s" % bt, where,
                                      "`{:?}` of %s is Rust debug syntax, not JSON (e.g. \\u{7f}, \\0, \\' are not JSON escapes): in %r" % (bt, site.text()[:80])))
                continue
            self.problems.append(("json-arg:%s:%s" % (trait, bt), where, "cannot show that %s of %s is JSON-inert" % (trait, bt)))

    def closure_returns_inert(self, cid, depth):
        P = self.P
        b = P.bodies.get(cid)
        if b is None:
            return False, "closure body not found"
        T = terms(P, b)
        self.ctx.saw(b)
        alts = []
        for bb, idx, s in b.stmts():
            if s["p"] == (0,) and "rv" in s:
                alts.append(norm(T.rvalue(s["rv"], bb, idx)))
        for bb, tm in b.calls():
            if tm["dest"] == (0,):
                alts.append(norm(T.call_term(tm, bb)))
        if not alts:
            return False, "no return value found"
        for a in alts:
            okk, why = self.inert_string(b, a, depth + 1)
            if not okk:
                return False, why
        return True, ""

    def is_sanitiser(self, fid):
        """a local fn &str -> String whose body distinguishes '"', '\\\\' and control characters"""
        if fid in self.sanitisers:
            return self.sanitisers[fid]
        P = self.P
        res = False
        sig = P.sigs.get(fid)
        if sig and fid in P.bodies and sig_output(sig) == "std::string::String" and len(sig["inputs"]) == 1 and _base_ty(sig["inputs"][0]) == "str":
            consts = set()
            cmp20 = False
            for b in P.family(fid):
                for bb, tm in b.terms():
                    if tm["k"] == "switch":
                        for v, _ in tm["targets"]:
                            consts.add(v)
                for bb, idx, s in b.stmts():
                    rv = s.get("rv")
                    if rv and rv["k"] == "bin" and rv["op"] in ("Lt", "Le", "Ge", "Gt", "Eq", "Ne"):
                        for o in (rv["a"], rv["b"]):
                            k = o.get("k")
                            if k is not None:
                                from ..facts import const_int
                                v = const_int(k)
                                if v is not None:
                                    consts.add(v)
                                    if v in (0x20, 0x1f):
                                        cmp20 = True
                for bb, tm in b.calls():
                    if (callee_name(tm) or "").endswith("is_control") or (callee_name(tm) or "").endswith("is_ascii_control"):
                        cmp20 = True
            res = 0x22 in consts and 0x5c in consts and cmp20
            # every escape sequence the function can emit must be a JSON escape (RFC 8259 section 7)
            valid = {'\\"', "\\\\", "\\/", "\\b", "\\f", "\\n", "\\r", "\\t"}
            bad_esc = []
            for b in P.family(fid):
                for st in body_strings(b):
                    if st.startswith("\\") and st not in valid:
                        bad_esc.append(st)
                for fs in fmt_sites(P, b):
                    if fs.pieces:
                        for pc in fs.pieces:
                            if pc[0] == "lit" and pc[1].startswith("\\") and not pc[1].startswith("\\u") and pc[1] not in valid:
                                bad_esc.append(pc[1])
            # every path through the escaper escapes: no returned value may contain the argument itself (only what was rebuilt from
            # its characters) — `if all_printable { return format!("\"{}\"", s) }` lets '"' and '\\' through
            fbody = P.bodies[fid]
            Tf = terms(P, fbody)
            rets = []
            for bb, idx, st in fbody.stmts():
                if st["p"] == (0,) and "rv" in st:
                    rets.append(norm(Tf.rvalue(st["rv"], bb, idx)))
            for bb, tm in fbody.calls():
                if tm["dest"] == (0,):
                    rets.append(norm(Tf.call_term(tm, bb)))

            def raw_use(t, parent=None, depth=0):
                if depth > 40:
                    return False
                if t == ("param", 1):
                    return parent not in ("len", "chars", "bytes", "char_indices", "is_empty", "as_bytes", "iter", "encode_utf16")
                if t[0] == "call":
                    nm = str(t[1]).rsplit("::", 1)[-1]
                    if nm == "format" or str(t[1]).startswith("std::fmt::Arguments"):
                        # the pieces of a format_args! are found through the format site
                        for fs in fmt_sites(P, fbody):
                            if fs.bb == t[3] or (t[2] and norm(t[2][0])[0] == "call" and norm(t[2][0])[3] == fs.bb):
                                if any(norm(a[1]) == ("param", 1) or raw_use(norm(a[1]), "format", depth + 1) for a in fs.args):
                                    return True
                    return any(raw_use(norm(a), nm, depth + 1) for a in t[2])
                if t[0] == "phi":
                    return any(raw_use(norm(x), parent, depth + 1) for x in t[1])
                if t[0] in ("field", "payload", "cast"):
                    return raw_use(norm(t[-1] if t[0] == "cast" else (t[2] if t[0] == "payload" else t[1])), parent, depth + 1)
                return False
            if res and any(raw_use(r) for r in rets):
                self.problems.append(("json-escaper:path-returns-the-argument-unescaped", self.ctx.where(fbody),
                                      "the JSON escaper has a path on which the returned string contains its argument as is; '\"' and '\\' "
                                      "(and anything else that path admits) reach the document unescaped"))
            if bad_esc:
                self.problems.append(("json-escaper:invalid-escape:%s" % bad_esc[0].encode("unicode_escape").decode(), self.ctx.where(P.bodies[fid]),
                                      "the JSON escaper emits %r, which is not one of the escapes JSON allows (\\\" \\\\ \\/ \\b \\f \\n \\r \\t \\uXXXX)" % bad_esc[0]))
        self.sanitisers[fid] = res
        return res

    def inert_string(self, body, t, depth):
        P = self.P
        if depth > 12:
            return False, "too deep"
        t = norm(t)
        k = t[0]
        if k == "phi":
            for x in t[1]:
                okk, why = self.inert_string(body, x, depth + 1)
                if not okk:
                    return okk, why
            return True, ""
        if k == "const":
            if isinstance(t[1], str):
                bad = [c for c in t[1] if c in '"\\' or ord(c) < 0x20]
                return (not bad), "literal contains characters needing escape"
            return False, "non-string constant"
        if k == "agg" and t[1].endswith("Option"):
            if t[2] == "None":
                return True, ""
            return self.inert_string(body, t[3][0][1], depth + 1)
        if k == "payload":
            return self.inert_string(body, t[2], depth + 1)
        if k == "call":
            n = t[1] if isinstance(t[1], str) else ""
            a = t[2]
            if n in ("std::hint::must_use",):
                return self.inert_string(body, a[0], depth + 1)
            if n == "std::fmt::format":
                inner = norm(a[0])
                if inner[0] == "call" and str(inner[1]).startswith("std::fmt::Arguments"):
                    for s in fmt_sites(P, body):
                        if s.bb == inner[3]:
                            before = len(self.problems)
                            self.check_site(s, body)
                            return True, ""  # problems inside are reported at that site
                return False, "format arguments not found"
            if n.endswith("::join"):
                okk, why = self.inert_string(body, a[0], depth + 1)
                if not okk:
                    return okk, why
                sep = norm(a[1])
                if sep[0] == "const" and isinstance(sep[1], str):
                    return True, ""  # an authored separator is document syntax, like the template literals
                return self.inert_string(body, a[1], depth + 1)
            if n == "std::iter::Iterator::collect":
                return self.inert_string(body, a[0], depth + 1)
            if n.rsplit("::", 1)[-1] in ("new", "with_capacity") and ("std::vec::Vec" in n or "std::string::String" in n) and len(t) > 3:
                # a collection filled by hand: what it holds is what is pushed into it in this body
                tmc = body.blocks[t[3]]["term"]
                if tmc is not None and tmc.get("k") == "call" and len(tmc["dest"]) == 1:
                    L = tmc["dest"][0]
                    Tb = terms(P, body)
                    fills = []
                    for bb2, tm2 in body.calls():
                        last2 = (callee_name(tm2) or "").rsplit("::", 1)[-1]
                        if not tm2["args"]:
                            continue
                        bp = borrowed_place(Tb, tm2["args"][0], bb2, len(body.blocks[bb2]["stmts"]))
                        if bp is None or bp[0] != L:
                            continue
                        if last2 in ("push", "push_str", "extend", "extend_from_slice", "insert", "append", "push_back"):
                            fills.append(Tb.call_args(bb2)[-1])
                        elif last2 not in ("len", "is_empty", "join", "iter", "as_slice", "deref", "as_str", "capacity", "reserve", "concat"):
                            return False, "the collection is changed through %s" % last2
                    for v in fills:
                        okk, why = self.inert_string(body, v, depth + 1)
                        if not okk:
                            return okk, why
                    return True, ""
            if n in ("std::iter::Iterator::map", "std::option::Option::<T>::map"):
                cid = closure_def_of(a[1])
                if cid:
                    return self.closure_returns_inert(cid, depth)
                return False, "mapped through an unknown function"
            if n in ("std::option::Option::<T>::unwrap", "std::option::Option::<T>::expect", "std::option::Option::<T>::unwrap_or_default"):
                return self.inert_string(body, a[0], depth + 1)
            if n in ("std::option::Option::<T>::unwrap_or", "std::option::Option::<T>::or"):
                okk, why = self.inert_string(body, a[0], depth + 1)
                if not okk:
                    return okk, why
                return self.inert_string(body, a[1], depth + 1)
            if n in ("std::option::Option::<T>::unwrap_or_else", "std::option::Option::<T>::or_else"):
                okk, why = self.inert_string(body, a[0], depth + 1)
                if not okk:
                    return okk, why
                cid = closure_def_of(a[1])
                if cid:
                    return self.closure_returns_inert(cid, depth)
                return False, "alternative produced by an unknown function"
            if n.endswith("ToString>::to_string") or n == "std::string::ToString::to_string":
                return self.inert_string(body, a[0], depth + 1)
            if n in P.bodies and self.is_sanitiser(n):
                return True, ""
            return False, "result of %s is not known to be JSON-safe" % n
        return False, "raw value %s" % show(t)[:80]


def run(ctx):
    P = ctx.P
    cg = callgraph(P)
    M = PoolModel(P, cg)
    _r1_r4(ctx, M, cg)
    _r3(ctx, M, cg)
    _r2(ctx)
    _r6_renders_whatever_is_stored(ctx, cg)
    _r7_gauges_move_together(ctx)
    _r8_escaper_writes_json_escapes(ctx)
    # a lease whose row cannot be read is a lease missing from the listing: how the columns are read belongs to C18
    ctx.include("C18", rules=("R10",))
    # the gauges are computed from the rows at the time of the scrape: the pool keeps no copy of a count that time alone makes stale
    ctx.include("C18", rules=("R7",))


def _agg_items(st):
    out = {}
    for k, (e, alias) in enumerate(st["items"]):
        if alias:
            out[alias] = (k, e)
    return out


def _count_case(e):
    """SUM(CASE WHEN <cmp expiry ? param> THEN 1 ELSE 0 END), optionally wrapped in COALESCE/IFNULL/TOTAL -> (op, param, nullsafe)"""
    nullsafe = False
    if e[0] == "func" and e[1] in ("coalesce", "ifnull") and len(e[2]) == 2 and e[2][1] == ("num", 0):
        nullsafe = True
        e = e[2][0]
    if e[0] == "func" and e[1] in ("sum", "total", "count") and len(e[2]) == 1:
        if e[1] == "total":
            nullsafe = True
        inner = e[2][0]
        if e[1] == "count":
            # COUNT(CASE WHEN c THEN 1 END)
            nullsafe = True
        if inner[0] == "case" and len(inner[1]) == 1:
            cond, then = inner[1][0]
            els = inner[2]
            good_vals = then == ("num", 1) and ((e[1] == "count" and els in (None, ("null",))) or (e[1] != "count" and els == ("num", 0)))
            if good_vals and cond[0] == "cmp" and ("col", "expiry") in cond[2:]:
                if cond[2] == ("col", "expiry") and cond[3][0] == "param":
                    return cond[1], cond[3][1], nullsafe
                if cond[3] == ("col", "expiry") and cond[2][0] == "param":
                    return {"<": ">", ">": "<", "<=": ">=", ">=": "<=", "=": "=", "!=": "!="}[cond[1]], cond[2][1], nullsafe
    return None


def _col_meaning(e):
    """semantic of an aggregate select item: ('count-if', op, param, nullsafe) | ('total', nullsafe) | None"""
    c = _count_case(e)
    if c is not None:
        return ("count-if",) + c
    x = e
    ns = False
    if x[0] == "func" and x[1] in ("coalesce", "ifnull") and len(x[2]) == 2 and x[2][1] == ("num", 0):
        ns = True
        x = x[2][0]
    if x[0] == "func" and x[1] == "count" and len(x[2]) == 1 and x[2][0] in (("star",), ("num", 1)):
        return ("total", True)
    return None


def _r1_r4(ctx, M, cg):
    P = ctx.P
    # anchor: the pool function returning the (active, expired) pair
    fns = [f for f, sg in P.sigs.items() if f in P.bodies and "dhcp::pool::Pool" in f and sig_output(sg).startswith("std::result::Result<(u32, u32)")]
    ctx.floor("R1", "metrics function", len(fns), 1)
    for f in fns:
        body = P.bodies[f]
        ctx.saw(body)
        T = terms(P, body)
        sites = [s for s in M.lease_sql() if s.body.id == f and s.stmt["kind"] == "select"]
        if len(sites) != 1:
            ctx.bad("R1", "metrics-query-not-unique", ctx.where(body), "expected one SELECT on leases in the metrics function, found %d" % len(sites))
            continue
        s = sites[0]
        where = ctx.where(body, s.term["sp"])
        if s.stmt.get("where") is not None or s.stmt.get("limit") is not None:
            ctx.bad("R1", "metrics-query-restricted", where, "the metrics query must range over all rows")
        cols = [_col_meaning(e) for e, _ in s.stmt["items"]]
        cdef = closure_def_of(norm(T.call_args(s.bb)[3])) if len(s.term["args"]) > 3 else None
        info = closure_row_columns(P, cdef, s.stmt) if cdef else None
        colmap = info[1] if info else {}

        # what the function returns: a pair; each element is column k or (column j - column k)
        def elem_meaning(t):
            """-> ('col', k) | ('sub', j, k) | None in terms of tuple elements of the row closure"""
            t = norm(t)
            while t[0] == "cast":
                t = norm(t[3])
            if t[0] == "field" and t[2] == "0" and t[1][0] == "bin" and t[1][1].startswith("Sub"):
                a, b_ = elem_meaning(t[1][2]), elem_meaning(t[1][3])
                if a and b_ and a[0] == "col" and b_[0] == "col":
                    return ("sub", a[1], b_[1])
                return None
            if t[0] == "bin" and t[1].startswith("Sub"):
                a, b_ = elem_meaning(t[2]), elem_meaning(t[3])
                if a and b_ and a[0] == "col" and b_[0] == "col":
                    return ("sub", a[1], b_[1])
                return None
            if t[0] == "field" and t[2].isdigit() and any(y[0] == "call" and "rusqlite::Connection" in str(y[1]) for y in subterms(t[1])):
                k = colmap.get(t[2])
                return ("col", k) if k is not None else None
            return None
        pair = None
        rets = []
        for bb, idx, st in body.stmts():
            if st["p"] == (0,) and "rv" in st:
                rets.append(norm(T.rvalue(st["rv"], bb, idx)))
        for bb, tm in body.calls():
            if tm["dest"] == (0,):
                rets.append(norm(T.call_term(tm, bb)))
        for r in rets:
            if r[0] == "agg" and r[2] == "Ok" and r[3][0][1][0] == "agg" and r[3][0][1][1] == "tuple":
                tp = r[3][0][1][3]
                pair = (elem_meaning(tp[0][1]), elem_meaning(tp[1][1]))
            elif r[0] == "call" and str(r[1]).endswith("::map_err"):
                # the row closure's tuple is returned unchanged
                pair = (("col", colmap.get("0")), ("col", colmap.get("1")))
        if pair is None or None in pair:
            ctx.bad("R1", "metrics-result-shape-unrecognised", where, "cannot relate the returned (active, expired) pair to the query's columns; cannot decide")
            continue

        def describe(m):
            if m[0] == "col":
                c = cols[m[1]] if m[1] is not None and m[1] < len(cols) else None
                return c
            j, k = cols[m[1]] if m[1] < len(cols) else None, cols[m[2]] if m[2] < len(cols) else None
            if j and k and j[0] == "total" and k[0] == "count-if":
                inv = {">": "<=", ">=": "<", "<": ">=", "<=": ">"}.get(k[1])
                return ("count-if", inv, k[2], j[1] and k[3])
            return None
        act, exp = describe(pair[0]), describe(pair[1])
        a_ok = act is not None and act[0] == "count-if" and act[1] == ">"
        e_ok = exp is not None and exp[0] == "count-if" and exp[1] == "<="
        ctx.check(a_ok, "R1", "active=count(expiry>now)" if a_ok else "active=count(expiry%snow)" % (act[1] if act and act[0] == "count-if" else "?"), where,
                  "the first element (active) must count exactly the rows with expiry > now; it counts expiry %s now (%s)" % (
                      act[1] if act and act[0] == "count-if" else "?", s.stmt["text"][:140]))
        ctx.check(e_ok, "R1", "expired=count(expiry<=now)" if e_ok else "expired=count(expiry%snow)" % (exp[1] if exp and exp[0] == "count-if" else "?"), where,
                  "the second element (expired) must count exactly the rows with expiry <= now; it counts expiry %s now" % (
                      exp[1] if exp and exp[0] == "count-if" else "?"))
        if act and exp and act[0] == exp[0] == "count-if":
            ctx.check(act[2] == exp[2], "R1", "active/expired-use-the-same-bound", where, "")
            tp_ = s.param(act[2])
            okk, why = is_now_seconds(tp_) if tp_ is not None else (False, "unbound")
            ctx.check(okk, "R1", "metrics-bound=now", where, "the comparison bound must be the current time (%s)" % why)
            ctx.check(bool(act[3]) and bool(exp[3]), "R4", "aggregates-null-safe-on-empty-table", where,
                      "SUM over zero rows is NULL and the row is read as u32: the aggregates must be NULL-safe "
                      "(COALESCE(SUM(..),0), TOTAL or COUNT) or an empty lease table makes the gauges fail")
        # consumers: tuple element 0 -> active gauge, 1 -> expired gauge
        n = 0
        for cb, bb, tm in cg.callers(f):
            Tc = terms(P, cb)
            for b2, t2 in cb.calls():
                n2 = callee_name(t2) or ""
                if not n2.endswith("::set") or "prometheus" not in n2:
                    continue
                args = [norm(a) for a in Tc.call_args(b2)]
                g = args[0]
                gname = g[1][1] if g[0] == "const" and isinstance(g[1], tuple) and g[1][0] == "static" else None
                role = _gauge_role(P, gname)
                elem = None
                for sub in subterms(args[1]):
                    if sub[0] == "field" and sub[2].isdigit() and sub[1][0] == "payload" and sub[1][2][0] == "call" and sub[1][2][1] == f:
                        elem = sub[2]
                if elem is None or role is None:
                    continue
                n += 1
                want = {"0": "active", "1": "expired"}.get(elem)
                ctx.check(want == role, "R1", "gauge:%s<-pair.%s" % (role, elem), ctx.where(cb, t2["sp"]),
                          "the gauge registered as %s must be set from the %s element of the metrics pair" % (gname, role))
        ctx.floor("R1", "gauge updates from the metrics pair", n, 2)
        # R5: the gauges are as fresh as the scrape: every exit of the refresher has run the query, and the metrics page is
        # rendered only after the refresher
        for cb, bb, tm in cg.callers(f):
            if not any((callee_name(t2) or "").endswith("::set") and "prometheus" in (callee_name(t2) or "") for _, t2 in cb.calls()):
                continue
            ccfg = cfg_of(cb)
            late = [r for r in ccfg.return_blocks() if not ccfg.dominates(bb, r)]
            ctx.check(not late, "R5", "every-exit-of-the-gauge-refresher-has-run-the-query:%s" % cb.id.split("::{")[0].split("::")[-1],
                      ctx.where(cb, tm["sp"]),
                      "%d exit(s) of the refresher are reachable without querying the store: the gauges then keep the values of an "
                      "earlier scrape" % len(late))
            refresher = cb.parent if cb.kind in ("closure", "coroutine") and cb.parent in P.sigs else cb.id
            renderers = {b2.parent if b2.kind in ("closure", "coroutine") and b2.parent in P.sigs else b2.id
                         for b2 in P.bodies.values() for _, t2 in b2.calls() if (callee_name(t2) or "") == "prometheus::gather"}
            m = 0
            for rfn in sorted(renderers):
                for ub, ubb, utm in cg.callers(rfn):
                    m += 1
                    ucfg = cfg_of(ub)
                    pre = [b3 for b3, t3 in ub.calls() if callee_name(t3) == refresher]
                    ctx.check(any(ucfg.dominates(b3, ubb) and b3 != ubb for b3 in pre), "R5", "metrics-page-rendered-after-the-gauge-refresh",
                              ctx.where(ub, utm["sp"]), "the page must be produced only after %s ran (%d call(s) of it here)" % (refresher, len(pre)))
            ctx.floor("R5", "renderings of the metrics page", m, 1)


def _r8_escaper_writes_json_escapes(ctx):
    """R8 the escaper's own output is JSON: where it writes `\\u` it writes exactly four hex digits after it ({:04x})."""
    from .. import fmtargs
    P = ctx.P
    n = 0
    for b in P.bodies.values():
        if not b.id.split("::{")[0].endswith("http::json_string"):
            continue
        for site in fmtargs.fmt_sites(P, b):
            for k, pc in enumerate(site.pieces):
                if pc[0] == "arg" and k > 0 and site.pieces[k - 1][0] == "lit" and site.pieces[k - 1][1].endswith("\\u"):
                    n += 1
                    ctx.saw(b)
                    spec = pc[2] if len(pc) > 2 else {}
                    trait = site.args[pc[1]][0] if pc[1] < len(site.args) else "?"
                    ctx.check(trait in ("lower_hex", "upper_hex") and spec.get("width") == 4 and spec.get("flags") not in (None, 0), "R8",
                              "unicode-escape-has-four-hex-digits", ctx.where(b),
                              "after \\u the escaper writes %s with width %s: a JSON escape is \\u and exactly four hex digits" % (trait, spec.get("width")))
    if ctx.config == "default":
        ctx.floor("R8", "\\u escapes written by the escaper", n, 1)


def _r7_gauges_move_together(ctx):
    """R7 the two lease gauges are a pair: wherever the refresher sets one of them it sets the other on the same path. A gauge that is
    set only when its group has rows keeps the previous scrape's value when the group has become empty."""
    P = ctx.P
    n = 0
    for cb in P.bodies.values():
        if "::test" in cb.id or not cb.id.startswith("erbium::dhcp::"):
            continue
        sets = {}
        T = None
        for b2, t2 in cb.calls():
            n2 = callee_name(t2) or ""
            if not n2.endswith("::set") or "prometheus" not in n2:
                continue
            T = T or terms(P, cb)
            g = norm(T.call_args(b2)[0])
            while g[0] in ("ref", "deref") or (g[0] == "call" and len(g[2]) == 1 and str(g[1]).rsplit("::", 1)[-1] == "deref"):
                g = norm(g[1] if g[0] != "call" else g[2][0])
            gname = g[1][1] if g[0] == "const" and isinstance(g[1], tuple) and g[1][0] == "static" else None
            role = _gauge_role(P, gname)
            if role:
                sets.setdefault(role, []).append((b2, t2))
        if not sets:
            continue
        n += 1
        ctx.saw(cb)
        ccfg = cfg_of(cb)
        rets = set(ccfg.return_blocks())
        for role, other in (("active", "expired"), ("expired", "active")):
            ob = tuple(b2 for b2, _ in sets.get(other, []))
            for b2, t2 in sets.get(role, []):
                covered = any(ccfg.dominates(o, b2) for o in ob) or (bool(ob) and not (ccfg.reachable_from(b2, blocked=ob) & rets))
                ctx.check(covered, "R7", "lease-gauges-are-set-together:%s" % role, ctx.where(cb, t2["sp"]),
                          "the %s-leases gauge is set on a path that does not set the %s-leases gauge" % (role, other))
    if ctx.config in ("default", "dhcp"):
        ctx.floor("R7", "functions that set the lease gauges", n, 1)


def _gauge_role(P, static_path):
    if not static_path:
        return None
    strs = []
    for bid, b in P.bodies.items():
        if static_path in bid:
            strs.extend(body_strings(b))
    for st in strs:
        if "active" in st and "lease" in st:
            return "active"
        if "expired" in st and "lease" in st:
            return "expired"
    return None


def _r3(ctx, M, cg):
    P = ctx.P
    # the listing query: SELECT of address, clientid, start, expiry from leases via prepare*/query_map
    sites = [s for s in M.lease_sql() if s.stmt["kind"] == "select" and
             {"address", "clientid", "start", "expiry"} <= {e[1] for e, _ in s.stmt["items"] if e[0] == "col"} and s.method.startswith("prepare")]
    ctx.floor("R3", "listing query", len(sites), 1)
    for s in sites:
        ctx.saw(s.body)
        st = s.stmt
        where = ctx.where(s.body, s.term["sp"])
        ctx.check(st.get("where") is None and st.get("limit") is None and not st.get("group"), "R3", "listing-query-unrestricted", where,
                  "the listing must select every row (no WHERE / LIMIT / GROUP BY): %s" % st["text"][:120])
        # the row closure maps columns to the fields with the same meaning
        b = s.body
        T = terms(P, b)
        qm = [(bb, tm) for bb, tm in b.calls() if (callee_name(tm) or "").endswith("::query_map")]
        for bb, tm in qm:
            cdef = closure_def_of(norm(T.call_args(bb)[2]))
            info = closure_row_columns(P, cdef, st) if cdef else None
            if info:
                want = {"ip": "address", "client_id": "clientid", "start": "start", "expire": "expiry"}
                for f, colname in want.items():
                    ci = info[1].get(f)
                    got = st["items"][ci][0][1] if ci is not None and ci < len(st["items"]) and st["items"][ci][0][0] == "col" else None
                    ctx.check(got == colname, "R3", "listing-field:%s<-column:%s" % (f, got), ctx.where(b, tm["sp"]),
                              "LeaseInfo.%s must be read from column `%s`" % (f, colname))
        # no filter/take/skip between the rows and the rendered body
        chain_fns = set()
        todo = [s.body.id]
        users = set()
        while todo:
            x = todo.pop()
            for cb, bb, tm in cg.callers(x):
                root = cb.id
                while P.bodies[root].parent:
                    root = P.bodies[root].parent
                if root not in users and "test" not in root:
                    users.add(root)
                    if _base_ty(sig_output(P.sigs.get(root, {"output": ""}))).startswith("std::vec::Vec<erbium::dhcp::pool::LeaseInfo") or "LeaseInfo" in sig_output(P.sigs.get(root, {"output": ""})):
                        todo.append(root)
        bad = []
        for u in users:
            for b2 in P.family(u):
                ctx.saw(b2)
                for bb, tm in b2.calls():
                    n2 = callee_name(tm) or ""
                    last = n2.rsplit("::", 1)[-1]
                    if n2.startswith("std::iter::Iterator::") and last in ("filter", "take", "skip", "step_by", "take_while", "skip_while", "filter_map", "find"):
                        bad.append("%s at %s" % (last, P.rel(tm["sp"])))
                    if n2.endswith("Vec::<T, A>::truncate") or n2.endswith("::dedup") or n2.endswith("::retain") or n2.endswith("::pop"):
                        bad.append("%s at %s" % (last, P.rel(tm["sp"])))
        ctx.check(not bad, "R3", "listing-renders-every-row", where, "between the query and the rendered document no row may be dropped: %s (consumers: %s)" % (bad or "ok", sorted(users)))


def _r2(ctx):
    P = ctx.P
    # anchor: bodies that set the application/json content type
    roots = set()
    for b in P.bodies.values():
        if "application/json" in body_strings(b):
            r = b.id
            while P.bodies[r].parent:
                r = P.bodies[r].parent
            roots.add(r)
    ctx.floor("R2", "JSON responders", len(roots), 1)
    J = Json(ctx)
    cg = callgraph(P)
    for r in sorted(roots):
        # the responder, its closures, and the functions of the same file it calls or hands to an adaptor (`.map(render_lease)`)
        scope = list(P.family(r))
        seen = {b.id for b in scope}
        for fid in sorted(cg.reachable([b.id for b in scope])):
            fb = P.bodies.get(fid)
            if fb is not None and fid not in seen and fb.file == P.bodies[r].file and not J.is_sanitiser(fid):
                for b2 in P.family(fid):
                    if b2.id not in seen:
                        seen.add(b2.id)
                        scope.append(b2)
        for b in scope:
            for site in fmt_sites(P, b):
                # only format sites that produce values (format!), not log macros: result flows to std::fmt::format
                tm = b.blocks[site.bb]["term"]
                nxt = tm["t"]
                is_format = False
                if nxt is not None:
                    t2 = b.blocks[nxt]["term"]
                    if t2 and t2["k"] == "call" and (callee_name(t2) or "") == "std::fmt::format":
                        is_format = True
                if is_format:
                    J.check_site(site, b)
    for key, where, detail in J.problems:
        ctx.bad("R2", key, where, detail)
    if not J.problems:
        ctx.ok("R2", "json-interpolations-inert", "", "%d format sites" % J.sites)
    ctx.floor("R2", "format sites in the JSON responder", J.sites, 4)


def _r6_renders_whatever_is_stored(ctx, cg):
    """"whatever bytes clients put in their host name or identifier": between the rows and the response nothing may panic — a
    panic while rendering is no document at all, for as long as the offending lease is stored.  The obligation engine of C05 over
    everything the two responders reach."""
    from .. import oblig
    from ..spec import reviewed as RV
    from . import c05
    P = ctx.P
    roots = [b for b in P.bodies if b.startswith("erbium::http::serve_leases") or b.startswith("erbium::http::serve_metrics")]
    if not roots:
        if ctx.config == "default":
            ctx.bad("R6", "anchor:responders", "", "serve_leases / serve_metrics not found")
        return
    reach = sorted(r for r in cg.reachable(roots) if r in P.bodies and "::test" not in r)
    D = oblig.Discharger(P)
    oblig.Inter(P, cg)
    side = RV.SideConditions(ctx)
    n_sites, n_dis, by_rule = c05.check_sites(ctx, D, side, reach, "R6")
    ctx.floor("R6", "panic-capable sites below the responders", n_sites, 20)
    ctx.floor("R6", "functions below the responders", len(reach), 30)
