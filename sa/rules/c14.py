"""C14 — DNS codec: RDATA reader/writer agreement, header flag tables, compression pointers (structural clauses)."""
import re
from ..util import *
from ..prov import strip, norm, show, subterms
from ..cfg import cfg_of
from ..callgraph import callgraph
from ..spec import tables
from .. import dnsflags
from .c03 import _r7 as exact_label_rule

EXPLANATION = ("reader/writer agreement and range rules: for every record type the ordered typed reads of the decoder arm equal the "
               "ordered typed writes of the encoder arm and the RFC 1035 / 2782-era RDATA shapes; the decode and encode header "
               "bit tables (rd tc aa qr cd ad ra, opcode shift, rcode nibble, OPT ext-rcode/version/DO) equal each other and the "
               "RFC 1035/4035/6891 table; a suffix-tree node can become the target of a compression pointer only under "
               "offset < 0x4000 and offsets are stored without wrapping; a node's offset is the write position at the moment its "
               "label is written; names are bounded by the decoder (255 octets) so 16-bit RDLENGTH casts cannot wrap; the pointer "
               "follower carries a depth fuel bounded by a small constant; the encoder compares labels exactly")
ASSUMPTIONS = ["not decided: decode(encode(m)) = m over all messages"]
EXPLANATION += "; also: exact label comparison in the encoder; every OPT record leaves the additional section; type/class/TTL are stored as read by big-endian readers (evaluated); the OPT record is emitted whenever EDNS data is present; C04's truncation-loop rules are evaluated here too"
EXTRA_CONFIGS = ["dns"]

# RFC 1035 3.3 / RFC 1183 / RFC 3403 / RFC 6891 RDATA shapes, by RData variant
RDATA_SPEC = {
    "CName": ["name"], "Ns": ["name"], "Ptr": ["name"],
    "Mx": ["u16", "name"], "Rt": ["u16", "name"], "AfsDb": ["u16", "name"],
    "Rp": ["name", "name"],
    "Soa": ["name", "name", "u32", "u32", "u32", "u32", "u32"],
    "NaPtr": ["u16", "u16", "str", "str", "str", "name"],
    "Opt": ["options"],
    "Other": ["opaque"],
}
READ_KIND = {"get_u16": "u16", "get_u32": "u32", "get_domain": "name", "get_string": "str", "get_bytes": "opaque", "get_u8": "u8"}
WRITE_KIND = {"push_u16": "u16", "push_u32": "u32", "push_compressed_domain": "name", "push_str": "str", "push_opt": "options",
              "extend_from_slice": "opaque", "push": "u8"}


def _dom_sorted(cfg, items):
    snap = list(items)
    return sorted(snap, key=lambda w: sum(1 for x in snap if cfg.dominates(x[0], w[0])))


def run(ctx):
    P = ctx.P
    _r1(ctx)
    _r2(ctx)
    _r3_r4(ctx)
    _r4_bases(ctx)
    _r5_r6(ctx)
    exact_label_rule(ctx)
    _r8_opt_removed(ctx)
    _r9_record_header_verbatim(ctx)
    _r10_opt_emitted_with_edns(ctx)
    _r11_pointers_only_from_the_name_writer(ctx)
    _r12_character_strings_as_read(ctx)
    _r13_edns_fields_from_one_record(ctx)
    _r14_encoder_preconditions(ctx)
    _r15_records_left_out_only_at_the_end_of_the_buffer(ctx)
    # a record taken back out of the message leaves its names in the compression tree: unless the section ends there, later names
    # are compressed against octets that are gone.  The loop shape is C04's.
    ctx.include("C04", rules=("R3", "R2"))


def _r11_pointers_only_from_the_name_writer(ctx):
    """R11 a compression pointer is written by the name writer, which takes its target from a node of the suffix tree: every target is
    then the start of labels written in full (or of such a tail), and the chain a decoder follows is one hop long whatever the number of
    records. A pointer composed anywhere else (0xC0 / 0xC000 combined into an octet or a 16-bit word of the message) points wherever
    that code thinks fit — at another pointer, say, one hop deeper per record."""
    P = ctx.P
    n = 0
    for b in P.bodies.values():
        if not b.id.startswith("erbium::dns::dnspkt::") or "::test" in b.id or b.file.endswith("parse.rs"):
            continue
        for bb, idx, st in b.stmts():
            rv = st.get("rv")
            if not rv or rv["k"] != "bin" or rv["op"] not in ("BitOr", "Add", "AddWithOverflow", "AddUnchecked", "BitXor"):
                continue
            if not any(o.get("k") for o in (rv["a"], rv["b"])):
                continue
            Tn = terms(P, b)
            vals = [const_value(Tn.operand(o, bb, idx)) for o in (rv["a"], rv["b"]) if o.get("k")]      # named constants evaluated
            if not any(v in (0xC0, 0xC000) for v in vals):
                continue
            n += 1
            ctx.saw(b)
            other = [o for o in (rv["a"], rv["b"]) if not o.get("k")]
            T = terms(P, b)
            tgt = norm(T.operand(other[0], bb, idx)) if other else ("unknown",)
            from_tree = any(y[0] == "field" and y[2] == "data" for y in subterms(tgt))
            ctx.check(from_tree, "R11", "pointer-target-comes-from-the-suffix-tree:%s" % b.id.split("::{")[0].rsplit("::", 1)[-1], ctx.where(b, st["sp"]),
                      "a compression pointer is composed from %s: its target must be the offset a suffix-tree node recorded (node.data)" % show(tgt)[:100])
    if ctx.config in ("default", "dns"):
        ctx.floor("R11", "places that compose a compression pointer", n, 2)


ENCODER_ASSERTIONS = 12      # counted on the reviewed tree: push_label 2, push_prefix 4, push_str 1, push_rr 3, serialise_with_size 2


def _r14_encoder_preconditions(ctx):
    """R14 the encoder accepts what the decoder produces: (a) it asserts no more about a message than it did when its assertions were
    reviewed against the decoder's guarantees (a new `assert!` on a name, a string or a count is a new way for a decoded message to
    fail to encode); (b) every non-root name is written by the suffix-tree walk (`push_prefix`), the only writer of labels that is
    called from `push_compressed_domain` — a second way of writing a name (uncompressed, past some offset) changes the size of what
    is written and with it what fits."""
    P = ctx.P
    spans = set()
    n = 0
    for b in P.bodies.values():
        root = b.id.split("::{")[0]
        if "::test" in b.id or not (root.startswith("erbium::dns::dnspkt::push_") or root.endswith("DNSPkt::serialise_with_size") or root.endswith("dnspkt::make_edns_opt")):
            continue
        n += 1
        ctx.saw(b)
        for bb, tm in b.calls():
            nme = callee_name(tm) or ""
            if nme.startswith("core::panicking::panic") or nme.startswith("core::panicking::assert_failed") or "begin_panic" in nme or nme.startswith("core::panicking::unreachable"):
                spans.add(tm["sp"])
    if ctx.config in ("default", "dns"):
        ctx.floor("R14", "encoder functions", n, 6)
        ctx.check(len(spans) <= ENCODER_ASSERTIONS, "R14", "encoder-asserts-no-more-than-reviewed", "crates/erbium-core/src/dns/dnspkt.rs",
                  "the DNS encoder has %d explicit assertion / panic sites, %d were reviewed against what the decoder guarantees" % (len(spans), ENCODER_ASSERTIONS))
    for b in P.bodies.values():
        if b.id.endswith("dnspkt::push_compressed_domain"):
            fam = P.family(b.id)
            direct = [P.rel(tm["sp"]) for x in fam for bb, tm in x.calls() if (callee_name(tm) or "").endswith("dnspkt::push_label")]
            walks = [bb for x in fam for bb, tm in x.calls() if (callee_name(tm) or "").endswith("dnspkt::push_prefix")]
            ctx.check(bool(walks) and not direct, "R14", "names-are-written-by-the-suffix-tree-walk", ctx.where(b),
                      "push_compressed_domain writes labels itself (%s) or never calls push_prefix" % (direct or "-"))


def _r15_records_left_out_only_at_the_end_of_the_buffer(ctx):
    """R15 the decoder stops reading a section before its count is reached only where the message has no octets left (a truncated
    message announces more than it carries): every exit of a section loop other than the exhaustion of its counter stands on the true
    edge of `offset >= len(buffer)`. Stopping on the TC bit alone loses records (the OPT record among them) that are in the message."""
    P = ctx.P
    n = 0
    for b in P.bodies.values():
        if not b.id.endswith("PktParser::<'l>::get_dns"):
            continue
        ctx.saw(b)
        T = terms(P, b)
        cfg = cfg_of(b)

        def m(d):
            if d[0] == "bin" and d[1] in ("Ge", "Gt", "Le", "Lt", "Eq"):
                xs = [norm(d[2]), norm(d[3])]
                return any(x[0] == "field" and x[2] == "offset" for x in xs) and any(
                    (x[0] == "call" and str(x[1]).endswith("::len")) or (x[0] == "un" and x[1] == "PtrMetadata") for x in xs)
            return False
        ended = []
        for sbb, d, te, fe in bool_switches(P, b, m):
            off_first = norm(d[2])[0] == "field"
            if d[1] in ("Ge", "Gt", "Eq"):
                ended += te if off_first else fe
            else:
                ended += fe if off_first else te
        for loop in cfg.loops_by_header():
            pushes = [bb for bb, tm in b.calls() if bb in loop and (callee_name(tm) or "").endswith("::push") and "Vec" in (callee_name(tm) or "")]
            if not pushes:
                continue
            for u in loop:
                for v in cfg.succ[u]:
                    if v in loop:
                        continue
                    tmu = b.blocks[u]["term"]
                    tv = b.blocks[v]["term"]
                    if tv is not None and tv["k"] == "unreachable":
                        continue
                    # the counter's exhaustion: the None edge of the range iterator's next()
                    if tmu["k"] == "switch":
                        d = norm(T.at_term(tmu["discr"], u))
                        if d[0] == "discr" and norm(d[1])[0] == "call" and str(norm(d[1])[1]).endswith("::next") and (u, v) in discr_edges(cfg, u, 0):
                            continue
                    # error returns of `?` leave the loop too: they end the decoding, nothing is silently dropped
                    r = cfg.reachable_from(v)
                    okb = {bb for bb, idx, st in b.stmts() if st["p"] == (0,) and st.get("rv") and st["rv"]["k"] == "agg" and st["rv"].get("variant") == "Ok"}
                    if not (r & okb):
                        continue
                    # (in a spliced helper the `?` hands its error to the caller's `?`: an exit that runs straight into from_residual)
                    x, residual = v, False
                    for _ in range(8):
                        tx = b.blocks[x]["term"]
                        if tx is not None and tx["k"] == "call" and "from_residual" in (callee_name(tx) or ""):
                            residual = True
                            break
                        if len(cfg.succ[x]) != 1:
                            break
                        x = cfg.succ[x][0]
                    if residual:
                        continue
                    n += 1
                    ctx.check(edge_dominated(cfg, ended, v) or edge_dominated(cfg, ended, u), "R15", "section-cut-short-only-at-the-end-of-the-buffer", ctx.where(b, tmu.get("sp")),
                              "a section loop is left before its count is reached on a path where the buffer was not found exhausted")
    if ctx.config in ("default", "dns"):
        ctx.floor("R15", "early exits of the decoder's section loops", n, 1)


def _r13_edns_fields_from_one_record(ctx):
    """R13 the EDNS fields of a decoded message describe one OPT record: `edns_ver` and `edns` (and the size, DO and extended rcode) are
    computed from the same selected record, so either all of them say "EDNS" or none does. The encoder writes an OPT record when
    `edns` is present; a message decoded with a version but without `edns` comes back from a round trip without its version."""
    from .. import dnsflags
    P = ctx.P
    d = dnsflags._find_decoder(P)
    if d is None:
        if ctx.config in ("default", "dns"):
            ctx.bad("R13", "anchor:decoder", "", "DNS message decoder not found")
        return
    b, bb, idx, st, f = d
    ctx.saw(b)

    def selectors(t):
        return {y[3] for y in subterms(t) if y[0] == "call" and isinstance(y[1], str) and y[1].rsplit("::", 1)[-1] in ("find", "position", "rposition", "find_map", "last", "pop", "first")
                and len(y) > 3}
    sel = {k: selectors(f[k]) for k in ("edns_ver", "edns", "bufsize", "edns_do") if k in f}
    base = sel.get("edns")
    same = base is not None and len(base) >= 1 and all(v == base for v in sel.values())
    ctx.check(same, "R13", "edns-fields-come-from-one-record", ctx.where(b, st["sp"]),
              "the record-selecting calls behind the EDNS fields differ (%s): version, options, size and DO must be read from the same OPT record"
              % {k: sorted(v) for k, v in sel.items()})


def _r12_character_strings_as_read(ctx):
    """R12 a character-string is its octets: `get_string` hands back exactly what `get_bytes(<the length octet>)` returned. The encoder
    writes a string behind one length octet and asserts that it fits; that holds for every decoded string only while decoding cannot
    lengthen one (a lossy conversion to text replaces each invalid octet by three)."""
    P = ctx.P
    fns = [f for f in P.bodies if f.endswith("parse::PktParser::<'l>::get_string")]
    if ctx.config in ("default", "dns"):
        ctx.floor("R12", "character-string reader", len(fns), 1)
    for f in fns:
        b = P.bodies[f]
        ctx.saw(b)
        T = terms(P, b)
        rets = [(bb, tm) for bb, tm in b.calls() if tuple(tm["dest"]) == (0,) and "from_residual" not in (callee_name(tm) or "")]
        stm = [st for bb, idx, st in b.stmts() if tuple(st["p"]) == (0,) and st.get("rv")]
        good = len(rets) == 1 and not stm and (callee_name(rets[0][1]) or "").endswith("::get_bytes")
        if good:
            a = norm(T.call_args(rets[0][0])[1])
            while a[0] == "cast":
                a = norm(a[3])
            good = a[0] == "payload" and norm(a[2])[0] == "call" and str(norm(a[2])[1]).endswith("::get_u8")
        ctx.check(good, "R12", "character-string-is-the-octets-read", ctx.where(b),
                  "get_string must return get_bytes(get_u8()? as usize) itself: a decoded string longer than its 255 octets on the wire "
                  "makes the encoder's length assertion fail on a message the decoder accepted")


def _r8_opt_removed(ctx):
    """the decoder folds the OPT pseudo-record into the message's EDNS fields; what it returns as the additional section has had
    every OPT record removed (retain(rrtype != OPT) on the path to the result), so that the encoder — which appends its own OPT —
    cannot emit two"""
    P = ctx.P
    fns = [f for f in P.bodies if f.endswith("PktParser::<'l>::get_dns")]
    if not fns:
        if ctx.config in ("default", "dns"):
            ctx.bad("R8", "anchor:get_dns", "", "message decoder not found")
        return
    b = P.bodies[fns[0]]
    ctx.saw(b)
    T = terms(P, b)
    cfg = cfg_of(b)
    aggs = [(bb, idx, st) for _, bb, idx, st in find_aggs(P, "dns::dnspkt::DNSPkt", [b])]
    ctx.floor("R8", "decoded message constructions", len(aggs), 1)
    filt = []
    for bb, tm in b.calls():
        if (callee_name(tm) or "").endswith("Vec::<T, A>::retain") or (callee_name(tm) or "").endswith("Vec::<T>::retain"):
            cid = closure_def_of_term(T.call_args(bb)[1])
            cb = P.bodies.get(cid) if cid else None
            if cb is None:
                continue
            Tc = terms(P, cb)
            for b2, t2 in cb.calls():
                n2 = callee_name(t2) or ""
                if n2.endswith("::ne") and t2["dest"] == (0,):
                    a = [norm(x) for x in Tc.call_args(b2)]
                    opt = any(x[0] == "const" and len(x) > 2 and str(x[2]).endswith("RR_OPT") or (x[0] == "const" and x[1] == tables.RR_OPT if hasattr(tables, "RR_OPT") else False) for x in a)
                    onty = any(any(y[0] == "field" and y[2] == "rrtype" for y in subterms(x)) for x in a)
                    if opt and onty:
                        filt.append(bb)
    for bb, idx, st in aggs:
        t = norm(T.rvalue(st["rv"], bb, idx))
        ctx.check(any(cfg.dominates(f, bb) for f in filt), "R8", "every-OPT-record-leaves-the-additional-section", ctx.where(b, st["sp"]),
                  "the decoded message must be built after `additional.retain(|rr| rr.rrtype != RR_OPT)`: an OPT record left among the "
                  "ordinary records is written again next to the encoder's own OPT and the message no longer decodes to itself")


def _arm_blocks(cfg, targets, stop=()):
    """blocks belonging to each switch arm: reachable from its target (not passing `stop` blocks) but not from every arm's target"""
    reach = {k: cfg.reachable_from(t, blocked=tuple(stop)) for k, t in targets.items()}
    distinct = {}
    for k, t in targets.items():
        others = [reach[j] for j, t2 in targets.items() if t2 != t]
        common = set.intersection(*others) if others else set()
        distinct[k] = reach[k] - common
    return distinct


def _r1(ctx):
    P = ctx.P
    # ---- decoder arms
    dec = [f for f in P.bodies if f.endswith("parse::PktParser::<'l>::get_rdata")]
    enc = [f for f in P.bodies if f.endswith("dns::dnspkt::push_rr")]
    ctx.floor("R1", "RDATA decoder", len(dec), 1)
    ctx.floor("R1", "RDATA encoder", len(enc), 1)
    if not dec or not enc:
        return
    db, eb = P.bodies[dec[0]], P.bodies[enc[0]]
    ctx.saw(db)
    ctx.saw(eb)
    Td, Te = terms(P, db), terms(P, eb)
    cd, ce = cfg_of(db), cfg_of(eb)
    # type constants
    tval = {}
    for name, k in P.consts.items():
        if name.startswith("erbium::dns::dnspkt::RR_") and "bits" in k:
            tval[int(k["bits"])] = name.split("::")[-1]
    dsw = None
    for bb, tm in db.terms():
        if tm["k"] == "switch" and len(tm["targets"]) >= 8:
            d = norm(Td.at_term(tm["discr"], bb))
            if d[0] == "field" and norm(d[1]) == ("param", 2):
                dsw = (bb, tm)
    if dsw is None:
        ctx.bad("R1", "decoder-type-switch-not-found", ctx.where(db), "cannot find the switch on the record type")
        return
    bb, tm = dsw
    targets = {v: t for v, t in tm["targets"]}
    targets["other"] = tm["otherwise"]
    arms = _arm_blocks(cd, targets)
    dec_by_variant = {}
    for v, blocks in arms.items():
        reads = []
        for b2, t2 in db.calls():
            if b2 in blocks:
                n = callee_name(t2) or ""
                m = n.rsplit("::", 1)[-1]
                if "PktParser" in n and m in READ_KIND:
                    kind = READ_KIND[m]
                    reads.append((b2, kind))
                elif n.endswith("EdnsParser::<'l>::get_options"):
                    reads.append((b2, "options"))
        reads = [k for _, k in _dom_sorted(cd, reads)]
        variants = {s["rv"]["variant"] for b2, i2, s in db.stmts() if b2 in blocks and "rv" in s and s["rv"]["k"] == "agg" and s["rv"].get("adt", "").endswith("dnspkt::RData")}
        # fn-item constructors (Ok(CName(..)) are aggregates too); keep the set
        for var in variants:
            if reads[-2:] == ["opaque", "options"]:
                reads = reads[:-2] + ["options"]
            dec_by_variant.setdefault(var, []).append((tval.get(v, str(v)), reads))
    # every RDATA value the decoder builds is built inside an arm of the type switch: the variant is chosen by the record type and
    # by nothing else (the encoder's per-variant code, its type assertions included, relies on that pairing)
    in_arm = set()
    for blocks in arms.values():
        in_arm |= set(blocks)
    for b2, i2, st in db.stmts():
        if "rv" in st and st["rv"]["k"] == "agg" and st["rv"].get("adt", "").endswith("dnspkt::RData"):
            var = st["rv"]["variant"]
            ok_here = b2 in in_arm
            if var == "Other":
                ok_here = b2 in arms.get("other", set())
            ctx.check(ok_here, "R1", "rdata:%s:built-only-in-its-type-arm" % var, ctx.where(db, st["sp"]),
                      "RData::%s is built outside the arm of the record-type switch that selects it: a record of another type (an SOA with "
                      "RDLENGTH 0, say) then carries this variant and the encoder's per-variant code no longer matches its type" % var)
    # ---- encoder arms
    esw = None
    for bb, tm in eb.terms():
        if tm["k"] == "switch":
            d = norm(Te.at_term(tm["discr"], bb))
            if d[0] == "discr" and d[1][0] == "field" and d[1][2] == "rdata":
                esw = (bb, tm)
    if esw is None:
        ctx.bad("R1", "encoder-variant-switch-not-found", ctx.where(eb), "cannot find the switch on the RDATA variant")
        return
    bb, tm = esw
    adt = P.adt("erbium::dns::dnspkt::RData")
    vnames = [v["name"] for v in adt["variants"]]
    targets = {}
    for i, vn in enumerate(vnames):
        es = discr_edges(ce, bb, i)
        if es:
            targets[vn] = es[0][1]
    arms = _arm_blocks(ce, targets)
    # the per-record scratch buffers: writes into a local Vec (not the output parameter) or straight to the output after the length
    enc_by_variant = {}
    for vn, blocks in arms.items():
        writes = []
        for b2, t2 in eb.calls():
            if b2 not in blocks:
                continue
            n = callee_name(t2) or ""
            m = n.rsplit("::", 1)[-1]
            if m not in WRITE_KIND:
                continue
            recv = borrowed_place(Te, t2["args"][0], b2, len(eb.blocks[b2]["stmts"]))
            if m == "push_opt":
                recv = borrowed_place(Te, t2["args"][1], b2, len(eb.blocks[b2]["stmts"]))
            if recv is None:
                continue
            is_out = len(recv) >= 1 and recv[0] == 1
            a_rdlen = False
            if is_out and m == "push_u16":
                a = norm(Te.call_args(b2)[1])
                a_rdlen = any(y[0] == "call" and str(y[1]).endswith("::len") for y in subterms(a)) or any(
                    y[0] == "call" and "try_from" in str(y[1]) for y in subterms(a))
            writes.append((b2, WRITE_KIND[m], is_out, a_rdlen))
        writes = _dom_sorted(ce, writes)
        seq = []
        saw_len = False
        for b2, kind, is_out, a_rdlen in writes:
            if a_rdlen:
                saw_len = True
                continue
            if is_out:
                # copying the scratch buffer to the output is not a field; a direct opaque copy (Other) is
                if kind == "opaque" and any(k for _, k, o, _ in writes if not o):
                    continue
            seq.append(kind)
        enc_by_variant[vn] = (seq, saw_len)
    n = 0
    for vn, spec in RDATA_SPEC.items():
        n += 1
        d = dec_by_variant.get(vn)
        e = enc_by_variant.get(vn)
        where = ctx.where(eb)
        if d is None:
            ctx.bad("R1", "rdata:%s:no-decoder-arm" % vn, ctx.where(db), "the decoder never produces RData::%s" % vn)
            continue
        if e is None:
            ctx.bad("R1", "rdata:%s:no-encoder-arm" % vn, where, "the encoder has no arm for RData::%s" % vn)
            continue
        for tname, reads in d:
            ctx.check(reads == spec, "R1", "rdata:%s:decode(%s)=%s" % (vn, tname, "+".join(reads) or "nothing"), ctx.where(db),
                      "RDATA of %s is %s; the decoder reads %s" % (vn, spec, reads))
        ctx.check(e[0] == spec, "R1", "rdata:%s:encode=%s" % (vn, "+".join(e[0]) or "nothing"), where,
                  "RDATA of %s is %s; the encoder writes %s" % (vn, spec, e[0]))
        ctx.check(e[1], "R1", "rdata:%s:rdlength-written" % vn, where, "")
    ctx.floor("R1", "RDATA variants compared", n, 10)
    # every decoded type value maps to the variant of the same name, and the type->variant table is injective where it matters
    seen = {}
    for vn, lst in dec_by_variant.items():
        for tname, _ in lst:
            seen.setdefault(tname, set()).add(vn)
    want = {"RR_CNAME": "CName", "RR_NS": "Ns", "RR_PTR": "Ptr", "RR_MX": "Mx", "RR_RT": "Rt", "RR_AFSDB": "AfsDb", "RR_RP": "Rp",
            "RR_SOA": "Soa", "RR_NAPTR": "NaPtr", "RR_OPT": "Opt"}
    for tname, vn in want.items():
        ctx.check(seen.get(tname) == {vn}, "R1", "type-table:%s->%s" % (tname, "/".join(sorted(seen.get(tname, {"none"})))), ctx.where(db),
                  "record type %s must decode to RData::%s" % (tname, vn))


def _r2(ctx):
    P = ctx.P
    dtab, dinfo = dnsflags.decode_table(P)
    etab, einfo = dnsflags.encode_table(P)
    if dtab is None or etab is None:
        ctx.bad("R2", "flag-tables-not-found", "", "decoder table %s, encoder table %s" % (dtab is not None, etab is not None))
        return
    db, dsp = dinfo
    eb, esp = einfo
    ctx.saw(db)
    ctx.saw(eb)
    spec = {}
    for k, m in tables.DNS_FLAG1.items():
        spec[k] = (1, m)
    for k, m in tables.DNS_FLAG2.items():
        spec[k] = (2, m)
    for k, (octet, mask) in sorted(spec.items()):
        d = dtab.get(k, {})
        e = etab.get(k, {})
        ctx.check((d.get("octet"), d.get("mask")) == (octet, mask), "R2", "decode:%s=octet%d&0x%02x" % (k, (d.get("octet") or 0) + 1, d.get("mask") or 0), ctx.where(db, dsp),
                  "RFC 1035 4.1.1 / RFC 4035 3: %s is mask 0x%02x of header octet %d" % (k, mask, octet + 1))
        ctx.check((e.get("octet"), e.get("mask")) == (octet, mask), "R2", "encode:%s=octet%d|0x%02x" % (k, (e.get("octet") or 0) + 1, e.get("mask") or 0), ctx.where(eb, esp),
                  "RFC 1035 4.1.1 / RFC 4035 3: %s is mask 0x%02x of header octet %d" % (k, mask, octet + 1))
    d, e = dtab.get("opcode", {}), etab.get("opcode", {})
    ctx.check(d.get("shift") == tables.DNS_OPCODE_SHIFT and d.get("mask") == 0x78 and d.get("octet") == 1, "R2", "decode:opcode=(octet3&0x78)>>3", ctx.where(db, dsp), str(d))
    ctx.check(e.get("shift") == tables.DNS_OPCODE_SHIFT and e.get("octet") == 1, "R2", "encode:opcode<<3", ctx.where(eb, esp), str(e))
    d, e = dtab.get("rcode", {}), etab.get("rcode", {})
    ctx.check(d.get("mask") == tables.DNS_RCODE_MASK and d.get("octet") == 2, "R2", "decode:rcode=octet4&0x0f", ctx.where(db, dsp), str(d))
    ctx.check(e.get("mask") == tables.DNS_RCODE_MASK and e.get("octet") == 2, "R2", "encode:rcode&0x0f", ctx.where(eb, esp), str(e))
    ctx.check(dtab.get("ext_rcode", {}).get("shift") == tables.DNS_OPT_EXT_RCODE_SHIFT and etab.get("opt.rcode", {}).get("shift") == tables.DNS_OPT_EXT_RCODE_SHIFT,
              "R2", "opt:ext-rcode<<24", ctx.where(eb, esp), "decode %s encode %s" % (dtab.get("ext_rcode"), etab.get("opt.rcode")))
    ctx.check(dtab.get("rcode_ext", {}).get("shift_into_rcode") == 4 and etab.get("rcode_ext", {}).get("shift_into_rcode") == 4,
              "R2", "opt:ext-rcode-is-rcode>>4", ctx.where(eb, esp), "")
    ctx.check(dtab.get("edns_ver", {}).get("shift") == tables.DNS_OPT_VERSION_SHIFT and etab.get("opt.edns_ver", {}).get("shift") == tables.DNS_OPT_VERSION_SHIFT,
              "R2", "opt:version<<16", ctx.where(eb, esp), "")
    ctx.check(dtab.get("edns_do", {}).get("mask") == tables.DNS_OPT_DO and etab.get("opt.edns_do", {}).get("mask") == tables.DNS_OPT_DO,
              "R2", "opt:DO=0x8000", ctx.where(eb, esp), "")
    ctx.check(etab.get("bufsize", {}).get("class_from") == "bufsize" and dtab.get("bufsize", {}).get("from_opt_class"), "R2", "opt:class=payload-size", ctx.where(eb, esp), "")


def _r3_r4(ctx):
    P = ctx.P
    pp = [f for f in P.bodies if f.endswith("dns::dnspkt::push_prefix")]
    ctx.floor("R3", "pointer emitter", len(pp), 1)
    for f in pp:
        b = P.bodies[f]
        ctx.saw(b)
        T = terms(P, b)
        cfg = cfg_of(b)
        # emission sites: Vec::push(v, 0xC0 + (x.data >> 8) as u8)
        emits = []
        for bb, tm in b.calls():
            if (callee_name(tm) or "").endswith("Vec::<T, A>::push"):
                a = norm(T.call_args(bb)[1])
                if any(y[0] == "bin" and y[1].startswith(("Add", "BitOr")) and any(is_const(norm(z), 0xC0) for z in (y[2], y[3])) for y in subterms(a)):
                    emits.append((bb, tm, a))
        ctx.floor("R3", "pointer emission sites", len(emits), 2)
        # target selection: assignments `child = Some(node)` in the lookup loop must be under data < 0x4000 — in the function itself or
        # in a closure of it (`node.as_mut().and_then(|n| n.children.iter_mut().filter(..).last())`)
        def m(d):
            if d[0] == "bin" and d[1] in ("Lt", "Le", "Gt", "Ge"):
                xs = [norm(d[2]), norm(d[3])]
                cs = [const_value(x) for x in xs if const_value(x) is not None]
                fs = [x for x in xs if x[0] == "field" and x[2] == "data"]
                return bool(cs) and bool(fs) and cs[0] in (0x4000, 0x3fff)
            return False
        n_sel = 0
        okk = True
        for x in P.family(f):
            xcfg = cfg_of(x)
            xloops = [xcfg.natural_loop(e) for e in xcfg.back_edges()]
            sel = []
            for bb, idx, s in x.stmts():
                rv = s.get("rv")
                if rv and rv["k"] == "agg" and rv.get("variant") == "Some" and len(s["p"]) == 1 and "DomainTree" in x.local_ty(s["p"][0]) and "&mut" in x.local_ty(s["p"][0]):
                    if any(bb in l for l in xloops):
                        sel.append((bb, s))
            if not sel:
                continue
            small = []
            for sbb, d, te, fe in bool_switches(P, x, m):
                data_first = norm(d[2])[0] == "field"
                k = [const_value(q) for q in (d[2], d[3]) if const_value(q) is not None][0]
                op = d[1] if data_first else {"Lt": "Gt", "Le": "Ge", "Gt": "Lt", "Ge": "Le"}[d[1]]      # data op k
                # the largest offset let through on the "small" side must be 0x3fff, the largest a 14-bit pointer can say
                largest = {"Lt": k - 1, "Le": k, "Gt": k, "Ge": k - 1}[op]
                if largest > 0x3fff:
                    continue
                if op in ("Lt", "Le"):
                    small.extend(te)
                else:
                    small.extend(fe)
            n_sel += len(sel)
            okk = okk and all(edge_dominated(xcfg, small, bb) for bb, _ in sel)
        okk = okk and n_sel >= 1
        ctx.check(okk, "R3", "pointer-target-only-if-offset<0x4000" if okk else "pointer-target-offset-unbounded", ctx.where(b),
                  "a compression pointer has 14 bits: a suffix-tree node may be chosen as the target of a pointer only on the true edge of "
                  "node.offset < 0x4000 (RFC 1035 4.1.4); without that bound names first written at offset >= 16384 (large TCP replies) "
                  "make `0xC0 + (offset >> 8)` overflow / the encoder's assertion fire (%d selection site(s), %d bounding edge(s))" % (len(sel), len(small)))
        # R4: node offsets are the write position and do not wrap
        nodes = list(find_aggs(P, "dnspkt::DomainTree", [b]))
        n = 0
        for _, bb, idx, s in nodes:
            t = norm(T.rvalue(s["rv"], bb, idx))
            data = dict(t[3]).get("data")
            if data is None:
                continue
            n += 1
            pos = any(y[0] == "call" and str(y[1]).endswith("Vec::<T, A>::len") for y in subterms(data)) and any(
                y[0] == "param" and b.local_ty(y[1]) == "usize" for y in subterms(data))
            ctx.check(pos, "R4", "node-offset=write-position+base", ctx.where(b, s["sp"]), "offset is %s" % show(data)[:100])
            wraps = data[0] == "cast" and data[1] == "IntToInt" and data[2] == "u16"
            ctx.check(not wraps, "R4", "node-offset-stored-without-wrap" if not wraps else "node-offset:as-u16-wraps", ctx.where(b, s["sp"]),
                      "`offset as u16` wraps for offsets >= 65536 (the buffer may exceed the limit by one record before it is cut back), "
                      "making a late name look like an early one; store it with a checked/saturating conversion")
            # the label is written after the offset is taken and before the node is built
            lab = [b2 for b2, t2 in b.calls() if (callee_name(t2) or "").endswith("::push_label")]
            lens = [y[3] for y in subterms(data) if y[0] == "call" and str(y[1]).endswith("Vec::<T, A>::len")]
            okk = bool(lens) and any(cfg.dominates(lens[0], l) and cfg.dominates(l, bb) for l in lab)
            ctx.check(okk, "R4", "offset-taken-before-label-written", ctx.where(b, s["sp"]), "pointers then point backwards to the label")
        ctx.floor("R4", "suffix-tree node constructions", n, 2)


def _r4_bases(ctx):
    """record-data names are compressed against offsets relative to the final message: the base handed to the name writer is
    exactly `current output length + 2` (the RDLENGTH octets) for names written into the per-record scratch buffer — the writer adds
    the scratch buffer's own length itself — and 0 for names written straight into the output"""
    from ..affine import affine
    P = ctx.P
    enc = [f for f in P.bodies if f.endswith("dns::dnspkt::push_rr")]
    for f in enc:
        b = P.bodies[f]
        T = terms(P, b)
        n = 0
        for bb, tm in b.calls():
            if not (callee_name(tm) or "").endswith("dnspkt::push_compressed_domain"):
                continue
            n += 1
            recv = borrowed_place(T, tm["args"][0], bb, len(b.blocks[bb]["stmts"]))
            to_out = recv is not None and recv[0] == 1
            base = norm(T.call_args(bb)[3])

            def is_len_out(x):
                if x[0] == "call" and str(x[1]).endswith("Vec::<T, A>::len"):
                    a = norm(x[2][0])
                    return a == ("param", 1)
                return False
            a = affine(base, lambda x: x[0] == "call" and str(x[1]).endswith("::len"))
            if to_out:
                good = a is not None and not a[0] and a[1] == 0
                want = "0"
            else:
                good = a is not None and a[1] == 2 and len(a[0]) == 1 and list(a[0].values()) == [1] and is_len_out(list(a[0])[0])
                want = "len(output) + 2"
            ctx.check(good, "R4", "rdata-name-base=%s" % ("ok" if good else "wrong") + (":scratch" if not to_out else ":output"), ctx.where(b, tm["sp"]),
                      "the offset base for this name must be %s (the name writer adds the length of the buffer it writes into); it is %s — a wrong base "
                      "records the name's labels at the wrong message offset and a later name compressed against them decodes to garbage" % (want, show(base)[:80]))
        ctx.floor("R4", "names written by the record encoder", n, 9)


def _r5_r6(ctx):
    P = ctx.P
    # R6: depth fuel of the pointer follower
    gd = [f for f in P.bodies if f.endswith("parse::PktParser::<'l>::get_domain_into")]
    ctx.floor("R6", "pointer follower", len(gd), 1)
    for f in gd:
        b = P.bodies[f]
        ctx.saw(b)
        T = terms(P, b)
        cfg = cfg_of(b)
        rec = [(bb, tm) for bb, tm in b.calls() if callee_name(tm) == f]

        def m(d):
            if d[0] == "bin" and d[1] in ("Gt", "Ge", "Lt", "Le"):
                xs = [norm(d[2]), norm(d[3])]
                return any(x[0] == "param" and "i32" in b.local_ty(x[1]) or (x[0] == "param" and b.local_ty(x[1]) in ("u8", "u32", "usize", "u16")) for x in xs) and any(x[0] == "const" for x in xs)
            return False
        bound = None
        ok_edges = []
        for sbb, d, te, fe in bool_switches(P, b, m):
            xs = [norm(d[2]), norm(d[3])]
            c = [x[1] for x in xs if x[0] == "const"][0]
            bound = c
            param_first = xs[0][0] == "param"
            if d[1] in ("Gt", "Ge"):
                ok_edges.extend(fe if param_first else te)
            else:
                ok_edges.extend(te if param_first else fe)
        okk = bool(rec) and bound is not None and bound <= tables.DNS_MAX_LABELS and all(edge_dominated(cfg, ok_edges, bb) for bb, _ in rec)
        inc = False
        for bb, tm in rec:
            a = norm(T.call_args(bb)[2])
            inc = any(y[0] == "bin" and y[1].startswith("Add") and is_const(norm(y[3]), 1) for y in subterms(a))
        ctx.check(okk and inc, "R6", "pointer-following-has-bounded-depth:%s" % bound, ctx.where(b),
                  "the recursion on a compression pointer must be under `depth <= K` with constant K <= 127 and pass depth + 1")
        # every loop iteration consumes input or returns: the loop body calls get_u8 first
        loops = [cfg.natural_loop(e) for e in cfg.back_edges()]
        okk = bool(loops) and all(any(b2 in l and (callee_name(t2) or "").endswith("::get_u8") for b2, t2 in b.calls()) for l in loops)
        ctx.check(okk, "R6", "label-loop-consumes-input", ctx.where(b), "")
        # a name is refused for what that name is: the conditions under which the follower gives up read the message, the position and
        # the depth and nothing else the parser may carry. What the encoder guarantees it guarantees per name (pointers go backwards, depth
        # within the bound); a budget shared between the names of a message is a limit the encoder knows nothing about.
        okb = set()
        for bb, idx, st in b.stmts():
            if st["p"] == (0,) and "rv" in st and st["rv"]["k"] == "agg" and st["rv"].get("variant") == "Ok":
                okb.add(bb)
        okb |= {bb for bb, tm in rec}
        foreign = []
        nsw = 0
        for bb, tm in b.terms():
            if tm["k"] != "switch":
                continue
            rejecting = [t for t in cfg.succ[bb] if not (cfg.reachable_from(t) & okb)]
            if not rejecting:
                continue
            nsw += 1
            d = norm(T.at_term(tm["discr"], bb))
            for y in subterms(d):
                if y[0] == "field":
                    base = norm(y[1])
                    while base[0] == "deref":
                        base = norm(base[1])
                    if base[0] == "param" and base[1] == 1 and y[2] not in ("buffer", "offset"):
                        foreign.append((y[2], tm.get("sp")))
        ctx.check(nsw >= 2 and not foreign, "R6", "a-name-is-refused-for-its-own-shape", ctx.where(b, foreign[0][1] if foreign else None),
                  "a condition that makes the name decoder give up reads the parser's `%s`: state carried from one name to the next makes "
                  "the decoder refuse messages the encoder is entitled to write" % (foreign[0][0] if foreign else "-"))
        # R5 (decoder side): total name length bounded by 255, the terminating root octet included.  The decoder keeps a running
        # total of label octets plus their length octets; the largest total it lets through, plus one for the root octet unless the
        # count starts at 1, must not exceed 255.
        def m255(d):
            if d[0] == "bin" and d[1] in ("Gt", "Ge", "Lt", "Le"):
                return any(const_value(x) is not None and 200 <= const_value(x) <= 300 for x in (d[2], d[3])) and \
                    not all(const_value(x) is not None for x in (d[2], d[3]))
            return False
        start = None
        for g in [P.bodies[g] for g in P.bodies if g.endswith("parse::PktParser::<'l>::get_domain")]:
            Tg = terms(P, g)
            for bb2, tm2 in g.calls():
                if callee_name(tm2) == f and len(tm2["args"]) >= 3:
                    bp = borrowed_place(Tg, tm2["args"][2], bb2, len(g.blocks[bb2]["stmts"]))
                    if bp is not None and len(bp) == 1:
                        inits = [const_int(st["rv"]["op"].get("k")) for _, _, st in g.stmts() if tuple(st["p"]) == bp and st.get("rv") and st["rv"]["k"] == "use"
                                 and st["rv"]["op"].get("k")]
                        if len(inits) == 1 and inits[0] is not None:
                            start = inits[0]
        largest = []
        for x in P.family(f) + [P.bodies[g] for g in P.bodies if g.endswith("parse::PktParser::<'l>::get_domain")]:
            for sbb, d, te, fe in bool_switches(P, x, m255):
                cfirst = const_value(d[2]) is not None
                k = const_value(d[2]) if cfirst else const_value(d[3])
                op = d[1]
                if cfirst:      # K op x  ==  x op' K
                    op = {"Gt": "Lt", "Ge": "Le", "Lt": "Gt", "Le": "Ge"}[op]
                # the branch that goes on decoding is the one that does not return the error: with `x > K` / `x >= K` it is the false
                # edge, with `x < K` / `x <= K` the true edge
                largest.append({"Gt": k, "Ge": k - 1, "Lt": k - 1, "Le": k}[op])
        bounded = bool(largest) and start in (0, 1) and max(largest) + (1 - start) <= 255
        ctx.check(bounded, "R5", "decoded-name-length<=255" if bounded else "decoded-name-length-unbounded", ctx.where(b),
                  "RFC 1035 2.3.4 limits a name to 255 octets on the wire, root octet included: the running total (starting at %s) is let through "
                  "up to %s; a longer name is relayed as a malformed message, and without any limit a crafted reply yields names of tens "
                  "of kilobytes and the encoder's `rdata.len() as u16` RDLENGTH casts wrap" % (start, max(largest) if largest else "anything"))


def _weights(t, depth=0):
    """a term built from +, * by constants and widening casts over reader calls, as [(weight, call term)]; None when it is anything else"""
    t = norm(t)
    if depth > 40:
        return None
    if t[0] == "field" and t[2] == "0" and norm(t[1])[0] == "bin" and norm(t[1])[1].endswith("WithOverflow"):
        i = norm(t[1])
        t = ("bin", i[1][:-len("WithOverflow")], i[2], i[3])
    if t[0] == "cast":
        return _weights(t[3], depth + 1)
    if t[0] == "payload" and norm(t[2])[0] == "call":
        return [(1, norm(t[2]))]
    if t[0] == "call" and str(t[1]).endswith("::from_be_bytes") and len(t[2]) == 1:
        a = norm(t[2][0])
        if a[0] == "agg" and a[1] == "array":
            out = []
            for i, (_, e) in enumerate(a[3]):
                w = _weights(e, depth + 1)
                if w is None:
                    return None
                out += [(x[0] * 256 ** (len(a[3]) - 1 - i), x[1]) for x in w]
            return out
        return None
    c = const_of(t)
    if isinstance(c, int):
        return [(c, None)]
    if t[0] == "bin" and t[1] in ("Add", "BitOr"):
        a, b = _weights(t[2], depth + 1), _weights(t[3], depth + 1)
        return None if a is None or b is None else a + b
    if t[0] == "bin" and t[1] in ("Mul", "Shl"):
        a, b = _weights(t[2], depth + 1), _weights(t[3], depth + 1)
        if a is None or b is None:
            return None
        ca, cb = all(x[1] is None for x in a), all(x[1] is None for x in b)
        if ca and cb and len(a) == 1 and len(b) == 1:
            return [(a[0][0] * b[0][0] if t[1] == "Mul" else a[0][0] << b[0][0], None)]
        if ca and t[1] == "Mul":
            a, b, cb = b, a, True
        if not cb or len(b) != 1 or any(x[1] is None for x in a):
            return None
        k = b[0][0] if t[1] == "Mul" else (1 << b[0][0])
        return [(w * k, x) for w, x in a]
    return None


def _r9_record_header_verbatim(ctx):
    """type, class and TTL of a record are carried, not interpreted: the decoder stores the 16/16/32 bits it read (the OPT
    pseudo-record keeps flags and the extended rcode in the TTL field, and unknown classes and types are relayed as they came)"""
    P = ctx.P
    decs = [b for b in P.bodies.values() if "dns::parse::" in b.id and b.kind != "closure" and list(find_aggs(P, "dns::dnspkt::RR", [b]))]
    if not decs:
        if ctx.config in ("default", "dns"):
            ctx.bad("R9", "anchor:record-decoder", "", "no function of dns::parse builds an RR")
        return
    WANT = {"ttl": "u32", "class": "erbium::dns::dnspkt::Class", "rrtype": "erbium::dns::dnspkt::Type"}
    WIDTH = {"u16": 2, "u32": 4}
    n = 0
    readers = set()
    for b in decs:
        ctx.saw(b)
        T = terms(P, b)
        for _, bb, idx, st in find_aggs(P, "dns::dnspkt::RR", [b]):
            fields = dict(T.rvalue(st["rv"], bb, idx)[3])
            for f, ty in WANT.items():
                n += 1
                t = norm(fields.get(f, ("unknown",)))
                good, why = False, show(t)[:120]
                if t[0] == "payload":
                    c = norm(t[2])
                    if c[0] == "call" and str(c[1]).endswith("::map_err"):
                        c = norm(c[2][0])
                    if c[0] == "call" and c[1] in P.sigs and sig_output(P.sigs[c[1]]).startswith("std::result::Result<%s," % ty):
                        good = True
                        readers.add(c[1])
                ctx.check(good, "R9", "record-%s-stored-as-read" % f, ctx.where(b, st["sp"]),
                          "the record's %s must be exactly what the %s reader returned (is %s)" % (f, ty.rsplit("::", 1)[-1], why))
    ctx.floor("R9", "record header fields", n, 3)
    # the readers themselves: a newtype around, or directly, the big-endian value of the next 2 / 4 octets
    todo, seen = sorted(readers), set()
    while todo:
        f = todo.pop()
        if f in seen or f not in P.bodies:
            continue
        seen.add(f)
        b = P.bodies[f]
        ctx.saw(b)
        T = terms(P, b)
        cfg = cfg_of(b)
        for bb, idx, st in b.stmts():
            if st["p"] != (0,) or "rv" not in st or st["rv"]["k"] != "agg" or st["rv"].get("variant") != "Ok":
                continue
            v = norm(dict(norm(T.rvalue(st["rv"], bb, idx))[3]).get("0", ("unknown",)))
            if v[0] == "agg" and len(v[3]) == 1:          # Class(x) / Type(x)
                v = norm(v[3][0][1])
            name = f.rsplit("::", 1)[-1]
            if v[0] == "payload" and norm(v[2])[0] == "call" and norm(v[2])[1] in P.sigs and norm(v[2])[1] != f:
                g = norm(v[2])[1]
                ctx.ok("R9", "reader:%s=%s" % (name, g.rsplit("::", 1)[-1]), ctx.where(b, st["sp"]))
                todo.append(g)
                continue
            w = _weights(v)
            m = re.match(r"std::result::Result<(u16|u32),", sig_output(P.sigs[f]))
            okk = False
            if w is not None and m and all(x[1] is not None for x in w):
                width = WIDTH[m.group(1)]
                order = sorted(w, key=lambda x: sum(1 for y in w if cfg.dominates(y[1][3], x[1][3])))
                okk = [x[0] for x in order] == [256 ** (width - 1 - i) for i in range(width)] and len({x[1][1] for x in w}) == 1
            if not okk and m and v[0] == "call" and str(v[1]).endswith("%s>::from_be_bytes" % m.group(1)) and norm(v[2][0])[0] == "repeat":
                # the array filled in order by a loop: `for o in octets.iter_mut() { *o = self.get_u8()? }; from_be_bytes(octets)`
                width = WIDTH[m.group(1)]
                rep = norm(v[2][0])
                reads = [(bb2, tm2) for bb2, tm2 in b.calls() if (callee_name(tm2) or "").endswith("::get_u8")]
                loops = [cfg.natural_loop(e) for e in cfg.back_edges()]
                forward = any((callee_name(tm2) or "").endswith("::iter_mut") for _, tm2 in b.calls()) and not any(
                    (callee_name(tm2) or "").rsplit("::", 1)[-1] in ("rev", "skip", "step_by", "take", "filter", "rchunks") for _, tm2 in b.calls())
                stores = []
                for bb2, idx2, st2 in b.stmts():
                    if len(st2["p"]) == 2 and st2["p"][1] == "*" and st2.get("rv") and b.local_ty(st2["p"][0]).replace(" ", "") == "&mutu8":
                        stores.append(norm(T.rvalue(st2["rv"], bb2, idx2)))
                okk = len(rep) > 2 and const_value(("const", rep[2]) if not isinstance(rep[2], tuple) else rep[2]) in (width, None) and len(reads) == 1 and \
                    any(reads[0][0] in l for l in loops) and forward and len(stores) == 1 and stores[0][0] == "payload" and \
                    norm(stores[0][2])[0] == "call" and str(norm(stores[0][2])[1]).endswith("::get_u8") and b.local_ty(0).startswith("std::result::Result<%s," % m.group(1))
                if okk:
                    arr = [l for l, d in enumerate(b.locals) if d.get("ty", "").replace(" ", "") == "[u8;%d]" % width]
                    okk = len(arr) >= 1
            ctx.check(okk, "R9", "reader:%s=big-endian-octets" % name, ctx.where(b, st["sp"]),
                      "the value must be the next octets in network order, nothing else (is %s)" % show(v)[:160])


def _r10_opt_emitted_with_edns(ctx):
    """the upper eight bits of the response code travel only in the OPT record: the encoder must emit it whenever the message
    carries EDNS data, whatever else is or is not known about the peer (a reply relayed to a client that sent no OPT still needs
    it to say BADVERS / BADCOOKIE instead of NOERROR / YXRRSET)"""
    P = ctx.P
    encs = [b for b in P.bodies.values() if b.id.startswith("erbium::dns::dnspkt::DNSPkt::") and b.kind != "closure"]
    n = 0
    for b in encs:
        T = None
        for _, bb, idx, st in find_aggs(P, "dns::dnspkt::RR", [b]):
            T = T or terms(P, b)
            f = dict(T.rvalue(st["rv"], bb, idx)[3])
            if not is_const(norm(f.get("rrtype", ("unknown",))), 41) and "RR_OPT" not in str(norm(f.get("rrtype", ("unknown",)))):
                continue
            n += 1
            ctx.saw(b)
            cfg = cfg_of(b)
            foreign = []
            for sbb in cfg.dominators(bb):
                tm = b.blocks[sbb]["term"]
                if tm is None or tm["k"] != "switch" or sbb == bb:
                    continue
                edges = cfg.switch_edges(sbb)
                taken = [tgt for _, tgt in edges if cfg.edge_dominates((sbb, tgt), bb)]
                if not taken or len(taken) == len(edges):
                    continue          # both arms rejoin before the record (or the switch has one way out): no dependence
                rets = set(cfg.return_blocks())
                if not any(({tgt} | set(cfg.reachable_from(tgt))) & rets for _, tgt in edges if tgt not in taken):
                    continue          # an assertion: the other way out never returns
                d = norm(T.at_term(tm["discr"], sbb))
                flds = {y[2] for y in subterms(d) if y[0] == "field" and norm(y[1]) in (("deref", ("param", 1)), ("param", 1))}
                if flds - {"edns"}:
                    foreign.append("%s at %s" % (sorted(flds - {"edns"}), P.rel(tm["sp"]) if "sp" in tm else "?"))
            ctx.check(not foreign, "R10", "opt-record-emitted-whenever-edns-data-is-present", ctx.where(b, st["sp"]),
                      "the OPT record may depend on self.edns only; its emission also depends on %s" % (foreign or "-"))
    if ctx.config in ("default", "dns"):
        ctx.floor("R10", "OPT record constructions in the encoder", n, 1)
