"""C06 — the DNS cache honours TTLs (structural clauses)."""
from ..util import *
from ..prov import strip, norm, show, subterms
from ..cfg import cfg_of
from ..callgraph import callgraph
from ..spec import tables
from .. import dnsflags

EXPLANATION = ("section-agreement, dominance and provenance rules: the lifetime is the minimum TTL over exactly the sections whose "
               "TTLs the hit path decrements (answer, authority, additional); a cached reply is produced only on the true edge of "
               "birth + lifetime >= now with decrement now - birth in whole seconds; insertion happens only on the edge "
               "lifetime > 0 with lifetime <- calculate_expiry <- get_expiry for Ok replies; the key takes name, type, DO and CD "
               "from the query and its Eq/Hash are derived over all fields; the same key is used for lookup and insertion; "
               "non-IN queries bypass the cache; TTLs are only ever reduced (Sub); the key's cd/edns_do are decoded from the "
               "wire's CD / DO bits (decode masks equal RFC 4035 / 6891)")
ASSUMPTIONS = ["not decided: anything about real elapsed time; tokio::time::Instant is monotone (trusted)"]
EXTRA_CONFIGS = ["dns"]

SECTIONS = {"answer", "nameserver", "additional"}


def _r6_entry_written_whole(ctx):
    """an entry's reply, birth and lifetime describe one upstream reply: wherever an existing entry is refreshed field by field,
    the lifetime is refreshed with it (otherwise the new reply is served for the old reply's lifetime)"""
    P = ctx.P
    from ..oblig import Typer, _strip_ref
    n = 0
    for b in P.bodies.values():
        if "dns::cache" not in b.id or "::test" in b.id:
            continue
        stores = {}
        ty = None
        for bb, idx, st in b.stmts():
            pl = st["p"]
            if len(pl) >= 2 and pl[-1] in (".reply", ".birth", ".lifetime") and "rv" in st:
                ty = ty or Typer(P, b)
                bt = ty.place_ty(pl[:-1])
                if bt and _strip_ref(bt).endswith("cache::CacheValue"):
                    stores.setdefault(pl[:-1], {}).setdefault(pl[-1], []).append((bb, st))
        cfg = cfg_of(b) if stores else None
        for base, flds in stores.items():
            for f in (".reply", ".birth"):
                for bb, st in flds.get(f, []):
                    n += 1
                    ctx.saw(b)
                    okk = any(cfg.dominates(bb, b2) or cfg.dominates(b2, bb) for b2, _ in flds.get(".lifetime", []))
                    ctx.check(okk, "R6", "entry-refreshed-with-its-lifetime:%s" % f[1:], ctx.where(b, st["sp"]),
                              "an existing cache entry gets a new %s but keeps its old lifetime: the refreshed reply is then served (and its "
                              "TTLs decremented) for as long as the previous reply was valid" % f[1:])
            # ... and a new reply is born when it is stored: the hit path subtracts the entry's age from the reply's TTLs
            for bb, st in flds.get(".reply", []):
                okb = any(cfg.dominates(bb, b2) or cfg.dominates(b2, bb) for b2, _ in flds.get(".birth", []))
                ctx.check(okb, "R6", "entry-refreshed-with-its-birth", ctx.where(b, st["sp"]),
                          "an existing cache entry gets a new reply but keeps its old birth: the new reply's TTLs are then reduced by the age of "
                          "the reply it replaced")
    ctx.ok("R6", "field-wise entry refreshes examined", "", "%d" % n)


def cg_callers(P, f):
    from ..callgraph import callgraph
    return callgraph(P).callers(f)


def run(ctx):
    P = ctx.P
    cg = callgraph(P)
    _r6_entry_written_whole(ctx)
    # ---------------- R1 section agreement
    exp = [f for f in fn_with_sig(P, ["DNSPkt"], "std::time::Duration") if f in P.bodies]
    ctx.floor("R1", "lifetime function (&DNSPkt) -> Duration", len(exp), 1)
    folded = set()
    for f in exp:
        b = P.bodies[f]
        ctx.saw(b)
        T = terms(P, b)
        rt = [norm(T.call_term(tm, bb)) for bb, tm in b.calls() if tm["dest"] == (0,)]
        for r in rt:
            for s in subterms(r):
                if s[0] == "field" and s[2] in SECTIONS:
                    folded.add(s[2])
            names = [s[1].rsplit("::", 1)[-1] for s in subterms(r) if s[0] == "call" and isinstance(s[1], str)]
            ctx.check("min" in names and "max" not in names and "sum" not in names, "R1", "lifetime-is-the-minimum", ctx.where(b),
                      "the lifetime must be the minimum over the records (iterator reducers: %s)" % [n for n in names if n in ("min", "max", "sum", "fold", "last", "next")])
            # the mapped quantity is rr.ttl
            maps_ttl = False
            for s in subterms(r):
                if s[0] == "agg" and s[1].startswith("closure:") and s[1][8:] in P.bodies:
                    cb = P.bodies[s[1][8:]]
                    Tc = terms(P, cb)
                    for b2, tm2 in cb.calls():
                        if tm2["dest"] == (0,) and any(y[0] == "field" and y[2] == "ttl" for y in subterms(norm(Tc.call_term(tm2, b2)))):
                            maps_ttl = True
            ctx.check(maps_ttl, "R1", "lifetime-folds-record-ttl", ctx.where(b), "the folded quantity must be each record's ttl")
    dec = [f for f in fn_with_sig(P, ["DNSPkt", "u32"], "DNSPkt") if f in P.bodies]
    decremented = set()
    for f in dec:
        b = P.bodies[f]
        T = terms(P, b)
        for _, bb, idx, s in find_aggs(P, "dns::dnspkt::DNSPkt", [b]):
            t = norm(T.rvalue(s["rv"], bb, idx))
            for fld, v in t[3]:
                if fld in SECTIONS and any(y[0] == "agg" and y[1].startswith("closure:") for y in subterms(v)):
                    decremented.add(fld)
    ctx.check(folded >= decremented and decremented == SECTIONS, "R1", "lifetime-sections>=decremented-sections", "",
              "sections folded into the lifetime: %s; sections whose TTLs are decremented on a hit: %s" % (sorted(folded), sorted(decremented)))

    # ---------------- R2 hit edge
    get = [f for f, s in P.sigs.items() if len(s["inputs"]) == 3 and "CacheKey" in s["inputs"][1] and s["inputs"][2].endswith("Instant") and f in P.bodies]
    ctx.floor("R2", "cache lookup", len(get), 1)
    for f in get:
        b = P.bodies[f]
        ctx.saw(b)
        T = terms(P, b)
        cfg = cfg_of(b)
        hits = []
        for bb, tm in b.calls():
            n = callee_name(tm) or ""
            if "clone_with_ttl_decrement" in n:
                hits.append((bb, tm))

        def is_expiry(x):
            x = norm(x)
            if x[0] == "call" and str(x[1]).endswith("CacheValue::expiry"):
                return True
            # birth + lifetime spelled out
            return x[0] == "call" and " as std::ops::Add" in str(x[1]) and len(x[2]) == 2 and \
                {norm(x[2][0])[2] if norm(x[2][0])[0] == "field" else None, norm(x[2][1])[2] if norm(x[2][1])[0] == "field" else None} == {"birth", "lifetime"}

        def polarity(d):
            """+1: the hit is the true edge, -1: the hit is the false edge, 0: not the expiry test.
            expiry >= now, now <= expiry (hit when true); expiry < now, now > expiry (hit when false)"""
            if d[0] != "call" or len(d[2]) != 2:
                return 0
            op = str(d[1]).rsplit("::", 1)[-1]
            x, y = norm(d[2][0]), norm(d[2][1])
            if op == "ge" and is_expiry(x) and y[0] == "param":
                return 1
            if op == "le" and is_expiry(y) and x[0] == "param":
                return 1
            if op == "lt" and is_expiry(x) and y[0] == "param":
                return -1
            if op == "gt" and is_expiry(y) and x[0] == "param":
                return -1
            return 0
        te_all = []
        for sbb, d, te, fe in bool_switches(P, b, lambda d: polarity(d) != 0):
            te_all.extend(te if polarity(d) > 0 else fe)
        for bb, tm in hits:
            ctx.check(edge_dominated(cfg, te_all, bb), "R2", "hit-only-while-expiry>=now", ctx.where(b, tm["sp"]),
                      "a cached reply may be produced only on the true edge of entry.expiry() >= now (%d such edge(s))" % len(te_all))
            a = norm(T.call_args(bb)[1])
            good = a[0] == "call" and (" as std::ops::Sub" in str(a[1]) or str(a[1]).rsplit("::", 1)[-1] in ("duration_since", "saturating_duration_since")) and \
                len(a[2]) == 2 and norm(a[2][0])[0] == "param" and norm(a[2][1])[0] == "field" and norm(a[2][1])[2] == "birth"
            ctx.check(good, "R2", "decrement=now-birth", ctx.where(b, tm["sp"]), "the TTL decrement must be now - entry.birth (is %s)" % show(a)[:100])
            # same entry for the test and for the copy
            r = norm(T.call_args(bb)[0])
            ctx.check(any(y[0] == "call" and str(y[1]).endswith("HashMap::<K, V, S>::get") or (y[0] == "call" and str(y[1]).endswith("::get")) for y in subterms(r)),
                      "R2", "hit-serves-the-looked-up-entry", ctx.where(b, tm["sp"]), "")
        ctx.floor("R2", "hit sites", len(hits), 1)
    for fid, b in P.bodies.items():
        if fid.endswith("CacheValue::expiry"):
            ctx.saw(b)
            T = terms(P, b)
            rt = [norm(T.call_term(tm, bb)) for bb, tm in b.calls() if tm["dest"] == (0,)]
            good = len(rt) == 1 and " as std::ops::Add" in str(rt[0][1]) and {norm(a)[2] for a in rt[0][2] if norm(a)[0] == "field"} == {"birth", "lifetime"}
            ctx.check(good, "R2", "expiry=birth+lifetime", ctx.where(b), "%s" % [show(r) for r in rt])
    # whole seconds: as_secs of the decrement in the Ok arm
    for fid, b in P.bodies.items():
        if fid.endswith("cache::clone_with_ttl_decrement_out_reply"):
            ctx.saw(b)
            T = terms(P, b)
            good = False
            for bb, tm in b.calls():
                if (callee_name(tm) or "").endswith("DNSPkt::clone_with_ttl_decrement"):
                    a = norm(T.call_args(bb)[1])
                    good = any(y[0] == "call" and y[1] == "std::time::Duration::as_secs" and norm(y[2][0])[0] == "param" for y in subterms(a)) and not any(
                        y[0] == "bin" for y in subterms(a))
            ctx.check(good, "R2", "decrement-in-whole-seconds", ctx.where(b), "TTLs are reduced by decrement.as_secs()")

    # ... and `now` is now: every caller of the lookup reads the clock for that lookup, with no suspension point between the reading and
    # the call.  A time taken before waiting for the upstream makes an entry that lapsed during the wait look alive, and ages it by
    # nothing.
    n_now = 0
    for f in get:
        for cb, bb, tm in cg_callers(P, f):
            if "::test" in cb.id:
                continue
            n_now += 1
            ctx.saw(cb)
            Tc = terms(P, cb)
            ccfg = cfg_of(cb)
            a = norm(Tc.call_args(bb)[2])
            fresh = a[0] == "call" and str(a[1]).endswith("Instant::now") and len(a) > 3
            stale = []
            if fresh:
                nb = a[3]
                fwd = ccfg.reachable_from(nb)
                back, todo = set(), [bb]
                while todo:
                    x = todo.pop()
                    if x in back:
                        continue
                    back.add(x)
                    if x != nb:
                        todo.extend(ccfg.pred[x])
                stale = [x for x in (fwd & back) if x != bb and (cb.blocks[x]["term"] or {}).get("k") == "yield"]
            ctx.check(fresh and not stale, "R2", "lookup-time-is-read-for-the-lookup:%s" % cb.id.split("::{")[0].rsplit("::", 1)[-1], ctx.where(cb, tm["sp"]),
                      "the time handed to the cache lookup must be Instant::now() read with no await between the reading and the lookup "
                      "(is %s; suspension points in between: %d)" % (show(a)[:60], len(stale)))
    ctx.floor("R2", "callers of the cache lookup", n_now, 1)

    # ---------------- R3/R4/R5 in the cache handler
    h = "erbium::dns::cache::CacheHandler::handle_query"
    if h not in P.bodies:
        ctx.bad("R3", "anchor", "", "cache handler not found")
        return
    b = body_or_coroutine(P, h)
    ctx.saw(b)
    T = terms(P, b)
    cfg = cfg_of(b)
    ins = [(bb, tm) for bb, tm in b.calls() if (callee_name(tm) or "").endswith("insert_cache_entry")]
    look = [(bb, tm) for bb, tm in b.calls() if callee_name(tm) in get]
    nexts = [(bb, tm) for bb, tm in b.calls() if (callee_name(tm) or "").endswith("outquery::OutQuery::handle_query")]

    def m_gt(d):
        if d[0] == "call" and str(d[1]).endswith("::gt") and len(d[2]) == 2:
            a, c = norm(d[2][0]), norm(d[2][1])
            return a[0] == "call" and str(a[1]).endswith("calculate_expiry") and c[0] == "call" and c[1] == "std::time::Duration::from_secs" and is_const(norm(c[2][0]), 0)
        return False
    gt_true = []
    for sbb, d, te, fe in bool_switches(P, b, m_gt):
        gt_true.extend(te)
    for bb, tm in ins:
        ctx.check(edge_dominated(cfg, gt_true, bb), "R3", "insert-only-if-lifetime>0", ctx.where(b, tm["sp"]),
                  "a reply with lifetime 0 must not be cached: insertion must be dominated by the true edge of expiry > 0 s")
        a = [norm(x) for x in T.call_args(bb)]
        exp_ok = a[4][0] == "call" and str(a[4][1]).endswith("calculate_expiry")
        ctx.check(exp_ok, "R3", "inserted-lifetime<-calculate_expiry", ctx.where(b, tm["sp"]), "lifetime is %s" % show(a[4])[:80])
        # the result handed to calculate_expiry and to the insert is the upstream result
        up = [y for y in subterms(a[3]) if y[0] == "call" and str(y[1]).endswith("outquery::OutQuery::handle_query")]
        ctx.check(bool(up), "R3", "inserted-reply<-upstream-result", ctx.where(b, tm["sp"]), "")
    ctx.floor("R3", "cache insertions", len(ins), 1)
    for fid, fb in P.bodies.items():
        if fid.endswith("CacheHandler::calculate_expiry"):
            ctx.saw(fb)
            Tf = terms(P, fb)
            cf = cfg_of(fb)
            good = False
            for bb, tm in fb.calls():
                if callee_name(tm) in exp and tm["dest"] == (0,):
                    a = norm(Tf.call_args(bb)[0])
                    good = a[0] == "payload" and a[1] == "Ok"
            ctx.check(good, "R3", "lifetime-of-ok-reply<-get_expiry", ctx.where(fb), "for an Ok reply the lifetime is the reply's minimum TTL")
            # ... for *every* Ok reply: nothing else is returned on the Ok side of the result (a fixed lifetime for some rcode outlives
            # the TTLs of the records that reply carries)
            ok_edges = []
            for sb, stm in fb.terms():
                if stm["k"] == "switch":
                    d = norm(Tf.at_term(stm["discr"], sb))
                    if d[0] == "discr" and norm(d[1]) == ("param", 2):
                        ok_edges.extend(discr_edges(cf, sb, 0))
            others = []
            for bb, idx, st in fb.stmts():
                if st["p"] == (0,) and "rv" in st and edge_dominated(cf, ok_edges, bb):
                    others.append(P.rel(st["sp"]))
            for bb, tm in fb.calls():
                if tuple(tm["dest"]) == (0,) and callee_name(tm) not in exp and edge_dominated(cf, ok_edges, bb):
                    others.append(P.rel(tm["sp"]))
            ctx.check(bool(ok_edges) and not others, "R3", "every-ok-reply-lives-as-long-as-its-records", ctx.where(fb),
                      "on the Ok side of the upstream result the lifetime must always be get_expiry(reply); other values are returned at %s" % (others or "-"))
        if fid.endswith("CacheHandler::insert_cache_entry"):
            ctx.saw(fb)
            Tf = terms(P, fb)
            for _, bb, idx, s in find_aggs(P, "cache::CacheValue", [fb]):
                t = norm(Tf.rvalue(s["rv"], bb, idx))
                f = dict(t[3])
                ctx.check(norm(f["lifetime"])[0] == "param", "R3", "entry.lifetime<-parameter", ctx.where(fb, s["sp"]), show(f["lifetime"]))
                ctx.check(norm(f["birth"])[0] == "call" and str(norm(f["birth"])[1]).endswith("Instant::now"), "R3", "entry.birth<-now", ctx.where(fb, s["sp"]), show(f["birth"]))
                # the stored reply is the reply the lifetime was computed from: a copy of the parameter, untouched.  TTLs rewritten
                # here (a cap, a floor) no longer agree with the lifetime the caller worked out from the originals, and the hit path
                # subtracts the entry's age from them.
                r = norm(f["reply"])
                copied = r[0] == "call" and len(r[2]) == 1 and norm(r[2][0])[0] == "param" and (
                    str(r[1]).endswith("clone_out_reply") or str(r[1]).rsplit("::", 1)[-1] == "clone")
                rl = None
                for o, fname in zip(s["rv"]["ops"], s["rv"]["fields"]):
                    if fname == "reply" and op_place(o) and len(op_place(o)) == 1:
                        rl = op_place(o)[0]
                touched = touched_after_copy(P, fb, rl) if rl is not None else ["?"]
                ctx.check(copied and not touched, "R3", "entry.reply<-the-reply-as-received", ctx.where(fb, s["sp"]),
                          "the stored reply must be a copy of the upstream result, unmodified (is %s; modified at %s)" % (show(r)[:80], touched or "-"))
    # R4 key
    keys = list(find_aggs(P, "cache::CacheKey", [b]))
    ctx.floor("R4", "cache key construction", len(keys), 1)
    want = {"qname": ("in_query", "question", "qdomain"), "qtype": ("in_query", "question", "qtype"),
            "edns_do": ("in_query", "edns_do"), "cd": ("in_query", "cd")}
    kterm = None
    for _, bb, idx, s in keys:
        t = norm(T.rvalue(s["rv"], bb, idx))
        kterm = t
        f = dict(t[3])
        ctx.check(set(f) == set(want), "R4", "key-fields=%s" % "+".join(sorted(f)), ctx.where(b, s["sp"]), "the key must consist of name, type, DO and CD")
        for k, path in want.items():
            if k not in f:
                continue
            rp = resolve_path(P, b, f[k])
            good = rp is not None and param_ty(rp[0], rp[1]).endswith("DnsMessage") and rp[2] == path
            ctx.check(good, "R4", "key.%s<-query.%s" % (k, ".".join(path[1:])), ctx.where(b, s["sp"]), "is %s" % show(f[k])[:80])
    # ... and nowhere else in the cache is a key made up: an entry is only ever looked up under the key of the query being answered
    for ob in P.bodies.values():
        if ob.id == b.id or "dns::cache::" not in ob.id or "::test" in ob.id:
            continue
        for _, bb2, idx2, s2 in find_aggs(P, "cache::CacheKey", [ob]):
            ctx.saw(ob)
            ctx.bad("R4", "second-key-construction:%s" % ob.id.split("::{")[0].rsplit("::", 1)[-1], ctx.where(ob, s2["sp"]),
                    "a cache key is built outside the query handler: whatever is looked up or stored under it is not the entry of the "
                    "question being answered (name, type, DO and CD of the client's query)")
    for im in P.impls:
        if im["self_ty"].endswith("cache::CacheKey") and im["trait"] in ("std::cmp::PartialEq", "std::hash::Hash"):
            ctx.check(im["auto_derived"], "R4", "key-%s-derived" % im["trait"].split("::")[-1], "crates/erbium-core/src/dns/cache/mod.rs",
                      "CacheKey's %s must involve every field (derived)" % im["trait"])
    ctx.check(sum(1 for im in P.impls if im["self_ty"].endswith("cache::CacheKey") and im["trait"] in ("std::cmp::PartialEq", "std::hash::Hash")) == 2,
              "R4", "key-eq-and-hash-present", "", "")
    # same key for lookup and insert
    for bb, tm in look:
        a = norm(T.call_args(bb)[1])
        ctx.check(a == kterm, "R4", "lookup-uses-the-key", ctx.where(b, tm["sp"]), "")
    for bb, tm in ins:
        a = norm(T.call_args(bb)[2])
        ctx.check(a == kterm, "R4", "insert-uses-the-key", ctx.where(b, tm["sp"]), "")
    # R5 non-IN bypass
    def m_ne(d):
        if d[0] == "call" and str(d[1]).endswith("::ne") and len(d[2]) == 2:
            xs = [norm(x) for x in d[2]]
            return any(x[0] == "field" and x[2] == "qclass" for x in xs) and any(x[0] == "const" and len(x) > 2 and str(x[2]).endswith("CLASS_IN") for x in xs)
        return False
    fe_all = []
    n_sw = 0
    for sbb, d, te, fe in bool_switches(P, b, m_ne):
        fe_all.extend(fe)
        n_sw += 1
    for bb, tm in look + ins:
        ctx.check(edge_dominated(cfg, fe_all, bb), "R5", "cache-touched-only-for-class-IN:%s" % (callee_name(tm) or "").split("::")[-1], ctx.where(b, tm["sp"]),
                  "lookups and insertions must be dominated by the false edge of qclass != CLASS_IN")
    ctx.floor("R5", "class test", n_sw, 1)

    # ---------------- R7 key bits decoded from the wire's CD / DO bits
    tab, info = dnsflags.decode_table(P)
    if tab is None:
        ctx.bad("R7", "decoder-not-found", "", "cannot find the DNS header decoder")
    else:
        db, sp = info
        ctx.saw(db)
        cd = tab.get("cd", {})
        ctx.check(cd.get("octet") == 2 and cd.get("mask") == tables.DNS_FLAG2["cd"], "R7", "decode-mask(cd)=0x%02x" % (cd.get("mask") or 0), ctx.where(db, sp),
                  "the key's checking-disabled component must be the wire's CD bit: octet 3 mask 0x%02x (RFC 4035 3.2.2); the decoder uses octet %s mask 0x%02x"
                  % (tables.DNS_FLAG2["cd"], (cd.get("octet") or 0) + 1, cd.get("mask") or 0))
        do = tab.get("edns_do", {})
        ctx.check(do.get("mask") == tables.DNS_OPT_DO and do.get("of") == "ttl", "R7", "decode-mask(do)=0x%x" % (do.get("mask") or 0), ctx.where(db, sp),
                  "the DO bit is 0x8000 of the OPT TTL field (RFC 6891 6.1.4)")
