"""C08 — ACLs enforced, first match wins (structural clauses)."""
from ..util import *
from ..prov import strip, norm, show, subterms
from ..cfg import cfg_of
from ..callgraph import callgraph
from ..spec import tables

EXPLANATION = ("must-dominate with polarity, who-may-call and table-agreement rules: every content-producing call of an HTTP "
               "route is dominated by the `granted` edge of the permission check the manual prescribes for that path; the DNS "
               "handler chain ACL -> router -> cache -> upstream has exactly those callers and the ACL's call is dominated by "
               "the Ok edge of require_permission(DnsRecursion); the rule list is searched front to back and the first match "
               "decides; PermissionType -> field and access-string -> field tables equal the manual; prefix containment masks "
               "both sides and all four address-family combinations dispatch to an implementation; the default ACLs are the "
               "three documented rules; refusal maps to REFUSED / 403; a subnet list matches when any member contains the "
               "client, an absent condition matches, conditions are conjoined")
ASSUMPTIONS = ["not decided: granted <=> first_match.permits over all address/rule combinations (only the comparison shape, not its "
               "arithmetic for every prefix length)",
               "the manual's `http-ro` alias is documented as metrics+leases while parse_acl and the defaults also grant `http`: tolerated"]
EXPLANATION += '; also: the permission table is checked over reads of the flags per arm with the polarity of the decision; only an absent subnet list matches everyone (chain and match forms); the address tested is the peer address as the socket reported it; default ACLs only when no list was configured'
EXTRA_CONFIGS = ["dns"]


def str_tests(P, body):
    """str == "literal" tests: yields (literal, bb_switch, true_edges, false_edges)"""
    def m(d):
        return d[0] == "call" and "PartialEq" in str(d[1]) and str(d[1]).endswith("::eq") and any(
            norm(a)[0] == "const" and isinstance(norm(a)[1], str) for a in d[2])
    for bb, d, te, fe in bool_switches(P, body, m):
        lit = [norm(a)[1] for a in d[2] if norm(a)[0] == "const" and isinstance(norm(a)[1], str)][0]
        yield lit, bb, te, fe


SHRINKERS = ("truncate", "dedup", "dedup_by", "dedup_by_key", "retain", "retain_mut", "pop", "remove", "swap_remove", "drain", "clear", "split_off")


def _r12_rules_are_the_rules_written(ctx):
    """R12 the list the first-match search walks is the list the operator wrote: the loader removes no rule and no prefix of a rule after
    parsing it (dedup, retain, truncate ..). "Covered by its neighbour" is not a reason: which rule is first to match a client depends
    on every prefix of every rule before it."""
    P = ctx.P
    roots = [f for f in P.bodies if f.endswith("acl::parse_acl") or f.endswith("acl::parse_acls")]
    n = 0
    for r in roots:
        shr = []
        for x in P.family(r):
            n += 1
            ctx.saw(x)
            for bb, tm in x.calls():
                nme = callee_name(tm) or ""
                if nme.rsplit("::", 1)[-1] in SHRINKERS and tm["args"] and ("Vec" in nme or "vec::" in nme or "slice" in nme):
                    shr.append("%s at %s" % (nme.rsplit("::", 1)[-1], P.rel(tm["sp"])))
        ctx.check(not shr, "R12", "parsed-rules-and-prefixes-never-shrink:%s" % r.rsplit("::", 1)[-1], ctx.where(P.bodies[r]),
                  "no rule and no prefix may be removed after parsing: %s" % (shr or "ok"))
    ctx.floor("R12", "functions of the ACL loader", n, 2)


def run(ctx):
    P = ctx.P
    cg = callgraph(P)
    _r12_rules_are_the_rules_written(ctx)
    _r1(ctx, cg)
    _r2(ctx, cg)
    _r3_r9(ctx)
    _r4(ctx)
    _r5(ctx)
    _r6(ctx)
    _r7(ctx)
    _r8(ctx)
    _r10_r11(ctx)


def _r10_r11(ctx):
    P = ctx.P
    # ---- R10: the address tested against a rule's prefixes is the peer address as the socket reported it
    n = 0
    for b in P.bodies.values():
        if not b.id.startswith("erbium::acl::") or "::test" in b.id:
            continue
        T = None
        for bb, tm in b.calls():
            nme = callee_name(tm) or ""
            if nme.endswith("::contains") and ("config::Prefix" in nme or "config::Match" in (tm["callee"].get("decl") or "") or "Match<" in nme):
                T = T or terms(P, b)
                a = norm(T.call_args(bb)[1])
                n += 1
                ctx.saw(b)
                good = a[0] == "payload" and norm(a[2])[0] == "call" and str(norm(a[2])[1]).endswith("NetAddrExt>::ip") and \
                    any(y[0] == "field" and y[2] == "addr" for y in subterms(a))
                if not good and a[0] == "param" and b.kind == "closure":
                    # `attr.addr.ip().is_some_and(|sockaddr| prefix.contains(sockaddr))`: the closure's argument is the payload of
                    # the Option the adaptor is called on
                    par = P.bodies.get(b.id.rsplit("::{closure", 1)[0])
                    if par is not None:
                        Tp = terms(P, par)
                        for pb, ptm in par.calls():
                            if (callee_name(ptm) or "").rsplit("::", 1)[-1] not in ("is_some_and", "is_none_or", "map", "map_or", "and_then", "filter") or \
                                    "Option" not in (callee_name(ptm) or ""):
                                continue
                            pa = [norm(x) for x in Tp.call_args(pb)]
                            if len(pa) >= 2 and any(y[0] == "agg" and str(y[1]) == "closure:" + b.id for x in pa[1:] for y in subterms(x)):
                                r = pa[0]
                                good = r[0] == "call" and str(r[1]).endswith("NetAddrExt>::ip") and any(y[0] == "field" and y[2] == "addr" for y in subterms(r))
                ctx.check(good, "R10", "rule-tested-against-the-peer-address-as-reported", ctx.where(b, tm["sp"]),
                          "the prefixes of a rule must be tested against attr.addr.ip() itself (is %s): converting the address first "
                          "(to_canonical, to_ipv4, ...) changes which family's containment is used — an IPv4-mapped peer then no longer "
                          "matches `::/0`" % show(a)[:120])
    ctx.floor("R10", "prefix containment tests in the rule matcher", n, 1)
    # ... and ip() itself reports the socket address of its own family
    CONV = ("to_canonical", "to_ipv4", "to_ipv4_mapped", "to_ipv6_mapped", "to_ipv6_compatible")
    impls = [b for b in P.bodies.values() if b.id.endswith("NetAddrExt>::ip") and "erbium_net" in b.id]
    for b in impls:
        ctx.saw(b)
        conv = sorted({(callee_name(tm) or "").rsplit("::", 1)[-1] + " at " + P.rel(tm["sp"]) for x in P.family(b.id) for _, tm in x.calls()
                       if (callee_name(tm) or "").rsplit("::", 1)[-1] in CONV})
        ctx.check(not conv, "R10", "peer-address-reported-in-its-own-family", ctx.where(b),
                  "NetAddrExt::ip() must hand out the socket address as it is; it converts between families (%s), so an IPv4-mapped "
                  "peer is matched as IPv4 and no longer falls under the IPv6 prefixes that contain it" % (conv or "-"))
    ctx.floor("R10", "implementations of the peer-address accessor", len(impls), 1)
    # ---- R11: the built-in rule list applies only when none was configured (an explicit empty list means: nobody)
    n = 0
    for b, bb, idx, st in find_aggs(P, "erbium::config::Config"):
        if not st["rv"].get("adt", "").endswith("config::Config") or "::test" in b.id or "acls" not in (st["rv"].get("fields") or []):
            continue
        T = terms(P, b)
        t = norm(T.rvalue(st["rv"], bb, idx))
        v = norm(dict(t[3])["acls"])
        uses_default = any(y[0] == "call" and str(y[1]).endswith("acl::default_acls") for y in subterms(v)) or any(
            y[0] == "agg" and str(y[1]).startswith("closure:") for y in subterms(v))
        if not uses_default:
            continue
        n += 1
        ctx.saw(b)
        good = False
        if v[0] == "call" and str(v[1]).rsplit("::", 1)[-1] in ("unwrap_or_else", "unwrap_or") and "Option" in str(v[1]):
            src = norm(v[2][0])
            alts = src[1] if src[0] == "phi" else (src,)
            good = all((x[0] == "agg" and x[2] == "None") or (x[0] == "payload" and norm(x[2])[0] == "call" and str(norm(x[2])[1]).endswith("parse_array")) for x in [norm(x) for x in alts])
        ctx.check(good, "R11", "default-acls-only-when-no-list-was-configured", ctx.where(b, st["sp"]),
                  "Config.acls must be <what `acls:` parsed to, as an Option>.unwrap_or_else(default_acls): `acls: []` is a configured list "
                  "(nobody is granted anything) and must not fall back to the defaults (is %s)" % show(v)[:140])
    ctx.floor("R11", "places where the default rule list is installed", n, 1)


# ------------------------------------------------------------------ R1 HTTP routes
def _perm_checks(P, body):
    """calls of the permission gate in this body: (bb, variant name, granted_edges)"""
    T = terms(P, body)
    cfg = cfg_of(body)
    out = []
    for bb, tm in body.calls():
        n = callee_name(tm) or ""
        if n.endswith("http::require_http_permission"):
            perm = norm(T.call_args(bb)[2])
            var = perm[2] if perm[0] == "agg" and perm[1].endswith("acl::PermissionType") else None
            # granted = the None edge of the returned Option<Response>
            granted = []
            for sbb, stm in body.terms():
                if stm["k"] == "switch":
                    d = norm(T.at_term(stm["discr"], sbb))
                    if d[0] == "discr" and d[1][0] == "call" and d[1][3] == bb and d[1][1] == n:
                        granted.extend(discr_edges(cfg, sbb, 0))
            out.append((bb, var, granted))
    return out


def _serve_sites(P, body):
    """calls that produce a non-403 response"""
    out = []
    for bb, tm in body.calls():
        n = callee_name(tm) or ""
        if n.endswith("::permission_denied"):
            continue
        if n.startswith("hyper::Response") and (n.endswith("::new") or n.endswith("::builder")):
            out.append((bb, tm, n.split("::")[-1]))
        elif n.startswith("erbium::http::serve_") and n in P.bodies and "{closure" not in n:
            out.append((bb, tm, n.split("::")[-1]))
        elif n.endswith("::update_metrics") or n.endswith("::get_leases"):
            out.append((bb, tm, n.split("::")[-1]))
    return out


def _r1(ctx, cg):
    P = ctx.P
    routers = []
    for b in P.bodies.values():
        lits = [l for l, _, _, _ in str_tests(P, b)]
        if any(l in tables.HTTP_ROUTE_PERMISSION for l in lits) and any(l.startswith("/") for l in lits) and b.file.endswith("http.rs"):
            routers.append(b)
    if ctx.config == "default":   # the http feature is part of the default build only
        ctx.floor("R1", "HTTP router body", len(routers), 1)
    for body in routers:
        ctx.saw(body)
        cfg = cfg_of(body)
        checks = _perm_checks(P, body)
        routes = {l: te for l, _, te, _ in str_tests(P, body) if l.startswith("/")}
        for path, want in tables.HTTP_ROUTE_PERMISSION.items():
            if path not in routes:
                ctx.bad("R1", "route=%s:absent" % path, ctx.where(body), "the documented path %s is not routed" % path)
        n = 0
        for bb, tm, what in _serve_sites(P, body):
            # which route arm is this site in?
            arm = [p for p, te in routes.items() if edge_dominated(cfg, te, bb)]
            path = arm[0] if len(arm) == 1 else None
            guards = [var for cbb, var, granted in checks if granted and edge_dominated(cfg, granted, bb)]
            n += 1
            where = ctx.where(body, tm["sp"])
            if path is not None and path in tables.HTTP_ROUTE_PERMISSION:
                want = tables.HTTP_ROUTE_PERMISSION[path]
                okk = want in guards
                if not okk and what.startswith("serve_"):
                    okk = _callee_self_guarded(P, callee_name(tm), want)
                ctx.check(okk, "R1", "route=%s:%s:%s" % (path, what, ("guard=" + want) if okk else ("missing=" + want)), where,
                          "the %s response for %s must be produced only on the granted edge of require_http_permission(.., %s); "
                          "dominating grants: %s" % (what, path, want, guards or "none"))
            else:
                ctx.check(bool(guards), "R1", "route=other:%s:guarded" % what, where,
                          "responses for other paths must also be behind a permission check (dominating grants: %s)" % (guards or "none"))
        ctx.floor("R1", "content-producing sites in the HTTP router", n, 5)


def _callee_self_guarded(P, fid, want):
    """the serve function itself checks the permission before producing any response"""
    for b in P.family(fid):
        cfg = cfg_of(b)
        checks = _perm_checks(P, b)
        sites = _serve_sites(P, b)
        if sites and checks:
            return all(any(var == want and granted and edge_dominated(cfg, granted, bb) for _, var, granted in checks) for bb, _, _ in sites)
    return False


# ------------------------------------------------------------------ R2 DNS layering
def _r2(ctx, cg):
    P = ctx.P
    chain = ["erbium::dns::acl::DnsAclHandler::handle_query", "erbium::dns::router::DnsRouteHandler::handle_query",
             "erbium::dns::cache::CacheHandler::handle_query", "erbium::dns::outquery::OutQuery::handle_query"]
    present = [c for c in chain if c in P.bodies]
    ctx.floor("R2", "DNS handler chain", len(present), 4)
    if len(present) < 4:
        return

    def root(b):
        r = b.id
        while P.bodies[r].parent:
            r = P.bodies[r].parent
        return r
    for prev, cur in zip(chain, chain[1:]):
        callers = sorted({root(cb) for cb, _, _ in cg.callers(cur)})
        ctx.check(callers == [prev], "R2", "only-caller:%s<-%s" % (cur.split("::")[-2], prev.split("::")[-2]), "",
                  "%s may be called only from %s (callers: %s)" % (cur, prev, callers))
    callers = sorted({root(cb) for cb, _, _ in cg.callers(chain[0])})
    ctx.check(len(callers) == 1 and callers[0].startswith("erbium::dns::DnsListenerHandler"), "R2", "acl-handler-is-the-entry", "",
              "the listener must enter the chain at the ACL handler (callers: %s)" % callers)
    # the ACL handler: next.handle_query dominated by the Ok edge of require_permission(.., DnsRecursion)
    body = body_or_coroutine(P, chain[0])
    ctx.saw(body)
    T = terms(P, body)
    cfg = cfg_of(body)
    ok_edges = []
    for bb, tm in body.calls():
        n = callee_name(tm) or ""
        if n.endswith("acl::require_permission"):
            perm = norm(T.call_args(bb)[2])
            if perm[0] == "agg" and perm[2] == "DnsRecursion":
                for sbb, stm in body.terms():
                    if stm["k"] == "switch":
                        d = norm(T.at_term(stm["discr"], sbb))
                        if d[0] == "discr" and any(s[0] == "call" and s[3] == bb and s[1] == n for s in subterms(d)) and \
                                any(s[0] == "call" and str(s[1]).endswith("::branch") for s in subterms(d)):
                            ok_edges.extend(discr_edges(cfg, sbb, 0))
    nexts = [(bb, tm) for bb, tm in body.calls() if callee_name(tm) == chain[1]]
    ctx.check(bool(ok_edges) and bool(nexts) and all(edge_dominated(cfg, ok_edges, bb) for bb, _ in nexts), "R2",
              "route-handler-call-dominated-by-dns-recursion-grant", ctx.where(body),
              "a refused client must reach neither cache nor upstream: the call into the router must be dominated by the Ok edge of "
              "require_permission(.., DnsRecursion)? (%d grant edge(s), %d call(s))" % (len(ok_edges), len(nexts)))
    # the client attribute is the query's source address
    for bb, tm in body.calls():
        if (callee_name(tm) or "").endswith("acl::require_permission"):
            a = norm(T.call_args(bb)[1])
            good = a[0] == "agg" and a[1].endswith("acl::Attributes") and norm(dict(a[3])["addr"])[0] == "field" and norm(dict(a[3])["addr"])[2] == "remote_addr"
            ctx.check(good, "R2", "acl-client=query-source", ctx.where(body, tm["sp"]), "the ACL must be evaluated for the query's source address (is %s)" % show(a)[:100])


# ------------------------------------------------------------------ R3 first match, R9 rule matching shape
def _r3_r9(ctx):
    P = ctx.P
    fns = [f for f, s in P.sigs.items() if len(s["inputs"]) == 2 and s["inputs"][0].endswith("[erbium::acl::Acl]") and
           "acl::Permission," in sig_output(s).replace("&'v ", "").replace("&", "") and f in P.bodies]
    ctx.floor("R3", "first-match search", len(fns), 1)
    for f in fns:
        b = P.bodies[f]
        ctx.saw(b)
        T = terms(P, b)
        rets = []
        for bb, tm in b.calls():
            if tm["dest"] == (0,):
                rets.append(norm(T.call_term(tm, bb)))
        okk = False
        why = "unrecognised search idiom; cannot decide"
        for r in rets:
            calls = [s for s in subterms(r) if s[0] == "call" and isinstance(s[1], str)]
            names = [c[1] for c in calls]
            bad = [n for n in names if n.rsplit("::", 1)[-1] in ("rev", "last", "max_by", "min_by", "max_by_key", "min_by_key", "fold", "rfind", "rposition", "next_back", "nth_back", "skip")]
            fwd = [n for n in names if n.endswith("Iterator>::find_map") or n.endswith("Iterator>::find") or n in ("std::iter::Iterator::find_map", "std::iter::Iterator::find")]
            it = [c for c in calls if c[1].endswith("::iter") and norm(c[2][0])[0] == "param"]
            if fwd and it and not bad:
                okk = True
                why = "forward %s over the rule slice" % fwd[0].split("::")[-1]
            elif bad:
                why = "the search is not first-match: %s" % bad
        if not rets:
            # loop idiom: for a in acl { if let Some(p) = a.check(attr) { return Ok(p) } }
            cfg = cfg_of(b)
            loops = [cfg.natural_loop(e) for e in cfg.back_edges()]
            if loops and not any((callee_name(tm) or "").endswith("::rev") for _, tm in b.calls()):
                okk = any("Iter" in (callee_name(tm) or "") and (callee_name(tm) or "").endswith("::next") for _, tm in b.calls())
                why = "forward loop over the rule slice"
        ctx.check(okk, "R3", "first-match-search-is-forward", ctx.where(b), why)
        # the per-rule test used by the search is Acl::check
    chk = [f for f in P.bodies if f.endswith("acl::Acl::check")]
    ctx.floor("R9", "rule matcher", len(chk), 1)
    for f in chk:
        b = P.bodies[f]
        ctx.saw(b)
        T = terms(P, b)
        cfg = cfg_of(b)
        # any-member: the subnet condition uses Iterator::any over the list
        fam = P.family(f)
        anyc = [1 for x in fam for _, tm in x.calls() if (callee_name(tm) or "").endswith("Iterator>::any") or (callee_name(tm) or "") == "std::iter::Iterator::any"]
        allc = [1 for x in fam for _, tm in x.calls() if (callee_name(tm) or "").endswith("Iterator>::all") or (callee_name(tm) or "") == "std::iter::Iterator::all"]
        okk = bool(anyc) and not allc
        if not okk and not allc:
            # the same search written (or rewritten by the inliner) as a loop: a member that contains the client ends the loop
            for x in fam:
                xcfg = cfg_of(x)
                loops = [xcfg.natural_loop(e) for e in xcfg.back_edges()]
                for sbb, d, te, fe in bool_switches(P, x, lambda d: d[0] == "call" and str(d[1]).rsplit("::", 1)[-1] in ("check_subnet", "contains")):
                    mine = [l for l in loops if sbb in l]
                    if mine:
                        loop = min(mine, key=len)
                        if te and all(tgt not in loop or not (set(xcfg.reachable_from(tgt)) & {sbb}) or _leaves(xcfg, tgt, loop) for _, tgt in te) and \
                                all(_stays(xcfg, tgt, loop) for _, tgt in fe):
                            okk = True
        ctx.check(okk, "R9", "subnet-list-matches-any-member", ctx.where(b), "a subnet list matches when any member contains the client")
        # absent condition => true
        dfl = []
        for bb, tm in b.calls():
            if (callee_name(tm) or "").endswith("::unwrap_or"):
                dfl.append(norm(T.call_args(bb)[1]))
        match_form = None
        if not dfl:
            # the same condition written as a match on self.subnet: on the None edge no refusal is reachable before the next
            # condition is looked at; on the Some edge no acceptance is reachable without a member test
            none_ret = {bb for bb, idx, s_ in b.stmts() if s_["p"] == (0,) and "rv" in s_ and s_["rv"]["k"] == "agg" and s_["rv"].get("variant") == "None"}
            some_ret = {bb for bb, idx, s_ in b.stmts() if s_["p"] == (0,) and "rv" in s_ and s_["rv"]["k"] == "agg" and s_["rv"].get("variant") == "Some"}
            def discr_of_field(bb, tm, fld):
                d = norm(T.at_term(tm["discr"], bb))
                if d[0] != "discr":
                    return False
                x = norm(d[1])
                while x[0] in ("ref", "deref"):
                    x = norm(x[1])
                return x[0] == "field" and x[2] == fld
            sw_sub = [bb for bb, tm in b.terms() if tm["k"] == "switch" and discr_of_field(bb, tm, "subnet")]
            sw_unix = [bb for bb, tm in b.terms() if tm["k"] == "switch" and discr_of_field(bb, tm, "unix")]
            tests = tuple(bb for x in [b] for bb, tm in x.calls() if (callee_name(tm) or "").rsplit("::", 1)[-1] in ("check_subnet", "contains", "any"))
            if sw_sub and sw_unix and none_ret and some_ret:
                # (paths are followed with the values of the boolean locals they set: `let subnet_ok = ..; let unix_ok = ..; a && b`)
                absent_ok = all(not (none_ret & cfg.reachable_from_flags(tgt, blocked=tuple(sw_unix))) for sb in sw_sub for _, tgt in discr_edges(cfg, sb, 0))
                only_absent = bool(tests) and all(not (some_ret & cfg.reachable_from_flags(tgt, blocked=tests)) for sb in sw_sub for _, tgt in discr_edges(cfg, sb, 1))
                match_form = (absent_ok, only_absent)
        if match_form is not None:
            ctx.check(match_form[0], "R9", "absent-subnet-condition-matches", ctx.where(b),
                      "match form: from the edge where self.subnet is None no refusal may be reachable before the next condition is examined")
            ctx.check(match_form[1], "R9", "only-an-absent-subnet-list-matches-everyone", ctx.where(b),
                      "match form: from the edge where self.subnet is Some(list) no acceptance may be reachable without testing the members "
                      "(an empty list must match nobody)")
        else:
            ctx.check([const_of(d) for d in dfl] == [True] and all(len(d) == 3 for d in dfl), "R9", "absent-subnet-condition-matches", ctx.where(b), "unwrap_or default(s): %s" % [show(d) for d in dfl])
        # ... and only an absent list does: the Option that reaches map(any)/unwrap_or(true) is self.subnet itself, not a filtered one
        for bb, tm in b.calls():
            if (callee_name(tm) or "").endswith("::unwrap_or"):
                src = norm(T.call_args(bb)[0])
                chain = []
                y = src
                while y[0] == "call" and len(chain) < 8:
                    chain.append(str(y[1]).rsplit("::", 1)[-1])
                    y = norm(y[2][0]) if y[2] else ("unknown",)
                okc = chain == ["map"] and y[0] == "field" and y[2] == "subnet"
                ctx.check(okc, "R9", "only-an-absent-subnet-list-matches-everyone", ctx.where(b, tm["sp"]),
                          "the condition must be self.subnet.as_ref().map(any-member-contains).unwrap_or(true); found chain %s over %s — an "
                          "empty list (what the default rules get when no addresses are configured) must match nobody" % (chain, show(y)[:40]))
        # the unix condition is conjoined with what was found before, not assigned over it: the comparison's result reaches the
        # accumulator only on the edge where the accumulator was still true
        for bb, idx, st in b.stmts():
            rv = st.get("rv")
            if not rv or len(st["p"]) != 1 or b.local_ty(st["p"][0]) != "bool" or rv["k"] != "bin" or rv["op"] not in ("Eq", "Ne"):
                continue
            t = norm(T.rvalue(rv, bb, idx))
            if not any(y[0] == "call" and str(y[1]).endswith("as_unix_addr") for y in subterms(t)):
                continue
            acc = [l for l in range(len(b.locals)) if b.local_name(l) is not None and b.local_ty(l) == "bool" and l > b.arg_count and
                   any(tuple(s2["p"]) == (l,) and s2.get("rv") and s2["rv"]["k"] == "use" and s2["rv"]["op"].get("k", {}).get("bool") is True for _, _, s2 in b.stmts())]
            if len(acc) != 1:
                continue          # no single accumulator initialised to true: another shape (the match / early-return forms have their own clauses)
            L = acc[0]
            kept = []
            for sb, t2 in b.terms():
                if t2["k"] == "switch" and op_place(t2["discr"]) is not None:
                    src = op_place(t2["discr"])
                    # the switch reads the accumulator (directly or through a copy made in the same block)
                    reads = src == (L,) or any(s2.get("rv") and s2["rv"]["k"] == "use" and tuple(s2["p"]) == src and op_place(s2["rv"]["op"]) == (L,)
                                               for s2 in b.blocks[sb]["stmts"])
                    if reads:
                        kept += [(sb, tgt) for v, tgt in cfg.switch_edges(sb) if v != 0]
            ctx.check(edge_dominated(cfg, kept, bb), "R9", "unix-condition-is-conjoined", ctx.where(b, st["sp"]),
                      "the unix comparison is evaluated into `%s` without regard to its previous value: a rule's conditions must all hold" % b.local_name(L))
        # the result is Some(&permission) only when the conjunction holds
        somes = [(bb, idx, s) for bb, idx, s in b.stmts() if s["p"] == (0,) and "rv" in s and s["rv"]["k"] == "agg" and s["rv"].get("variant") == "Some"]
        okk = bool(somes)
        for bb, idx, s in somes:
            t = norm(T.rvalue(s["rv"], bb, idx))
            okk = okk and norm(t[3][0][1])[0] == "field" and norm(t[3][0][1])[2] == "permission"
        ctx.check(okk, "R9", "match-yields-own-permission", ctx.where(b), "a matching rule yields its own permission set")
        # unix condition: compared for equality with the configured flag
        # (== flag feeding the conjunction, or a direct test either way round with the refusal on the mismatch edge)
        some_ret = {bb for bb, idx, s_ in b.stmts() if s_["p"] == (0,) and "rv" in s_ and s_["rv"]["k"] == "agg" and s_["rv"].get("variant") == "Some"}
        okk = False
        for bb, idx, s_ in b.stmts():
            rv = s_.get("rv")
            if not (rv and rv["k"] == "bin" and rv["op"] in ("Eq", "Ne")):
                continue
            t = norm(T.rvalue(rv, bb, idx))
            if not (any(y[0] == "call" and str(y[1]).endswith("as_unix_addr") for y in subterms(t)) and
                    any(y[0] == "field" and y[2] == "unix" for y in subterms(t))):
                continue
            # a switch directly on the comparison?
            direct = [(sbb, tm) for sbb, tm in b.terms() if tm["k"] == "switch" and op_place(tm["discr"]) == tuple(s_["p"])]
            if not direct:
                okk = okk or rv["op"] == "Eq"          # the value flows into the conjunction: `ok && (is_unix == flag)`
                continue
            for sbb, tm in direct:
                mismatch = [tgt for v, tgt in cfg.switch_edges(sbb) if (v != 0) == (rv["op"] == "Ne")]
                okk = okk or (bool(mismatch) and all(not (some_ret & cfg.reachable_from(tgt)) for tgt in mismatch))
        ctx.check(okk, "R9", "unix-condition-compared-with-flag", ctx.where(b),
                  "match-unix compares is_unix with the configured boolean, and a mismatch never yields the permission")


# ------------------------------------------------------------------ R4 PermissionType -> field
def _r4(ctx):
    P = ctx.P
    f = "erbium::acl::require_permission"
    if f not in P.bodies:
        ctx.bad("R4", "anchor", "", "require_permission not found")
        return
    b = P.bodies[f]
    ctx.saw(b)
    T = terms(P, b)
    cfg = cfg_of(b)
    adt = P.adt("erbium::acl::PermissionType")
    variants = [v["name"] for v in adt["variants"]] if adt else []
    # switch on the discriminant of the permission parameter
    psw = []
    for bb, tm in b.terms():
        if tm["k"] == "switch":
            d = norm(T.at_term(tm["discr"], bb))
            if d[0] == "discr":
                rp = resolve_path(P, b, d[1])
                if rp is not None and param_ty(rp[0], rp[1]).endswith("acl::PermissionType"):
                    psw.append(bb)
    # every read of a permission flag in the function, with the arm of the permission switch it stands under
    def rv_ops(rv):
        k = rv["k"]
        if k in ("use", "repeat", "cast"):
            return [rv["op"]]
        if k == "bin":
            return [rv["a"], rv["b"]]
        if k == "un":
            return [rv["a"]]
        if k == "agg":
            return list(rv["ops"])
        return []
    reads = []
    for bb, idx, st in b.stmts():
        for o in (rv_ops(st["rv"]) if "rv" in st else []):
            pl = op_place(o)
            if pl and any(isinstance(x, str) and x.startswith(".allow_") for x in pl):
                reads.append((bb, [x for x in pl if isinstance(x, str) and x.startswith(".allow_")][0][1:], st["sp"], T.place(pl, bb, idx)))
    for bb, tm in b.calls():
        for o in tm["args"]:
            pl = op_place(o)
            if pl and any(isinstance(x, str) and x.startswith(".allow_") for x in pl):
                reads.append((bb, [x for x in pl if isinstance(x, str) and x.startswith(".allow_")][0][1:], tm["sp"],
                              T.place(pl, bb, len(b.blocks[bb]["stmts"]))))
    n = 0
    seen_vars = set()
    for bb, fld, sp, term in reads:
        n += 1
        var = None
        for sbb in psw:
            for i, v in enumerate(variants):
                if edge_dominated(cfg, discr_edges(cfg, sbb, i), bb) and len(discr_edges(cfg, sbb, i)) == 1 and \
                        sum(1 for j in range(len(variants)) if discr_edges(cfg, sbb, j) == discr_edges(cfg, sbb, i)) == 1:
                    var = v
        seen_vars.add(var)
        want = tables.PERMISSION_FIELD.get(var)
        ctx.check(want == fld, "R4", "permission-table:%s->%s" % (var, fld), ctx.where(b, sp),
                  "permission %s must be decided by field %s (uses %s)" % (var, want, fld))
        # and comes from the first matching rule
        ctx.check(any(s_[0] == "call" and str(s_[1]).endswith("check_authenticated") for s_ in subterms(norm(term))), "R4",
                  "permission-read-from-first-match:%s" % var, ctx.where(b, sp), "")
    for v in variants:
        ctx.check(v in seen_vars, "R4", "permission-arm-reads-its-flag:%s" % v, ctx.where(b), "no read of a permission flag under the %s arm" % v)
    # polarity: access is granted (Ok) only where the flag is true
    def flagish(d):
        return any((x[0] == "field" and str(x[2]).startswith("allow_")) for x in subterms(d))
    granted = 0
    oks = [(bb, st) for bb, idx, st in b.stmts() if st["p"] == (0,) and "rv" in st and st["rv"]["k"] == "agg" and st["rv"].get("variant") == "Ok"]
    if oks:
        te_all = []
        for sbb, d, te, fe in bool_switches(P, b, flagish):
            te_all.extend(te)
        for bb, st in oks:
            granted += 1
            ctx.check(edge_dominated(cfg, te_all, bb), "R4", "granted-only-when-the-flag-is-set", ctx.where(b, st["sp"]),
                      "Ok(()) must lie on the true edge of the test of the permission flag")
    for bb, tm in b.calls():
        cn = callee_name(tm)
        pos = [i for i, a_ in enumerate(T.call_args(bb)) if norm(a_)[0] == "field" and str(norm(a_)[2]).startswith("allow_")]
        if cn in P.bodies and pos:
            cb = P.bodies[cn]
            ccfg = cfg_of(cb)
            te_all = []
            for sbb, d, te, fe in bool_switches(P, cb, lambda d: norm(d) in [("param", i + 1) for i in pos]):
                te_all.extend(te)
            for bb2, idx2, st2 in cb.stmts():
                if st2["p"] == (0,) and "rv" in st2 and st2["rv"]["k"] == "agg" and st2["rv"].get("variant") == "Ok":
                    granted += 1
                    ctx.check(edge_dominated(ccfg, te_all, bb2), "R4", "granted-only-when-the-flag-is-set:%s" % cn.rsplit("::", 1)[-1], ctx.where(cb, st2["sp"]),
                              "Ok(()) must lie on the true edge of the test of the flag handed in")
    ctx.floor("R4", "grant sites", granted, 1)
    ctx.floor("R4", "permission table arms", n, 4)


# ------------------------------------------------------------------ R5 access strings
def _r5(ctx):
    P = ctx.P
    f = "erbium::acl::parse_acl"
    if f not in P.bodies:
        ctx.bad("R5", "anchor", "", "parse_acl not found")
        return
    b = P.bodies[f]
    ctx.saw(b)
    T = terms(P, b)
    cfg = cfg_of(b)
    # Permission aggregate: field <- local
    fld_of_local = {}
    for _, bb, idx, s in find_aggs(P, "acl::Permission", [b]):
        for fname, o in zip(s["rv"]["fields"], s["rv"]["ops"]):
            pl = op_place(o)
            if pl is not None:
                st = single_def_stmt(T, o, bb, idx)
                src = pl
                if st is not None and st["rv"]["k"] == "use" and op_place(st["rv"]["op"]):
                    src = op_place(st["rv"]["op"])
                fld_of_local[src[0]] = fname
    tests = {l: te for l, _, te, _ in str_tests(P, b)}
    n = 0
    for s_, (must, may) in tables.ACCESS_STRINGS.items():
        if s_ not in tests:
            ctx.bad("R5", "access-string:%s:absent" % s_, ctx.where(b), "the documented access string %r is not accepted" % s_)
            continue
        n += 1
        granted = set()
        for bb, idx, st in b.stmts():
            if "rv" in st and st["rv"]["k"] == "use" and st["rv"]["op"].get("k", {}).get("bool") is True and len(st["p"]) == 1 and st["p"][0] in fld_of_local:
                if edge_dominated(cfg, tests[s_], bb):
                    granted.add(fld_of_local[st["p"][0]])
        ctx.check(must <= granted <= may, "R5", "access-string:%s->%s" % (s_, "+".join(sorted(x.replace("allow_", "") for x in granted))), ctx.where(b),
                  "%r must grant %s (and at most %s); it grants %s" % (s_, sorted(must), sorted(may), sorted(granted)))
    ctx.floor("R5", "access strings", n, 6)
    # initial values are false
    inits = [st for bb, idx, st in b.stmts() if "rv" in st and len(st["p"]) == 1 and st["p"][0] in fld_of_local and st["rv"]["k"] == "use" and st["rv"]["op"].get("k", {}).get("bool") is False]
    ctx.check(len(inits) >= 4, "R5", "permissions-default-to-false", ctx.where(b), "%d flags initialised to false" % len(inits))


# ------------------------------------------------------------------ R6 prefix containment
def _r6(ctx):
    P = ctx.P
    n = 0
    for fid, b in P.bodies.items():
        if not (fid.endswith("::contains") and b.kind == "assoc_fn" and (b.impl_self or "").split("::")[-1] in ("Prefix4", "Prefix6", "Ipv4Subnet")):
            continue
        T = terms(P, b)
        # the direct (same family) comparison: return value is Eq(BitAnd(ip, mask), rhs)
        for bb, idx, s in b.stmts():
            if s["p"] == (0,) and "rv" in s and s["rv"]["k"] == "bin" and s["rv"]["op"] == "Eq":
                t = norm(T.rvalue(s["rv"], bb, idx))
                lhs, rhs = norm(t[2]), norm(t[3])
                if not (lhs[0] == "bin" and lhs[1] == "BitAnd"):
                    lhs, rhs = rhs, lhs
                if not (lhs[0] == "bin" and lhs[1] == "BitAnd"):
                    continue
                n += 1
                ctx.saw(b)
                tag = (b.impl_self or "").split("::")[-1]
                masked = (rhs[0] == "bin" and rhs[1] == "BitAnd") or any(
                    s2[0] == "call" and str(s2[1]).endswith("::network") for s2 in subterms(rhs))
                ctor_rejects = False
                if not masked:
                    ctor_rejects = _ctor_rejects_host_bits(P, b.impl_self)
                ctx.check(masked or ctor_rejects, "R6", "contains:%s:%s" % (tag, "both-sides-masked" if (masked or ctor_rejects) else "rhs-unmasked"),
                          ctx.where(b, s["sp"]),
                          "containment must compare (ip & mask) with the *network* address: the right-hand side is %s; a prefix "
                          "written with host bits (accepted by the loader) then matches no address at all" % show(rhs)[:80])
        # the range form: network ..= broadcast contains ip. A half-open range leaves out the highest address of the prefix, which is an
        # ordinary host in a /31 and the only one in a /32
        for bb, tm in b.calls():
            cn = callee_name(tm) or ""
            if not (cn.endswith("::contains") and "ops::Range" in cn.replace("std::ops::range", "ops").replace("core::ops::range", "ops").replace("std::", "").replace("core::", "")):
                continue
            n += 1
            ctx.saw(b)
            tag = (b.impl_self or "").split("::")[-1]
            inclusive = "RangeInclusive" in cn
            ctx.check(inclusive, "R6", "contains:%s:%s" % (tag, "closed-range" if inclusive else "half-open-range"), ctx.where(b, tm["sp"]),
                      "a prefix contains every address from its network address to its highest one inclusive; %s leaves the highest out" % cn)
    ctx.floor("R6", "prefix containment comparisons", n, 3)
    # the mask of a prefix of full length: `MAX >> prefixlen` with prefixlen equal to the width must come out 0 (checked_shr(..)
    # .unwrap_or(0)); a wrapping shift reduces the amount modulo the width, shifts by 0 and turns a host prefix (/32, /128 — the default
    # rules list ::1/128) into "everybody"
    nm = 0
    for fid, b in P.bodies.items():
        root = fid.split("::{")[0]
        if not (root.endswith("::netmask") and any(t in root for t in ("Prefix4", "Prefix6", "Ipv4Subnet"))) or "::test" in fid:
            continue
        nm += 1
        ctx.saw(b)
        bad = [P.rel(tm["sp"]) for bb, tm in b.calls() if (callee_name(tm) or "").rsplit("::", 1)[-1] in ("wrapping_shr", "wrapping_shl", "overflowing_shr", "overflowing_shl",
                                                                                                         "unchecked_shr", "unchecked_shl", "rotate_right", "rotate_left")]
        ctx.check(not bad, "R6", "netmask-shift-is-checked:%s" % root.rsplit("::", 2)[-2].split(" ")[0][-12:], ctx.where(b),
                  "the netmask is computed with a shift that wraps its amount (%s): a prefix of full length then has the empty mask" % (bad or "-"))
    ctx.floor("R6", "netmask functions", nm, 2)
    # all four family combinations dispatch to an implementation
    f = [x for x in P.bodies if "erbium::config::Prefix as erbium::config::Match<std::net::IpAddr>>::contains" in x]
    ctx.floor("R6", "Prefix::contains(IpAddr)", len(f), 1)
    for x in f:
        b = P.bodies[x]
        ctx.saw(b)
        callees = sorted((callee_name(tm) or "") for _, tm in b.calls())
        want = sorted("<erbium::config::Prefix%d as erbium::config::Match<std::net::Ipv%dAddr>>::contains" % (p, a) for p in (4, 6) for a in (4, 6))
        ctx.check([c for c in callees if "contains" in c] == want, "R6", "family-matrix-dispatches-4-of-4", ctx.where(b),
                  "v4/v6 prefix x v4/v6 (mapped) address must each reach an implementation: %s" % [c.split("<")[-1] for c in callees if "contains" in c])
    # the mapped branches delegate to the same-family containment
    for suffix, inner in (("Prefix4 as erbium::config::Match<std::net::Ipv6Addr>>::contains", "Prefix4 as erbium::config::Match<std::net::Ipv4Addr>>::contains"),
                          ("Prefix6 as erbium::config::Match<std::net::Ipv4Addr>>::contains", "Prefix4 as erbium::config::Match<std::net::Ipv4Addr>>::contains")):
        for x in P.bodies:
            if x.endswith(suffix):
                b = P.bodies[x]
                ctx.saw(b)
                ctx.check(any((callee_name(tm) or "").endswith(inner) for _, tm in b.calls()), "R6",
                          "mapped-branch-delegates:%s" % suffix.split(" ")[0], ctx.where(b), "the IPv4-mapped branch must delegate to IPv4 containment")


def _leaves(cfg, tgt, loop):
    """from tgt the loop is left without coming back to its header (straight-line)"""
    seen = set()
    x = tgt
    for _ in range(12):
        if x not in loop:
            return True
        if x in seen or len(cfg.succ[x]) != 1:
            return False
        seen.add(x)
        x = cfg.succ[x][0]
    return False


def _stays(cfg, tgt, loop):
    return tgt in loop


def _ctor_rejects_host_bits(P, self_ty):
    """the type's only constructor refuses addresses with host bits (Ipv4Subnet::new): Ok(..) is built only on the edge where
    (address as given) & !netmask == 0 — the address tested is the parameter itself, not something already masked"""
    from ..cfg import cfg_of as _cfg_of
    for fid, b in P.bodies.items():
        if not (b.kind == "assoc_fn" and b.impl_self == self_ty and fid.endswith("::new")):
            continue
        cfg = _cfg_of(b)

        def tests_given_address(d):
            if not (d[0] == "bin" and d[1] in ("Ne", "Eq")):
                return False
            x, z = norm(d[2]), norm(d[3])
            if not is_const(z, 0):
                x, z = z, x
            if not (is_const(z, 0) and x[0] == "bin" and x[1] == "BitAnd"):
                return False
            sides = [norm(x[2]), norm(x[3])]
            mask = [t for t in sides if any(y[0] == "un" and y[1] == "Not" for y in subterms(t)) and any(y[0] == "call" and str(y[1]).endswith("::netmask") for y in subterms(t))]
            addr = [t for t in sides if t not in mask]
            if len(mask) != 1 or len(addr) != 1:
                return False
            a = addr[0]
            given = any(y == ("param", 1) for y in subterms(a))
            premasked = any(y[0] == "call" and str(y[1]).rsplit("::", 1)[-1] in ("network", "netmask", "broadcast") for y in subterms(a)) or \
                any(y[0] == "bin" and y[1] in ("BitAnd", "BitOr") for y in subterms(a))
            return given and not premasked
        good_edges = []
        for sbb, d, te, fe in bool_switches(P, b, tests_given_address):
            good_edges += fe if d[1] == "Ne" else te
        oks = [bb for bb, idx, st in b.stmts() if st["p"] == (0,) and "rv" in st and st["rv"]["k"] == "agg" and st["rv"].get("variant") == "Ok"]
        if good_edges and oks and all(edge_dominated(cfg, good_edges, bb) for bb in oks):
            return True
    return False


# ------------------------------------------------------------------ R7 default ACLs
def _r7(ctx):
    P = ctx.P
    f = "erbium::acl::default_acls"
    if f not in P.bodies:
        ctx.bad("R7", "anchor", "", "default_acls not found")
        return
    b = P.bodies[f]
    ctx.saw(b)
    T = terms(P, b)
    acls = []
    for _, bb, idx, s in find_aggs(P, "acl::Acl", [b]):
        t = norm(T.rvalue(s["rv"], bb, idx))
        acls.append((dict(t[3]), ctx.where(b, s["sp"])))
    ctx.check(len(acls) == 3, "R7", "default-acls:count=%d" % len(acls), ctx.where(b), "the manual lists three default rules")
    for i, ((flds, where), want) in enumerate(zip(acls, tables.DEFAULT_ACLS)):
        sub = norm(flds["subnet"])
        unix = norm(flds["unix"])
        perm = dict(norm(flds["permission"])[3]) if norm(flds["permission"])[0] == "agg" else {}
        # subnet condition
        if want["subnet"] == "addresses":
            okk = sub[0] == "agg" and sub[2] == "Some" and resolve_path(P, b, sub[3][0][1]) is not None
        elif want["subnet"] is None:
            okk = sub[0] == "agg" and sub[2] == "None"
        else:
            got = set()
            for pa in ("config::Prefix4", "config::Prefix6"):
                for _, b2, i2, s2 in find_aggs(P, pa, [b]):
                    t2 = norm(T.rvalue(s2["rv"], b2, i2))
                    f2 = dict(t2[3])
                    addr = [x[1] for x in subterms(f2["addr"]) if x[0] == "const" and isinstance(x[1], str) and ("." in x[1] or ":" in x[1])]
                    ln = norm(f2["prefixlen"])
                    if addr and ln[0] == "const":
                        got.add("%s/%d" % (addr[0], ln[1]))
            okk = sub[0] == "agg" and sub[2] == "Some" and got == set(want["subnet"])
            sub = ("const", sorted(got))
        ctx.check(okk, "R7", "default-acl[%d]:subnet-condition" % i, where, "expected %s, found %s" % (want["subnet"], show(sub)[:120]))
        if want["unix"] is None:
            okk = unix[0] == "agg" and unix[2] == "None"
        else:
            okk = unix[0] == "agg" and unix[2] == "Some" and const_of(unix[3][0][1]) is want["unix"]
        ctx.check(okk, "R7", "default-acl[%d]:unix-condition" % i, where, "expected %s, found %s" % (want["unix"], show(unix)[:60]))
        dns = norm(perm.get("allow_dns_recursion", ("unknown",)))
        ctx.check(dns[0] == "const" and dns[1] is want["dns"], "R7", "default-acl[%d]:dns-recursion=%s" % (i, want["dns"]), where, "found %s" % show(dns))
        granted = {k for k, v in perm.items() if const_of(v) is True}
        ctx.check(want["http_min"] <= granted, "R7", "default-acl[%d]:http-ro-granted" % i, where, "granted %s" % sorted(granted))


# ------------------------------------------------------------------ R8 refusal mapping
def _r8(ctx):
    P = ctx.P
    # DNS: Error::RefusedByAcl -> REFUSED
    for fid in fn_with_sig(P, ["DnsMessage", "dns::Error"], "DNSPkt"):
        body = body_or_coroutine(P, fid)
        ctx.saw(body)
        T = terms(P, body)
        cfg = cfg_of(body)
        adt = P.adt("erbium::dns::Error")
        idx = [i for i, v in enumerate(adt["variants"]) if v["name"] == "RefusedByAcl"][0] if adt else -1
        okk = False
        for bb, tm in body.terms():
            if tm["k"] == "switch":
                d = norm(T.at_term(tm["discr"], bb))
                if d[0] == "discr":
                    rp = resolve_path(P, body, d[1])
                    if rp is not None and param_ty(rp[0], rp[1]).endswith("dns::Error") and rp[2] == ():
                        es = discr_edges(cfg, bb, idx)
                        for b2, i2, s in body.stmts():
                            if "rv" in s and s["rv"]["k"] == "use" and s["rv"]["op"].get("k", {}).get("uneval", "").endswith("dnspkt::REFUSED") and edge_dominated(cfg, es, b2):
                                okk = True
        ctx.check(okk, "R8", "refused-by-acl->REFUSED", ctx.where(body), "an ACL refusal must be answered with rcode REFUSED")
    # HTTP: the denial response is 403
    for fid, b in P.bodies.items():
        if fid.endswith("http::permission_denied"):
            ctx.saw(b)
            strs = body_strings(b)
            c403 = any((k.get("uneval", "") or "").endswith("StatusCode::FORBIDDEN") or k.get("int") == "403" for _, k, _ in body_consts(b))
            ctx.check(c403, "R8", "permission-denied->403", ctx.where(b), "the HTTP denial must carry status 403 FORBIDDEN")
        if fid.endswith("http::require_http_permission"):
            ctx.saw(b)
            T = terms(P, b)
            cfg = cfg_of(b)
            # Some(denied) exactly on the Err edge of acl::require_permission
            okk = False
            for bb, tm in b.terms():
                if tm["k"] == "switch":
                    d = norm(T.at_term(tm["discr"], bb))
                    if d[0] == "discr" and d[1][0] == "call" and str(d[1][1]).endswith("acl::require_permission"):
                        oke = discr_edges(cfg, bb, 0)
                        ere = discr_edges(cfg, bb, 1)
                        nones = [b2 for b2, i2, s in b.stmts() if s["p"] == (0,) and "rv" in s and s["rv"]["k"] == "agg" and s["rv"].get("variant") == "None"]
                        somes = [b2 for b2, i2, s in b.stmts() if s["p"] == (0,) and "rv" in s and s["rv"]["k"] == "agg" and s["rv"].get("variant") == "Some"]
                        okk = bool(nones) and bool(somes) and all(edge_dominated(cfg, oke, x) for x in nones) and all(edge_dominated(cfg, ere, x) for x in somes)
                        # and the permission checked is the one asked for
                        a = norm(T.call_args(d[1][3])[2])
                        okk = okk and a[0] == "param"
            ctx.check(okk, "R8", "http-gate:None-iff-granted", ctx.where(b), "the HTTP gate returns None exactly when acl::require_permission(.., perm) is Ok")
