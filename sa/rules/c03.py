"""C03 — relayed answers are faithful to the upstream reply (structural clauses)."""
from ..util import *
from ..prov import strip, access_path, show, subterms, norm
from ..cfg import cfg_of

EXPLANATION = ("field-provenance rules over built MIR: every field of the client reply / upstream query / cached copy is "
               "traced back (through moves, clones, closures and coroutine captures) to the parameter field it "
               "originates from and compared with the field the property prescribes; plus a dominance rule on the "
               "upstream reply's id test")
ASSUMPTIONS = [
    "not decided: byte-level equality of relayed records over all upstream replies (codec behaviour; see C14)",
    "trusted: rustc's MIR construction and trait resolution; Clone impls of Vec/RR/Question copy their contents",
]
EXPLANATION += '; also: the encoder compares labels bytewise; an in-flight TCP id is never re-assigned; a truncated UDP reply is never the result; TTL ageing (C06), truncation (C04) and OPT emission (C14) clauses are evaluated here too'
EXTRA_CONFIGS = ["dns"]

SECTIONS = ("answer", "nameserver", "additional")


def _fields_of_param_mentioned(P, body, term):
    """set of (param type, field path) for every parameter access path occurring inside term"""
    out = set()
    for s in subterms(term):
        if s[0] in ("field",):
            rp = resolve_path(P, body, s)
            if rp is not None:
                fb, pl, pp = rp
                out.add((param_ty(fb, pl), pp))
    return out


def _r8_inflight(ctx):
    """upstream TCP replies are handed to waiters by query id alone, so an id that is in flight must never be given to a second
    waiter: every insertion into the id -> waiter table happens on the edge where the table does not contain the id"""
    P = ctx.P
    n = 0
    for b in P.bodies.values():
        if "dns::outquery" not in b.id:
            continue
        T = None
        cfg = None
        for bb, tm in b.calls():
            nme = callee_name(tm) or ""
            if not nme.endswith("HashMap::<K, V, S, A>::insert") and not nme.endswith("HashMap::<K, V, S>::insert"):
                continue
            g = " ".join(tm["callee"].get("gargs") or [])
            if "oneshot::Sender" not in g:
                continue
            T = T or terms(P, b)
            cfg = cfg or cfg_of(b)
            a = [norm(x) for x in T.call_args(bb)]
            mp = [y[2] for y in subterms(a[0]) if y[0] == "field"][:1]
            n += 1
            ctx.saw(b)
            fe_all = []

            def m(d, mp=mp):
                return d[0] == "call" and str(d[1]).rsplit("::", 1)[-1] == "contains_key" and mp and any(y[0] == "field" and y[2] == mp[0] for y in subterms(d[2][0]))
            for sb, d, te, fe in bool_switches(P, b, m):
                k1, k2 = norm(d[2][1]), a[1]
                f1 = [y[2] for y in subterms(k1) if y[0] == "field"]
                f2 = [y[2] for y in subterms(k2) if y[0] == "field"]
                if f1 and f1 == f2:
                    fe_all.extend(fe)
            # alternatively the previous occupant returned by insert is required to be None before anything is sent (not used by erbium)
            ctx.check(edge_dominated(cfg, fe_all, bb), "R8", "in-flight-id-never-reassigned:%s" % (mp[0] if mp else "?"), ctx.where(b, tm["sp"]),
                      "a waiter is registered under a query id without first establishing that no other waiter holds that id: the upstream's reply "
                      "to the earlier query would be relayed to the later one, under a different question")
    if ctx.config in ("default", "dns"):
        ctx.floor("R8", "registrations of a waiter under a query id", n, 1)


def _r10_udp_reply_from_the_server_asked(ctx):
    """R10 a UDP answer is taken only from the server that was asked: the per-attempt socket is connected to the upstream address before
    anything is received on it (the kernel then drops datagrams from other sources), or the sender's address returned by recv_from is
    compared. The query id alone is 16 bits; without the source check anyone who can reach the ephemeral port answers for the upstream."""
    P = ctx.P
    n = 0
    for b in P.bodies.values():
        if not (b.id.startswith("erbium::dns::outquery::OutQuery::send_single_udp") and b.kind == "coroutine" and b.id.count("{closure") == 1):
            continue
        cfg = cfg_of(b)
        T = terms(P, b)
        conns = [bb for bb, tm in b.calls() if (callee_name(tm) or "").endswith("UdpSocket::connect")]
        for bb, tm in b.calls():
            nme = callee_name(tm) or ""
            last = nme.rsplit("::", 1)[-1]
            if "UdpSocket" not in nme or last not in ("recv", "recv_from", "recv_buf", "recv_buf_from", "try_recv", "try_recv_from", "poll_recv", "poll_recv_from", "peek_from"):
                continue
            n += 1
            ctx.saw(b)
            connected = any(cfg.dominates(c, bb) for c in conns)
            ctx.check(connected, "R10", "udp-reply-taken-only-from-the-server-asked", ctx.where(b, tm["sp"]),
                      "%s on a socket that was not connected to the upstream address first: a datagram from any source is accepted as the reply" % last)
    if ctx.config in ("default", "dns"):
        ctx.floor("R10", "receives on the per-attempt upstream socket", n, 1)


def run(ctx):
    P = ctx.P
    _r8_inflight(ctx)
    _r10_udp_reply_from_the_server_asked(ctx)
    # clauses shared with other properties: TTLs only age (the cache's lifetime and hit rules), what a truncated relay may drop
    ctx.include("C06", rules=("R1", "R2", "R3", "R6"))
    # "the reply belongs to this question": a cached entry answers only the question it was stored for (the key and how it is compared)
    ctx.include("C06", rules=("R4",))
    ctx.include("C04", rules=("R3", "R2"))      # ... and the section counts written on truncation belong to their own sections
    ctx.include("C14", rules=("R10", "R3", "R4", "R8"))
    # ---------------- R1: reply assembled from (query, upstream reply)
    cands = fn_with_sig(P, ["DnsMessage", "DNSPkt"], "DNSPkt")
    n_r1 = 0
    for fid in cands:
        body = body_or_coroutine(P, fid)
        ctx.saw(body)
        T = terms(P, body)
        for b, bb, idx, s in final_aggs(P, body, "dns::dnspkt::DNSPkt"):
            t = T.rvalue(s["rv"], bb, idx)
            fields = dict(t[3])
            where = ctx.where(body, s["sp"])

            def origin(f):
                rp = resolve_path(P, body, fields[f])
                if rp is None:
                    return None, show(strip(fields[f]))
                fb, pl, pp = rp
                return (param_ty(fb, pl), pp), path_name(P, rp)

            for f in ("answer", "nameserver", "additional", "rcode"):
                n_r1 += 1
                o, txt = origin(f)
                good = o is not None and ty_ends(o[0], "DNSPkt") and o[1] == (f,)
                ctx.check(good, "R1", "reply:field=%s<-%s" % (f, txt if not good else "upstream." + f), where,
                          "reply field `%s` must be the upstream reply's `%s`; it is %s" % (f, f, txt))
            for f in ("qid", "question"):
                n_r1 += 1
                o, txt = origin(f)
                good = o is not None and ty_ends(o[0], "DnsMessage") and o[1] == ("in_query", f)
                ctx.check(good, "R1", "reply:field=%s<-%s" % (f, txt if not good else "query." + f), where,
                          "reply field `%s` must be the client query's `%s`; it is %s" % (f, f, txt))
            n_r1 += 1
            qr = const_of(fields["qr"])
            ctx.check(qr is True, "R1", "reply:field=qr", where, "reply must be marked as a response (qr = true); it is %s" % show(strip(fields["qr"])))
            # the response code is twelve bits, eight of them travel in the OPT record: the reply always carries EDNS data, whether
            # or not the client sent any (the upstream, which is always asked with EDNS, may answer BADVERS / BADCOOKIE)
            n_r1 += 1
            ed = norm(fields.get("edns", ("unknown",)))
            ctx.check(ed[0] == "agg" and ed[2] == "Some", "R1", "reply:edns-always-present", where,
                      "reply.edns must be Some(..) unconditionally (is %s): without the OPT record only rcode & 0xF reaches the client" % show(ed)[:100])
    ctx.floor("R1", "reply field obligations", n_r1, 8)

    # ---------------- R1b: the error reply echoes the client's id and question too
    n = 0
    for fid in fn_with_sig(P, ["DnsMessage", "dns::Error"], "DNSPkt"):
        body = body_or_coroutine(P, fid)
        ctx.saw(body)
        T = terms(P, body)
        for b, bb, idx, s in find_aggs(P, "dns::dnspkt::DNSPkt", [body]):
            t = T.rvalue(s["rv"], bb, idx)
            fields = dict(t[3])
            where = ctx.where(body, s["sp"])
            n += 1
            ctx.check(is_const(norm(fields.get("tc", ("unknown",))), False), "R1", "error-reply:tc=false", where,
                      "an error reply omits nothing: TC must be the literal false (is %s), not whatever the query's header said" % show(norm(fields.get("tc", ("unknown",))))[:60])
            n += 1
            ed = norm(fields.get("edns", ("unknown",)))
            ctx.check(ed[0] == "agg" and ed[2] == "Some", "R1", "error-reply:edns-always-present", where,
                      "the error reply's edns must be Some(..) unconditionally (is %s)" % show(ed)[:100])
            for f in ("qid", "question"):
                n += 1
                rp = resolve_path(P, body, fields[f])
                good = rp is not None and ty_ends(param_ty(rp[0], rp[1]), "DnsMessage") and rp[2] == ("in_query", f)
                ctx.check(good, "R1", "error-reply:field=%s" % f, where,
                          "error reply field `%s` must be the client query's; it is %s" % (f, show(strip(fields[f]))))
            n += 1
            ctx.check(const_of(fields["qr"]) is True, "R1", "error-reply:field=qr", where, "error reply must have qr = true")
            for f in SECTIONS:
                n += 1
                v = strip(fields[f])
                empty = v[0] == "call" and isinstance(v[1], str) and v[1].endswith("Vec::<T>::new")
                ctx.check(empty, "R1", "error-reply:field=%s:empty" % f, where,
                          "an error reply must not invent records: `%s` must be an empty vector, it is %s" % (f, show(v)))
    ctx.floor("R1", "error reply obligations", n, 6)

    # ---------------- R2: upstream query carries the client's question
    n = 0
    for fid in fn_with_sig(P, ["u16", "DNSPkt"], "DNSPkt"):
        body = P.bodies[fid]
        ctx.saw(body)
        T = terms(P, body)
        for b, bb, idx, s in find_aggs(P, "dns::dnspkt::DNSPkt", [body]):
            t = T.rvalue(s["rv"], bb, idx)
            fields = dict(t[3])
            where = ctx.where(body, s["sp"])
            n += 1
            rp = resolve_path(P, body, fields["question"])
            good = rp is not None and ty_ends(param_ty(rp[0], rp[1]), "DNSPkt") and rp[2] == ("question",)
            ctx.check(good, "R2", "outquery:field=question", where,
                      "the upstream query's question must be the client's question; it is %s" % show(strip(fields["question"])))
            n += 1
            ctx.check(const_of(fields["qr"]) is False, "R2", "outquery:field=qr", where, "the upstream query must have qr = false")
            n += 1
            rp = resolve_path(P, body, fields["qid"])
            good = rp is not None and param_ty(rp[0], rp[1]) == "u16" and rp[2] == ()
            ctx.check(good, "R2", "outquery:field=qid", where, "the upstream query's id must be the id parameter (the one the reply is matched with)")
    ctx.floor("R2", "upstream query obligations", n, 3)

    # ---------------- R3: a UDP upstream reply is used only when its id equals the id that was sent
    _r3(ctx)

    # ---------------- R4: the cached copy maps section k to section k and changes only the ttl, by subtraction
    _r4(ctx)

    # ---------------- R7: the encoder never folds the case of a name (names are relayed unchanged)
    _r7(ctx)


def _r3(ctx):
    P = ctx.P
    n = 0
    # anchor: the body that calls the (u16, &DNSPkt)->DNSPkt query builder
    builders = fn_with_sig(P, ["u16", "DNSPkt"], "DNSPkt")
    for body in list(P.bodies.values()):
        calls = [(bb, t) for bb, t in body.calls() if callee_name(t) in builders]
        if not calls:
            continue
        ctx.saw(body)
        T = terms(P, body)
        cfg = cfg_of(body)
        bb0, t0 = calls[0]
        id_term = strip(T.at_term(t0["args"][0], bb0))
        # the id test: switch on Ne/Eq(<reply local>.qid, id) where the reply comes from the UDP exchange
        for bb, tm in body.terms():
            if tm["k"] != "switch":
                continue
            st = single_def_stmt(T, tm["discr"], bb, len(body.blocks[bb]["stmts"]))
            if st is None or st["rv"]["k"] != "bin" or st["rv"]["op"] not in ("Ne", "Eq"):
                continue
            op = st["rv"]["op"]
            sb, si = st["_at"]
            reply_local = None
            other = None
            for x, y in ((st["rv"]["a"], st["rv"]["b"]), (st["rv"]["b"], st["rv"]["a"])):
                xs = single_def_stmt(T, x, sb, si)
                if xs is not None and xs["rv"]["k"] == "use":
                    pl = op_place(xs["rv"]["op"])
                    if pl is not None and len(pl) == 2 and pl[1] == ".qid":
                        reply_local = pl[0]
                        other = strip(T.operand(y, sb, si))
            if reply_local is None or other != id_term:
                continue
            src = strip(T.place((reply_local,), bb, 0))
            if src[0] == "phi" or not any(sub[0] == "call" and isinstance(sub[1], str) and "udp" in sub[1].lower() for sub in subterms(src)):
                continue  # the later sanity test on the final reply, not the UDP gate
            n += 1
            eq_targets = [tgt for v, tgt in cfg.switch_edges(bb) if (op == "Ne" and v == 0) or (op == "Eq" and v != 0)]
            # whole-value uses of the reply local (moves, copies, call arguments)
            uses = []
            for b2, i2, s2 in body.stmts():
                rv = s2.get("rv")
                if not rv:
                    continue
                ops = []
                if rv["k"] in ("use", "cast", "repeat"):
                    ops = [rv["op"]]
                elif rv["k"] == "agg":
                    ops = rv["ops"]
                for o in ops:
                    if op_place(o) == (reply_local,):
                        uses.append((b2, s2["sp"]))
                if rv["k"] == "ref" and rv["place"] == (reply_local,) and not s2.get("exp"):
                    uses.append((b2, s2["sp"]))
            for b2, t2 in body.calls():
                for o in t2["args"]:
                    if op_place(o) == (reply_local,):
                        uses.append((b2, t2["sp"]))
            okk = bool(uses) and bool(eq_targets)
            badu = []
            for b2, sp in uses:
                if b2 in cfg.reach and not any(cfg.edge_dominates((bb, tgt), b2) for tgt in eq_targets):
                    okk = False
                    badu.append(P.rel(sp))
            ctx.check(okk, "R3", "udp-reply-used-only-if-id-matches", ctx.where(body, st["sp"]),
                      "the UDP upstream reply may be used as the result only on the edge where reply.qid == sent id "
                      "(%d whole-value use(s) checked%s)" % (len(uses), "; not guarded: " + ", ".join(badu) if badu else ""))
            # R9: a truncated UDP reply (TC set) is a trigger for the TCP retry, never the result: no whole-value use of the reply on the
            # true edge of `reply.tc` (a partial reply would be cached under a transport-independent key and relayed, TC and all, over TCP)
            tc_true = []
            for b3, t3 in body.terms():
                if t3["k"] != "switch":
                    continue
                st3 = single_def_stmt(T, t3["discr"], b3, len(body.blocks[b3]["stmts"]))
                if st3 is not None and st3["rv"]["k"] == "use" and op_place(st3["rv"]["op"]) == (reply_local, ".tc"):
                    tc_true.extend((b3, tgt) for v, tgt in cfg.switch_edges(b3) if v is None or v != 0)
            if tc_true:
                badt = [P.rel(sp) for b2, sp in uses if b2 in cfg.reach and any(cfg.edge_dominates(e, b2) for e in tc_true)]
                ctx.check(not badt, "R9", "truncated-udp-reply-never-used-as-the-result", ctx.where(body, st["sp"]),
                          "on the edge where the UDP reply has TC set, the reply itself is used at %s" % (badt or "-"))
            else:
                ctx.bad("R9", "truncated-udp-reply-test-not-found", ctx.where(body, st["sp"]), "no branch on the UDP reply's TC flag found; cannot decide")
    ctx.floor("R3", "id test guarding the UDP reply", n, 1)


def _r4(ctx):
    P = ctx.P
    n = 0
    for fid in fn_with_sig(P, ["DNSPkt", "u32"], "DNSPkt"):
        body = P.bodies[fid]
        ctx.saw(body)
        T = terms(P, body)
        for b, bb, idx, s in find_aggs(P, "dns::dnspkt::DNSPkt", [body]):
            t = T.rvalue(s["rv"], bb, idx)
            fields = dict(t[3])
            where = ctx.where(body, s["sp"])
            for f in SECTIONS:
                n += 1
                srcs = {pp for (_ty, pp) in _fields_of_param_mentioned(P, body, fields[f]) if pp and pp[0] in SECTIONS}
                ctx.check(srcs == {(f,)}, "R4", "ttl-copy:section=%s<-%s" % (f, ",".join(sorted(".".join(p) for p in srcs)) or "none"),
                          where, "cached copy: section `%s` must be derived from section `%s` only" % (f, f))
            for f in ("qid", "rcode", "question"):
                n += 1
                rp = resolve_path(P, body, fields[f])
                ctx.check(rp is not None and rp[2] == (f,), "R4", "ttl-copy:field=%s" % f, where,
                          "cached copy: `%s` must be copied unchanged" % f)
        # the per-record closures: RR aggregates whose only changed field is ttl = Sub(x.ttl, decrement)
        rr_closures = {c.id for c in P.family(fid) if c.kind == "closure" and list(find_aggs(P, "dns::dnspkt::RR", [c]))}
        for b, bb, idx, s in find_aggs(P, "dns::dnspkt::DNSPkt", [body]):
            fields = dict(T.rvalue(s["rv"], bb, idx)[3])
            for f in SECTIONS:
                n += 1
                used = {closure_def_of_term(x) for x in subterms(norm(fields[f])) if x[0] == "agg" and str(x[1]).startswith("closure:")}
                ctx.check(bool(used) and used <= rr_closures, "R4", "ttl-copy:section=%s:records-rebuilt-by-a-checked-closure" % f, ctx.where(body, s["sp"]),
                          "each record of the section is rebuilt by a closure of this function that the rr.* rules look at (uses %s)" % sorted(used))
        for c in P.family(fid):
            if c.kind != "closure":
                continue
            ctx.saw(c)
            Tc = terms(P, c)
            for b, bb, idx, s in find_aggs(P, "dns::dnspkt::RR", [c]):
                t = Tc.rvalue(s["rv"], bb, idx)
                fields = dict(t[3])
                where = ctx.where(c, s["sp"])
                n += 1
                ttl = strip(fields["ttl"])
                # built MIR: SubWithOverflow + assert + .0
                good = False
                for sub in subterms(ttl):
                    if sub[0] == "bin" and sub[1] in ("Sub", "SubWithOverflow"):
                        a = strip(sub[2])
                        if a[0] == "field" and a[2] == "ttl":
                            good = True
                    if sub[0] == "bin" and sub[1] in ("Add", "AddWithOverflow", "Mul", "MulWithOverflow"):
                        good = False
                        break
                ctx.check(good, "R4", "ttl-copy:rr.ttl=sub(ttl,decrement)", where,
                          "cached record TTL must be the original TTL minus the decrement, it is %s" % show(ttl))
                for f in ("domain", "class", "rrtype", "rdata"):
                    n += 1
                    v = strip(fields[f])
                    # ..x.clone(): field f of a clone of the closure's record argument
                    good = v[0] == "field" and v[2] == f
                    ctx.check(good, "R4", "ttl-copy:rr.%s=unchanged" % f, where,
                              "cached record field `%s` must be copied from the same record, it is %s" % (f, show(v)))
    # 6 message-level + 3 section-through-closure + 5 per record-building closure (one shared closure is as good as three)
    ctx.floor("R4", "cached-copy obligations", n, 6 + 3 + 5)


NORMALISERS = ("eq_ignore_ascii_case", "to_ascii_lowercase", "to_ascii_uppercase", "make_ascii_lowercase", "make_ascii_uppercase",
               "to_lowercase", "to_uppercase")


def _r7(ctx):
    from ..callgraph import callgraph
    P = ctx.P
    cg = callgraph(P)
    roots = [f for f in P.bodies if f.startswith("erbium::dns::dnspkt::") and f.rsplit("::", 1)[-1] in (
        "push_compressed_domain", "push_prefix", "push_rr", "push_domain", "serialise_with_size")]
    ctx.floor("R7", "name emission functions", len(roots), 3)
    reach = cg.reachable(roots)
    bad = sorted(n for n in reach if n.rsplit("::", 1)[-1] in NORMALISERS)
    where = ""
    for r in roots:
        b = P.bodies[r]
        ctx.saw(b)
        for x in P.family(r):
            for bb, tm in x.calls():
                if (callee_name(tm) or "").rsplit("::", 1)[-1] in NORMALISERS:
                    where = ctx.where(x, tm["sp"])
    ctx.check(not bad, "R7", "encoder-compares-labels-exactly" if not bad else "encoder-folds-case:%s" % bad[0].rsplit("::", 1)[-1], where,
              "names must reach the client byte for byte as upstream sent them: the serialiser (including the name-compression "
              "search) must compare labels exactly; a case-insensitive match makes a name point at an earlier name that differs in "
              "case, and the client sees the other name's capitalisation (calls: %s)" % (bad or "none"))
    # Label equality is the derived (bytewise) one
    impls = [im for im in P.impls if im["self_ty"].endswith("dnspkt::Label") and im["trait"] == "std::cmp::PartialEq"]
    ctx.check(len(impls) == 1 and impls[0]["auto_derived"], "R7", "label-equality-is-bytewise", "crates/erbium-core/src/dns/dnspkt.rs",
              "Label's PartialEq must be the derived bytewise comparison")
