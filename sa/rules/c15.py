"""C15 — DNS routing: longest matching suffix wins regardless of order and case (structural clauses)."""
import re
from ..util import *
from ..prov import strip, norm, show, subterms
from ..cfg import cfg_of
from ..callgraph import callgraph

EXPLANATION = ("required-sanitiser, loop-shape and outcome-table rules: an ASCII case normaliser lies on every path from the wire "
               "name and from the configured suffix to the label comparison; matching is on whole labels; the selection loops "
               "visit every suffix of every route (their only exits are iterator exhaustion) and replace the best candidate only "
               "when compare_longest_suffix says the candidate is strictly longer; forward without RD -> not-authoritative "
               "(REFUSED), forward with RD -> the selected route's server, forge-nxdomain -> blocked (NXDOMAIN) with no call to "
               "the cache/upstream on that edge, no route -> SERVFAIL")
ASSUMPTIONS = ["not decided: invariance under all permutations (follows on paper from the loop-shape rule; not executed)"]
EXPLANATION += '; also: every configured suffix reaches the route table (no dropping adaptor, no shrinking call in the loader)'
EXTRA_CONFIGS = ["dns"]

NORMALISERS = ("eq_ignore_ascii_case", "to_ascii_lowercase", "to_ascii_uppercase", "make_ascii_lowercase", "make_ascii_uppercase")


DROPPERS = ("filter", "filter_map", "take", "skip", "step_by", "take_while", "skip_while", "find", "find_map", "last", "nth", "next",
            "min", "max", "min_by", "max_by", "min_by_key", "max_by_key", "flat_map", "flatten", "zip", "reduce", "fold")
SHRINKERS = ("truncate", "dedup", "dedup_by", "dedup_by_key", "retain", "retain_mut", "pop", "remove", "swap_remove", "drain", "clear", "split_off")


def _r7_every_configured_suffix_is_routed(ctx):
    """the table the router scans is the table the operator wrote: every entry of `domain-suffixes` becomes a suffix of its route
    (dropping one that looks redundant inside its own route changes which *other* route is the longest match)"""
    P = ctx.P
    builders = [b for b in P.bodies.values() if "dns::config::" in b.id and list(find_aggs(P, "dns::config::Route", [b]))]
    if not builders:
        if ctx.config in ("default", "dns"):
            ctx.bad("R7", "anchor", "", "no function of dns::config builds a Route")
        return
    n = 0
    for b in builders:
        root = b.id
        while P.bodies[root].parent:
            root = P.bodies[root].parent
        fam = P.family(root)
        for x in fam:
            ctx.saw(x)
        T = terms(P, b)
        for _, bb, idx, st in find_aggs(P, "dns::config::Route", [b]):
            n += 1
            t = norm(dict(T.rvalue(st["rv"], bb, idx)[3]).get("suffixes", ("unknown",)))
            # the steps between the read of the key and the field; what feeds the read itself (the walk over the hash) is not one
            reads_key = lambda x: x[0] == "call" and any(is_const(norm(a), "domain-suffixes") for a in x[2])
            steps = [str(x[1]) for x in subterms(t, prune=reads_key) if x[0] == "call" and isinstance(x[1], str) and not reads_key(x)]
            bad = sorted({s_.rsplit("::", 1)[-1] for s_ in steps if "iter" in s_.lower() and s_.rsplit("::", 1)[-1] in DROPPERS})
            src = [x for x in subterms(t) if reads_key(x)]
            ctx.check(not bad and bool(src), "R7", "route-suffixes=every-configured-suffix", ctx.where(b, st["sp"]),
                      "Route.suffixes must be the parsed `domain-suffixes` list, element for element (adaptors that drop or merge "
                      "elements on the way: %s; list read from the key: %s)" % (bad or "none", bool(src)))
        shr = []
        for x in fam:
            for bb, tm in x.calls():
                nme = callee_name(tm) or ""
                if nme.rsplit("::", 1)[-1] in SHRINKERS and tm["args"]:
                    pl = op_place(tm["args"][0])
                    ty = x.local_ty(pl[0]) if pl else ""
                    if "dnspkt::Domain" in ty or "config::Route" in ty:
                        shr.append("%s at %s" % (nme.rsplit("::", 1)[-1], P.rel(tm["sp"])))
        ctx.check(not shr, "R7", "suffix-and-route-lists-never-shrink:%s" % root.rsplit("::", 1)[-1], ctx.where(P.bodies[root]),
                  "no suffix or route may be removed after parsing: %s" % (shr or "ok"))
    ctx.floor("R7", "route constructions in the loader", n, 1)


def _r8_route_kind_is_the_configured_type(ctx):
    """R8 what a route does is what its `type` says: a route written as forge-nxdomain is built as Handler::ForgeNxDomain whatever else the
    entry carries (a left-over dns-servers list, say), and Handler::Forward is never built on the path where the type was read as
    forge-nxdomain. Otherwise names the operator meant to block are sent upstream."""
    P = ctx.P
    adt = P.adt("erbium::dns::config::HandlerType")
    if adt is None:
        if ctx.config in ("default", "dns"):
            ctx.bad("R8", "anchor", "", "dns::config::HandlerType not found")
        return
    vn = [v["name"] for v in adt["variants"]]
    n = 0
    for b in P.bodies.values():
        if "dns::config::" not in b.id or "::test" in b.id:
            continue
        aggs = [(bb, idx, st) for _, bb, idx, st in find_aggs(P, "dns::config::Handler", [b])]
        if not aggs:
            continue
        T = terms(P, b)
        cfg = cfg_of(b)
        forge_edges = []
        for bb, tm in b.terms():
            if tm["k"] != "switch":
                continue
            st = single_def_stmt(T, tm["discr"], bb, len(b.blocks[bb]["stmts"]))
            if st is None or st["rv"]["k"] != "discr":
                continue
            pl = st["rv"]["place"]
            if len(pl) < 2 or "HandlerType" not in b.local_ty(pl[0]):
                continue
            forge_edges += discr_edges(cfg, bb, vn.index("ForgeNxDomain"))
        after_forge = set()
        for (_, t) in forge_edges:
            after_forge |= cfg.reachable_from(t)
        for bb, idx, st in aggs:
            n += 1
            ctx.saw(b)
            v = st["rv"].get("variant")
            if v == "ForgeNxDomain":
                ok = edge_dominated(cfg, forge_edges, bb)
                why = "Handler::ForgeNxDomain must be built exactly where the configured type is forge-nxdomain"
            else:
                ok = bool(forge_edges) and bb not in after_forge
                why = "Handler::%s is built on a path where the configured type was read as forge-nxdomain" % v
            ctx.check(ok, "R8", "route-kind-is-the-configured-type:%s" % v, ctx.where(b, st["sp"]), why + " (%d type edge(s) found)" % len(forge_edges))
    if ctx.config in ("default", "dns"):
        ctx.floor("R8", "handler constructions in the loader", n, 2)


def run(ctx):
    P = ctx.P
    cg = callgraph(P)
    _r7_every_configured_suffix_is_routed(ctx)
    _r8_route_kind_is_the_configured_type(ctx)
    # "names under a forward route go only to that route's server": the cache sits under the router; an entry answers only the
    # question it was stored for (C06.R4), otherwise one route's answer is served for a name of another
    ctx.include("C06", rules=("R4",))
    ew = "erbium::dns::dnspkt::Domain::ends_with"
    if ew not in P.bodies:
        ctx.bad("R1", "anchor", "", "Domain::ends_with not found")
        return
    # ---------------- R1 case folding
    reach = cg.reachable([ew])
    for b in P.family(ew):
        ctx.saw(b)
    norm_in_cmp = sorted(n for n in reach if n.rsplit("::", 1)[-1] in NORMALISERS)
    okk = bool(norm_in_cmp)
    why = "comparison path calls %s" % norm_in_cmp if okk else ""
    if not okk:
        # alternative: both constructors normalise
        ctors = [f for f in P.bodies if f.endswith("parse::PktParser::<'l>::get_domain") or
                 ("std::str::FromStr" in f and "Domain" in f and f.endswith("from_str"))]
        each = [any(n.rsplit("::", 1)[-1] in NORMALISERS for n in cg.reachable([c])) for c in ctors]
        okk = len(ctors) >= 2 and all(each)
        why = "neither the suffix test nor both Domain constructors apply ASCII case folding (the comparison reaches: %s)" % sorted(
            n.split("::")[-1] for n in reach if n != ew)[:8]
    ctx.check(okk, "R1", "suffix-match-is-ascii-case-insensitive", ctx.where(P.bodies[ew]),
              "query names arrive in arbitrary case (0x20 randomisation): " + why)
    # ---------------- R5 whole labels
    flat = [n for n in reach if n.rsplit("::", 1)[-1] in ("concat", "join", "flatten", "to_string", "flat_map", "as_bytes")]
    b = P.bodies[ew]
    T = terms(P, b)
    label_level = False
    for x in P.family(ew):
        for bb, tm in x.calls():
            g = " ".join(tm["callee"].get("gargs") or [])
            n = callee_name(tm) or ""
            if "Label" in g or "Label" in n:
                label_level = True
    ctx.check(label_level and not flat, "R5", "suffix-match-on-whole-labels", ctx.where(b),
              "the comparison must be label by label (label-typed operations: %s; flattening calls: %s)" % (label_level, flat or "none"))

    # ---------------- R6 a name shorter than the suffix never matches
    _r6(ctx, ew)

    # ---------------- R2 selection loop
    h = "erbium::dns::router::DnsRouteHandler::handle_query"
    if h not in P.bodies:
        ctx.bad("R2", "anchor", "", "route handler not found")
        return
    body = body_or_coroutine(P, h)
    ctx.saw(body)
    T = terms(P, body)
    cfg = cfg_of(body)
    ews = [(bb, tm) for bb, tm in body.calls() if callee_name(tm) == ew]
    if not ews:
        # the test may have moved into a closure handed to an iterator adaptor
        for cb in P.family(body.id):
            if cb.id == body.id:
                continue
            if any(callee_name(tm) == ew for _, tm in cb.calls()):
                users = []
                for bb, tm in body.calls():
                    Tm = terms(P, body)
                    if any(y[0] == "agg" and y[1] == "closure:" + cb.id for a in Tm.call_args(bb) for y in subterms(norm(a))):
                        users.append((callee_name(tm) or "").rsplit("::", 1)[-1])
                first_only = [u for u in users if u in ("find", "position", "find_map", "any", "take_while", "skip_while", "rfind", "rposition")]
                if first_only:
                    ctx.bad("R2", "suffix-test-in-first-match-adaptor:%s" % first_only[0], ctx.where(cb),
                            "the suffix test is evaluated inside Iterator::%s, which stops at the first matching suffix of a route: "
                            "a longer suffix listed later in the same route is never compared, so the outcome depends on the order "
                            "suffixes are written in" % first_only[0])
    ctx.floor("R2", "suffix tests in the route handler", len(ews), 1)
    loops = cfg.loops_by_header()
    for bb, tm in ews:
        a = [norm(x) for x in T.call_args(bb)]
        rp = resolve_path(P, body, a[0])
        ctx.check(rp is not None and rp[2][-3:] == ("in_query", "question", "qdomain"), "R2", "query-name-tested-against-suffix", ctx.where(body, tm["sp"]),
                  "receiver must be the query name, argument the configured suffix (receiver %s)" % show(a[0])[:80])
        mine = [l for l in loops if bb in l]
        ctx.check(len(mine) >= 2, "R2", "nested-loops-over-routes-and-suffixes", ctx.where(body, tm["sp"]), "%d enclosing loop(s)" % len(mine))
        bad = []
        for l in mine:
            for u in l:
                for v in cfg.succ[u]:
                    if v in l:
                        continue
                    tmu = body.blocks[u]["term"]
                    exhausted = False
                    if tmu["k"] == "switch":
                        d = norm(T.at_term(tmu["discr"], u))
                        if d[0] == "discr" and d[1][0] == "call" and str(d[1][1]).endswith("::next"):
                            exhausted = (u, v) in discr_edges(cfg, u, 0)
                    tv = body.blocks[v]["term"]
                    if tv is not None and tv["k"] == "unreachable":
                        continue
                    if not exhausted:
                        bad.append("bb%d->bb%d" % (u, v))
        ctx.check(not bad, "R2", "every-suffix-of-every-route-is-visited", ctx.where(body, tm["sp"]),
                  "the selection loops may end only when their iterators are exhausted (other exits: %s); an early exit makes the "
                  "outcome depend on the order routes are written in" % (bad or "none"))
    # every suffix is put to the test: between taking the next suffix from the iterator and the suffix test there is no branch that
    # could skip the test (a condition on the search state there makes the result depend on the order of the table)
    for bb, tm in ews:
        mine = [l for l in loops if bb in l]
        if not mine:
            continue
        inner = min(mine, key=len)
        starts = []
        for u in inner:
            tmu = body.blocks[u]["term"]
            if tmu["k"] == "switch":
                d = norm(T.at_term(tmu["discr"], u))
                if d[0] == "discr" and d[1][0] == "call" and str(d[1][1]).endswith("::next"):
                    starts.extend(v for (_, v) in discr_edges(cfg, u, 1) if v in inner)
        skips = []
        fetches = tuple(u for u, tmu in body.calls() if u in inner and (callee_name(tmu) or "").endswith("::next"))
        for s0 in starts:
            # (a fetch ends the stretch: what lies behind the test, up to the next fetch, is not "between")
            between = {x for x in cfg.reachable_from(s0, blocked=(bb,) + fetches) if x in inner and bb in cfg.reachable_from(x, blocked=fetches)}
            for x in between:
                tx = body.blocks[x]["term"]
                if tx["k"] == "switch" and len({v for v in cfg.succ[x] if body.blocks[v]["term"] is None or body.blocks[v]["term"]["k"] != "unreachable"}) > 1:
                    skips.append("bb%d (%s)" % (x, P.rel(body.blocks[x]["stmts"][-1]["sp"]) if body.blocks[x]["stmts"] else "?"))
        ctx.check(bool(starts) and not skips, "R2", "suffix-test-not-skipped-under-a-condition", ctx.where(body, tm["sp"]),
                  "a branch between fetching a suffix and testing it: %s" % (skips or "none"))
    # replacement only when strictly longer
    cmpf = "erbium::dns::dnspkt::compare_longest_suffix"

    def m(d):
        if d[0] == "call" and str(d[1]).endswith("::eq") and len(d[2]) == 2:
            xs = [norm(x) for x in d[2]]
            return any(x[0] == "call" and x[1] == cmpf for x in xs)
        return False
    n = 0
    for sbb, d, te, fe in bool_switches(P, body, m):
        n += 1
        xs = [norm(x) for x in d[2]]
        c = [x for x in xs if x[0] == "call" and x[1] == cmpf][0]
        o = [x for x in xs if x is not c][0]
        ordv = o[2] if o[0] == "agg" else None
        # argument order: (current best, candidate)
        a0, a1 = norm(c[2][0]), norm(c[2][1])
        best_first = any(y[0] == "payload" and y[1] == "Some" for y in subterms(a0)) and any(
            y[0] == "call" and str(y[1]).endswith("::next") for y in subterms(a1))
        # assignments of Some(..) to the best-candidate variables that lie under the "already have a best" branch
        repl = []
        for bb, idx, s in body.stmts():
            if "rv" in s and len(s["p"]) == 1 and "Option<usize>" in body.local_ty(s["p"][0]) and cfg.dominates(sbb, bb):
                repl.append(bb)
        # the best route and the suffix it was chosen for are replaced together: a later candidate is compared with the suffix of the
        # route that is currently best, not with a suffix that was best some replacements ago
        idx_sets = [bb for bb, idx, s_ in body.stmts() if s_.get("rv") and len(s_["p"]) == 1 and s_["rv"]["k"] == "agg" and s_["rv"].get("variant") == "Some" and
                    "Option<usize>" in body.local_ty(s_["p"][0]) and any(bb in l for l in loops)]
        suf_sets = [bb for bb, idx, s_ in body.stmts() if s_.get("rv") and len(s_["p"]) == 1 and s_["rv"]["k"] == "agg" and s_["rv"].get("variant") == "Some" and
                    re.search(r"Option<&[^<>]*Domain>", body.local_ty(s_["p"][0])) and any(bb in l for l in loops)]
        if idx_sets and suf_sets:
            lonely = [bb for bb in idx_sets if not any(cfg.dominates(bb, o) or cfg.dominates(o, bb) for o in suf_sets)] + \
                     [bb for bb in suf_sets if not any(cfg.dominates(bb, o) or cfg.dominates(o, bb) for o in idx_sets)]
            ctx.check(not lonely and len(idx_sets) == len(suf_sets), "R2", "best-route-and-its-suffix-are-replaced-together", ctx.where(body),
                      "the route index is replaced %d time(s) and the suffix kept for comparison %d time(s)" % (len(idx_sets), len(suf_sets)))
        okk = ordv == "Greater" and best_first and repl and all(edge_dominated(cfg, te, bb) for bb in repl)
        if not okk and ordv == "Greater" and best_first:
            # the same fact without the nesting: every assignment of Some(..) to a best-so-far variable is reached only through the
            # edge "there is no best yet" or through the true edge of this comparison
            sets = [(bb, s_["p"][0]) for bb, idx, s_ in body.stmts() if "rv" in s_ and len(s_["p"]) == 1 and s_["rv"]["k"] == "agg" and
                    s_["rv"].get("variant") == "Some" and body.local_ty(s_["p"][0]).startswith("std::option::Option<") and
                    any(bb in l for l in loops)]
            best_locals = {l for _, l in sets}
            for _bb, _i, _s in body.stmts():       # `best = move tmp` after `tmp = Some(..)`
                if "rv" in _s and len(_s["p"]) == 1 and _s["rv"]["k"] == "use" and op_place(_s["rv"]["op"]) and \
                        op_place(_s["rv"]["op"])[0] in {l for _, l in sets} and len(op_place(_s["rv"]["op"])) == 1:
                    best_locals.add(_s["p"][0])

            def roots_in_best(pl, bb0, depth=0):
                if pl[0] in best_locals:
                    return True
                if depth > 3:
                    return False
                st0 = single_def_stmt(T, {"c": (pl[0],)}, bb0, len(body.blocks[bb0]["stmts"]))
                if st0 is not None and st0["rv"]["k"] in ("use", "ref"):
                    src = op_place(st0["rv"]["op"]) if st0["rv"]["k"] == "use" else tuple(st0["rv"]["place"])
                    if src:
                        return roots_in_best(tuple(x for x in src if x != "*"), st0["_at"][0], depth + 1)
                return False
            none_edges = []
            for b2, t2 in body.terms():
                if t2["k"] != "switch":
                    continue
                st2 = single_def_stmt(T, t2["discr"], b2, len(body.blocks[b2]["stmts"]))
                if st2 is not None and st2["rv"]["k"] == "discr" and roots_in_best(tuple(x for x in st2["rv"]["place"] if x != "*"), st2["_at"][0]):
                    none_edges.extend(discr_edges(cfg, b2, 0))
            allowed = set(te) | set(none_edges)
            free = cfg.reachable_avoiding_edges(0, allowed)
            okk = bool(sets) and bool(none_edges) and all(bb not in free for bb, _ in sets)
            repl = [bb for bb, _ in sets]
        ctx.check(okk, "R2", "replace-best-only-if-candidate-longer:cmp(best,candidate)==%s" % ordv, ctx.where(body),
                  "the best route may be replaced only on the true edge of compare_longest_suffix(best, candidate) == Greater "
                  "(Greater = candidate has more labels); found == %s, best-first: %s, replacements under the test: %d" % (ordv, best_first, len(repl)))
    ctx.floor("R2", "comparison of candidate with current best", n, 1)
    if cmpf in P.bodies:
        cb = P.bodies[cmpf]
        ctx.saw(cb)
        Tc = terms(P, cb)
        cc = cfg_of(cb)

        def mlt(d):
            if d[0] == "bin" and d[1] in ("Lt", "Gt"):
                return all(any(y[0] == "call" and str(y[1]).endswith("::len") for y in subterms(x)) for x in (d[2], d[3]))
            return False
        okk = False
        for sbb, d, te, fe in bool_switches(P, cb, mlt):
            lhs_first = any(y[0] == "param" and y[1] == 1 for y in subterms(d[2]))
            edges = te if (d[1] == "Lt") == lhs_first else fe
            for bb, idx, s in cb.stmts():
                if s["p"] == (0,) and "rv" in s and s["rv"]["k"] == "agg" and s["rv"].get("variant") == "Greater" and edge_dominated(cc, edges, bb):
                    okk = True
        if not okk:
            # the same order written with the combinators: rhs.len().cmp(&lhs.len()).then_with(..)  (or lhs.cmp(rhs).reverse().then..)
            rets = [norm(Tc.rvalue(st["rv"], bb, idx)) for bb, idx, st in cb.stmts() if st["p"] == (0,) and "rv" in st]
            rets += [norm(("call", callee_name(tm), tuple(Tc.call_args(bb)), bb)) for bb, tm in cb.calls() if tuple(tm["dest"]) == (0,)]

            def primary(t, rev=0, depth=0):
                """(first compared is rhs?, number of reversals) of the primary key of an Ordering expression"""
                t = norm(t)
                if depth > 8 or t[0] != "call":
                    return None
                last = str(t[1]).rsplit("::", 1)[-1]
                if last in ("then_with", "then") and t[2]:
                    return primary(t[2][0], rev, depth + 1)
                if last == "reverse" and t[2]:
                    return primary(t[2][0], rev + 1, depth + 1)
                if last == "cmp" and len(t[2]) == 2:
                    a, b_ = norm(t[2][0]), norm(t[2][1])
                    if all(any(y[0] == "call" and str(y[1]).endswith("::len") for y in subterms(x)) for x in (a, b_)):
                        pa = {y[1] for y in subterms(a) if y[0] == "param"}
                        pb = {y[1] for y in subterms(b_) if y[0] == "param"}
                        if pa == {2} and pb == {1}:
                            return (True, rev)
                        if pa == {1} and pb == {2}:
                            return (False, rev)
                return None
            prim = [primary(r) for r in rets]
            okk = bool(prim) and all(p_ is not None and (p_[0] == (p_[1] % 2 == 0)) for p_ in prim)
        ctx.check(okk, "R2", "compare:Greater-iff-lhs-has-fewer-labels", ctx.where(cb), "compare_longest_suffix(lhs, rhs) is Greater exactly when lhs has fewer labels than rhs")

    # ---------------- R3/R4 outcome table
    nexts = [(bb, tm) for bb, tm in body.calls() if (callee_name(tm) or "").endswith("cache::CacheHandler::handle_query")]
    errs = {}
    for bb, idx, s in body.stmts():
        if "rv" in s and s["rv"]["k"] == "agg" and s["rv"].get("adt", "").endswith("dns::Error"):
            errs.setdefault(s["rv"]["variant"], []).append(bb)
    # the dest switch
    hadt = P.adt("erbium::dns::config::Handler")
    vidx = {v["name"]: i for i, v in enumerate(hadt["variants"])} if hadt else {}
    dsw = None
    for bb, tm in body.terms():
        if tm["k"] == "switch":
            d = norm(T.at_term(tm["discr"], bb))
            def _is_dest(x, depth=0):
                x = norm(x)
                while x[0] in ("ref", "deref"):
                    x = norm(x[1])
                if x[0] == "phi" and depth < 3:
                    ops = [y for y in x[1] if not (norm(y)[0] == "payload" and norm(norm(y)[2])[0] == "agg" and norm(norm(y)[2])[2] == "None")]
                    return bool(ops) and all(_is_dest(y, depth + 1) for y in ops)
                return x[0] == "field" and x[2] == "dest"
            if d[0] == "discr" and _is_dest(d[1]):
                dsw = bb
    if dsw is None:
        ctx.bad("R3", "dest-switch-not-found", ctx.where(body), "cannot find the switch on the route's handler")
    else:
        fwd = discr_edges(cfg, dsw, vidx.get("Forward", -1))
        nx = discr_edges(cfg, dsw, vidx.get("ForgeNxDomain", -1))

        def mrd(d):
            return d[0] == "field" and d[2] == "rd"
        rd_true, rd_false = [], []
        for sbb, d, te, fe in bool_switches(P, body, mrd):
            rd_true.extend(te)
            rd_false.extend(fe)
        ctx.check(bool(nexts) and all(edge_dominated(cfg, fwd, bb) and edge_dominated(cfg, rd_true, bb) for bb, _ in nexts), "R3",
                  "forward-only-with-RD", ctx.where(body), "the query goes to the cache/upstream only for a forward route and only if the client set RD")
        na = errs.get("NotAuthoritative", [])
        ctx.check(bool(na) and all(edge_dominated(cfg, rd_false, bb) and edge_dominated(cfg, fwd, bb) for bb in na), "R3",
                  "forward-without-RD->NotAuthoritative", ctx.where(body), "")
        bl = errs.get("Blocked", [])
        r = set()
        for e in nx:
            r |= cfg.reachable_from(e[1])
        ctx.check(bool(bl) and all(edge_dominated(cfg, nx, bb) for bb in bl) and not any(bb in r for bb, _ in nexts), "R3",
                  "forge-nxdomain->Blocked-and-never-upstream", ctx.where(body), "names under a forge-nxdomain suffix are never sent upstream")
        nr = errs.get("NoRouteConfigured", [])
        # on the None edge of best_route
        none_edges = []
        for bb, tm in body.terms():
            if tm["k"] == "switch":
                d = norm(T.at_term(tm["discr"], bb))
                if d[0] == "discr" and "Option<usize>" in _ty_of_discr(body, tm):
                    none_edges.extend(discr_edges(cfg, bb, 0))
                elif d[0] == "discr" and _ty_of_discr(body, tm).startswith("std::option::Option<") and not any(bb in l for l in loops) and \
                        any(y[0] == "call" and str(y[1]).endswith("::next") for y in subterms(d)) and \
                        any(norm(y)[0] == "agg" and norm(y)[2] == "None" for y in subterms(d)):
                    # the best-so-far kept as one Option<(route, suffix)>: None after the loops = nothing matched
                    none_edges.extend(discr_edges(cfg, bb, 0))
        ctx.check(bool(nr) and all(edge_dominated(cfg, none_edges, bb) for bb in nr), "R3", "no-route->NoRouteConfigured", ctx.where(body), "")
        # R4: the server is the selected route's
        for bb, tm in nexts:
            a = norm(T.call_args(bb)[2])
            sel = any(y[0] == "payload" and y[1] == "Forward" for y in subterms(a)) and any(
                y[0] == "payload" and y[1] == "Some" for y in subterms(a))
            ctx.check(sel, "R4", "upstream-server<-selected-route.dest", ctx.where(body, tm["sp"]), "server is %s" % show(a)[:140])
    # rcode mapping of the three outcomes
    want = {"NotAuthoritative": "REFUSED", "Blocked": "NXDOMAIN", "NoRouteConfigured": "SERVFAIL"}
    for fid in fn_with_sig(P, ["DnsMessage", "dns::Error"], "DNSPkt"):
        eb = body_or_coroutine(P, fid)
        ctx.saw(eb)
        Te = terms(P, eb)
        ce = cfg_of(eb)
        adt = P.adt("erbium::dns::Error")
        for var, rc in want.items():
            idx = [i for i, v in enumerate(adt["variants"]) if v["name"] == var][0]
            okk = False
            for bb, tm in eb.terms():
                if tm["k"] == "switch":
                    d = norm(Te.at_term(tm["discr"], bb))
                    if d[0] == "discr":
                        rp = resolve_path(P, eb, d[1])
                        if rp is not None and param_ty(rp[0], rp[1]).endswith("dns::Error") and rp[2] == ():
                            es = discr_edges(ce, bb, idx)
                            got = set()
                            for b2, i2, s in eb.stmts():
                                if "rv" in s and s["rv"]["k"] == "use" and "dnspkt::" in s["rv"]["op"].get("k", {}).get("uneval", "") and \
                                        eb.local_ty(s["p"][0]).endswith("RCode") and edge_dominated(ce, es, b2):
                                    got.add(s["rv"]["op"]["k"]["uneval"].split("::")[-1])
                            okk = got == {rc}
            ctx.check(okk, "R3", "rcode:%s->%s" % (var, rc), ctx.where(eb), "")


def _ty_of_discr(body, tm):
    # type of the place whose discriminant is switched on: find via the defining statement
    for bb, idx, s in body.stmts():
        if "rv" in s and s["rv"]["k"] == "discr" and op_place(tm["discr"]) == s["p"]:
            return s["rv"].get("ty", "")
    return ""


def _r6(ctx, ew):
    P = ctx.P
    b = P.bodies[ew]
    T = terms(P, b)
    cfg = cfg_of(b)
    fam = P.family(ew)
    names = [(callee_name(tm) or "") for x in fam for _, tm in x.calls()]
    # idiom 1: slice::ends_with / strip_suffix on the label slices
    if any(n.endswith("<impl [T]>::ends_with") or n.endswith("<impl [T]>::strip_suffix") for n in names):
        ctx.ok("R6", "shorter-name-never-matches:slice-ends_with", ctx.where(b))
        return
    # idiom 2: an explicit length comparison guards the label-wise comparison
    def m(d):
        if d[0] == "bin" and d[1] in ("Ge", "Le", "Gt", "Lt"):
            return all(any(y[0] == "call" and str(y[1]).endswith("::len") for y in subterms(x)) for x in (d[2], d[3]))
        return False
    guarded = False
    for sbb, d, te, fe in bool_switches(P, b, m):
        self_first = any(y[0] == "param" and y[1] == 1 for y in subterms(d[2]))
        # edges on which len(self) >= len(other) holds
        if d[1] in ("Ge", "Gt"):
            good = te if self_first else fe
        else:
            good = fe if self_first else te
        if d[1] in ("Gt", "Lt") and not self_first:
            good = fe if d[1] == "Gt" else te
        # the label comparison (Iterator::all / zip) must be under that edge
        cmp_blocks = [bb for bb, tm in b.calls() if (callee_name(tm) or "").rsplit("::", 1)[-1] in ("all", "zip", "eq", "eq_ignore_ascii_case")]
        if cmp_blocks and all(edge_dominated(cfg, good, bb) for bb in cmp_blocks):
            guarded = True
        # ... and exactly that: a name with as many labels as the suffix (the suffix itself, the root against the empty suffix) is
        # compared too.  len(self) >= len(other) / len(other) <= len(self) admit equality; the strict forms do not.
        op = d[1] if self_first else {"Ge": "Le", "Le": "Ge", "Gt": "Lt", "Lt": "Gt"}[d[1]]          # len(self) op len(other)
        on_true = good is te or good == te
        admits_equal = (on_true and d[1] in ("Ge", "Le")) or (not on_true and d[1] in ("Gt", "Lt"))
        ctx.check(admits_equal, "R6", "a-name-equal-to-the-suffix-matches", ctx.where(b),
                  "the length guard is len(name) %s len(suffix) on the comparing edge: a name with exactly the suffix's labels must be compared, not refused" % op)
    # idiom 3: `self.len().checked_sub(other.len())` — the comparison is made under `Some(skip)`, which is len(self) >= len(other)
    # (equality included: Some(0))
    for sbb, tm in b.terms():
        if tm["k"] != "switch":
            continue
        d = norm(T.at_term(tm["discr"], sbb))
        c = norm(d[1]) if d[0] == "discr" else None
        if not (c and c[0] == "call" and str(c[1]).endswith("::checked_sub") and len(c[2]) == 2
                and all(any(y[0] == "call" and str(y[1]).endswith("::len") for y in subterms(norm(x))) for x in c[2])):
            continue
        if not any(y[0] == "param" and y[1] == 1 for y in subterms(norm(c[2][0]))) or any(y[0] == "param" and y[1] == 1 for y in subterms(norm(c[2][1]))):
            continue
        good = discr_edges(cfg, sbb, 1)
        cmp_blocks = [bb for bb, t2 in b.calls() if (callee_name(t2) or "").rsplit("::", 1)[-1] in ("all", "zip", "eq", "eq_ignore_ascii_case")]
        if cmp_blocks and all(edge_dominated(cfg, good, bb) for bb in cmp_blocks):
            guarded = True
    zip_only = any(n.rsplit("::", 1)[-1] == "zip" for n in names)
    ctx.check(guarded, "R6", "shorter-name-never-matches" if guarded else "shorter-name-can-match:%s" % ("zip-stops-at-shorter-list" if zip_only else "no-length-guard"),
              ctx.where(b),
              "a query name with fewer labels than the suffix must not match: the label-wise comparison must be guarded by "
              "len(name) >= len(suffix) (or use slice::ends_with); zipping the two label lists stops at the shorter one, so `com` "
              "would match the suffix `ads.example.com`")
