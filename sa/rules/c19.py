"""C19 — configuration loading is total and accepted configurations are safe to serve (obligation engine + loader validation rules)."""
from ..util import *
from ..prov import norm, show, subterms
from ..cfg import cfg_of
from ..callgraph import callgraph
from .. import oblig
from ..spec import reviewed as RV
from . import c05

EXPLANATION = ("obligation engine over built MIR, twice: (A) every panic-capable construct in every function reachable from "
               "config::load_config_from_string must be discharged (constants, value ranges, facts on dominating branch edges, verified "
               "field invariants) or carry a reviewed reason; (B) the same for every function reachable from the four service loops, "
               "where a site whose operands come from the configuration is accepted only through a validation rule of this module that "
               "is re-evaluated on every run: prefix lengths stored by the loader pass check_prefixlen(_, 32|128), Ipv4Subnet.prefixlen "
               "<= 32 is a verified field invariant, a forward route is built only after its server list was found non-empty, the DHCP "
               "reply is framed only under a size guard, signed configuration integers are converted with try_from, never `as`")
ASSUMPTIONS = ["not decided: that every example in the manual and the shipped example file loads (needs the loader to run); "
               "panics inside external crates (yaml-rust); memory exhaustion from very large but finite pools",
               "reviewed entries (sa/spec/reviewed_entries.py) are hand-written reasons for constructs the engine cannot discharge; "
               "a new construct that is safe for a non-local reason is reported until reviewed"]
EXPLANATION += '; also: V5 the lease-time bounds handed to the allocator are absent, constant or clamped; V6 no narrowing `as` on a configured number unless its range is known to fit'
EXTRA_CONFIGS = ["dns", "dhcp", "radv"]

LOADER = "erbium::config::load_config_from_string"


def run(ctx):
    P = ctx.P
    cg = callgraph(P)
    if LOADER not in P.bodies:
        ctx.bad("load", "anchor:load_config_from_string", "", "loader entry point not found")
        return
    D = oblig.Discharger(P)
    oblig.Inter(P, cg)
    # ---- invariants the engine assumes
    proven, bad = oblig.check_field_invariants(P, D)
    proven2, bad2 = oblig.check_field_ranges(P, D)
    for b, sp, what, r in proven + proven2:
        ctx.ok("inv", "invariant:%s:%s" % (b.id.split("::")[-1], what), ctx.where(b, sp), "proven (%s)" % r)
    for b, sp, what, r in bad + bad2:
        ctx.bad("inv", "invariant:%s:%s:unproven" % (b.id.split("::")[-1], what), ctx.where(b, sp),
                "the engine's reasoning about every use of this field assumes the invariant; it must be established here")
    ctx.floor("inv", "field range obligations", len(proven2), 1)
    # ---- validation rules named by the reviewed entries
    c05.side_rules(ctx, cg)
    c05.side_rules_2(ctx)
    c05.side_rules_3(ctx)
    c05.side_rules_4(ctx, cg)
    c05.side_rules_5(ctx)
    validation_rules(ctx, cg)
    narrowing_casts(ctx, cg)
    side = RV.SideConditions(ctx)
    # ---- A: the loader
    lreach = sorted(r for r in cg.reachable([LOADER]) if r in P.bodies)
    n_sites, n_dis, by_rule = c05.check_sites(ctx, D, side, lreach, "load")
    ctx.floor("load", "functions reachable from the loader", len(lreach), 100 if ctx.config == "default" else 40)
    ctx.floor("load", "panic-capable sites in the loader", n_sites, 25 if ctx.config == "default" else 8)
    ctx.notes.append("loader: %d sites, %d discharged by the engine %s" % (n_sites, n_dis, sorted(by_rule.items())))
    # ---- B: serving
    roots, sreach = c05.scope(P, cg)
    n_sites, n_dis, by_rule = c05.check_sites(ctx, D, side, [r for r in sreach if r not in set(lreach)], "serve")
    ctx.floor("serve", "panic-capable sites in the service scope", n_sites, 250 if ctx.config == "default" else 50)
    ctx.notes.append("serving: %d sites, %d discharged by the engine" % (n_sites, n_dis))
    # ---- loops of the loader
    c05._termination(ctx, cg, lreach, loops_floor=15)


# narrowing casts of the loader that are meant to drop bits, by function (reason each)
INTENDED_TRUNCATION = {
    "erbium_net::Ipv4Subnet::netmask": "!(0xffff_ffff_u64 >> prefixlen) as u32: the mask is computed in 64 bits so that a shift by 32 is defined; the low 32 bits are the mask",
}


def lease_bounds(ctx):
    """V5 (also evaluated by C01 and C10, whose clauses rest on it: an unbounded lease time wraps the 32-bit expiry column into the
    past, and the address is given to a second client while the first was told it holds it)"""
    P = ctx.P
    # V5: the lease-time bounds handed to the allocator are bounded themselves
    # (the allocator adds the clamped lease time to the clock in 64 bits and narrows the sum to the 32-bit expiry column)
    n = 0
    seen_resp = 0
    for b in P.bodies.values():
        if not b.id.startswith("erbium::dhcp::") or "::test" in b.id:
            continue
        T = None
        for bb, idx, st in b.stmts():
            pl = st["p"]
            rv = st.get("rv")
            if rv is None:
                continue
            fld = next((x[1:] for x in pl[1:] if isinstance(x, str) and x in (".minlease", ".maxlease")), None)
            vals = []
            if fld and "dhcp::Response" in b.local_ty(pl[0]):
                T = T or terms(P, b)
                vals.append((fld, norm(T.rvalue(rv, bb, idx))))
            if rv["k"] == "agg" and str(rv.get("adt", rv.get("def", ""))).endswith("dhcp::Response"):
                T = T or terms(P, b)
                seen_resp += 1
                f = dict(norm(T.rvalue(rv, bb, idx))[3])
                vals += [(k, norm(f[k])) for k in ("minlease", "maxlease") if k in f]
            for fld, v in vals:
                n += 1

                def bounded(v, depth=0):
                    v = norm(v)
                    if depth > 6:
                        return False
                    if v[0] == "phi":
                        return all(bounded(x, depth + 1) for x in v[1])
                    if v[0] == "agg" and v[2] == "None":
                        return True
                    if v[0] == "field" and v[2] in ("minlease", "maxlease") and norm(v[1])[0] == "call" and str(norm(v[1])[1]).endswith("Default>::default"):
                        return True
                    if v[0] == "agg" and v[2] == "Some":
                        return bounded(v[3][0][1], depth + 1)
                    if v[0] == "const":
                        return True
                    if v[0] == "call" and str(v[1]).rsplit("::", 1)[-1] in ("min", "clamp") and any(norm(a)[0] == "const" for a in v[2]):
                        return True
                    return False
                ctx.check(bounded(v), "V5", "lease-time-bound-is-bounded:%s" % fld, ctx.where(b, st["sp"]),
                          "Response.%s reaches the allocator as a bound of the lease time, which is added to the clock and narrowed to "
                          "32 bits: it must be absent, a constant, or clamped to a constant (is %s)" % (fld, show(v)[:120]))
    if ctx.config in ("default", "dhcp"):
        ctx.floor("V5", "constructions of the DHCP response under construction", seen_resp, 1)


def narrowing_casts(ctx, cg):
    """V6: a number the operator wrote is never narrowed with `as` unless its range is known to fit: `4294967296s` must be an
    error or a saturated value, not 0 s"""
    P = ctx.P
    if LOADER not in P.bodies:
        return
    reach = [r for r in cg.reachable([LOADER]) if r in P.bodies and "::test" not in r]
    D = oblig.Discharger(P)
    BITS = oblig.INT_BITS
    n = 0
    for r in sorted(reach):
        b = P.bodies[r]
        pr = None
        for bb, idx, st in b.stmts():
            rv = st.get("rv")
            if not (rv and rv["k"] == "cast" and "IntToInt" in str(rv.get("ck", rv))) or len(st["p"]) != 1:
                continue
            src = op_place(rv["op"])
            if src is None:
                continue
            pr = pr or D.prover(b)
            t = oblig.canon(pr.T.operand(rv["op"], bb, idx))
            sty = oblig._strip_ref(pr.ranger.typer.of(t) or (b.local_ty(src[0]) if len(src) == 1 else ""))
            dty = b.local_ty(st["p"][0])
            if sty not in BITS or dty not in BITS:
                continue
            sb, db = BITS[sty], BITS[dty]
            ssig, dsig = sty.startswith("i"), dty.startswith("i")
            if not (sb > db or (ssig and not dsig) or (sb == db and ssig != dsig)):
                continue
            n += 1
            rg = pr.ranger.rng(t)
            tr = oblig.type_range(dty)
            fits = rg[0] is not None and rg[1] is not None and rg[0] >= tr[0] and rg[1] <= tr[1]
            if not fits:
                # a dominating comparison may bound it
                lo = pr.prove(oblig._add(oblig._neg(pr.lin(t)), ({}, tr[0])), bb)
                hi = pr.prove(oblig._add(pr.lin(t), ({}, -tr[1])), bb)
                fits = bool(lo and hi)
            root = b.id.split("::{")[0]
            if not fits and root in INTENDED_TRUNCATION:
                ctx.ok("V6", "narrowing-cast:intended:%s" % root.rsplit("::", 1)[-1], ctx.where(b, st["sp"]), INTENDED_TRUNCATION[root])
                continue
            ctx.check(fits, "V6", "narrowing-cast-of-a-configured-number:%s:%s->%s" % (root.rsplit("::", 1)[-1], sty, dty), ctx.where(b, st["sp"]),
                      "`as %s` drops the high bits of a %s whose range is not known to fit (%s, range %s): a configured value beyond the "
                      "target type silently becomes another value" % (dty, sty, show(t)[:100], rg))
    if ctx.config in ("default", "dhcp"):      # the one narrowing cast of the loader is Ipv4Subnet::netmask, reached through the DHCP section
        ctx.floor("V6", "narrowing casts in the loader", n, 1)


def validation_rules(ctx, cg):
    P = ctx.P
    lreach = cg.reachable([LOADER])
    # ---------------- V1: stored prefix lengths went through check_prefixlen with the right maximum
    chk = [i for i in P.bodies if i.endswith("config::check_prefixlen")]
    n = 0
    if not chk:
        ctx.bad("V1", "anchor:check_prefixlen", "", "prefix length validator not found")
    else:
        cb = P.bodies[chk[0]]
        cfg = cfg_of(cb)
        T = terms(P, cb)
        # the validator returns Ok(prefixlen) only on the edge where prefixlen > max is false
        okret = False
        for bb, cond, tedges, fedges in bool_switches(P, cb, lambda d: d[0] == "bin" and d[1] in ("Gt", "Le", "Lt", "Ge")):
            a, b2 = norm(cond[2]), norm(cond[3])
            shape_ok = (cond[1] == "Gt" and a == ("param", 1) and b2 == ("param", 2)) or (cond[1] == "Le" and a == ("param", 1) and b2 == ("param", 2)) or \
                       (cond[1] == "Lt" and a == ("param", 2) and b2 == ("param", 1)) or (cond[1] == "Ge" and a == ("param", 2) and b2 == ("param", 1))
            if not shape_ok:
                continue
            good_edges = fedges if cond[1] in ("Gt", "Lt") else tedges
            oks = [(x, i) for x, i, s in cb.stmts() if s.get("rv") and s["rv"]["k"] == "agg" and s["rv"].get("variant") == "Ok"]
            okret = bool(oks) and all(edge_dominated(cfg, good_edges, x) for x, _ in oks)
        ctx.check(okret, "V1", "check_prefixlen:Ok-only-when-length<=max", ctx.where(cb), "Ok(prefixlen) must be built only on the edge where prefixlen <= max")
        for adt, mx in (("erbium::config::Prefix4", 32), ("erbium::config::Prefix6", 128)):
            for b, bb, idx, s in find_aggs(P, adt):
                if not (b.id in lreach or (b.parent and b.parent in lreach)):
                    continue
                n += 1
                T = terms(P, b)
                t = norm(T.rvalue(s["rv"], bb, idx))
                pl = norm(dict(t[3])["prefixlen"])
                src = pl
                good = False
                if src[0] == "payload" and src[1] in ("?", "Ok", "Continue"):
                    c = norm(src[2])
                    while c[0] == "call" and str(c[1]).endswith("::branch"):
                        c = norm(c[2][0])
                    if c[0] == "call" and c[1] == chk[0]:
                        m = norm(c[2][1])
                        good = m[0] == "const" and m[1] == mx
                if src[0] == "const" and isinstance(src[1], int) and src[1] <= mx:
                    good = True
                if src[0] == "param":
                    # a constructor: its callers are checked through the assertion site in the constructor
                    good = any(sx.kind == "panic" for sx in oblig.sites_of(P, b))
                ctx.check(good, "V1", "stored-prefix-length-validated:%s:%s" % (adt.split("::")[-1], b.id.split("::")[-1] if b.kind != "closure" else b.id.split("::")[-2]),
                          ctx.where(b, s["sp"]), "prefixlen of a %s built by the loader must be check_prefixlen(_, %d, _)? (is %s)" % (adt.split("::")[-1], mx, show(pl)[:100]))
    ctx.floor("V1", "prefix values built under the loader", n, 3 if ctx.config == "default" else 0)
    # ---------------- V2: signed configuration integers are never converted with `as`
    n = 0
    for fid in sorted(lreach):
        b = P.bodies.get(fid)
        if b is None:
            continue
        T = None
        for bb, idx, s in b.stmts():
            rv = s.get("rv")
            if rv and rv["k"] == "cast" and rv.get("kind") == "IntToInt" and rv.get("from") in ("i64", "i32", "isize") and rv.get("to") in ("u64", "u32", "u16", "u8", "usize"):
                T = T or terms(P, b)
                src = norm(T.operand(rv["op"], bb, idx)) if "op" in rv else None
                n += 1
                fromyaml = src is not None and any(y[0] == "payload" and y[1] == "Integer" for y in subterms(src)) or src is None or any(
                    y[0] == "param" for y in subterms(src))
                ctx.check(not fromyaml, "V2", "signed-config-integer-cast:%s" % b.id.split("::")[-1], ctx.where(b, s["sp"]),
                          "a signed integer from the configuration is converted to %s with `as`: negative values wrap instead of being refused" % rv.get("to"))
    ctx.ok("V2", "signed-to-unsigned casts in the loader examined", "", "%d" % n)
    # ---------------- V3: a forward route is built only with a non-empty server list
    n = 0
    for b, bb, idx, s in find_aggs(P, "erbium::dns::config::Handler"):
        if s["rv"].get("variant") != "Forward" or not (b.id in lreach or (b.parent and b.parent in lreach)):
            continue
        n += 1
        cfg = cfg_of(b)
        guarded = False
        for sb, cond, tedges, fedges in bool_switches(P, b, lambda d: d[0] == "call" and str(d[1]).endswith("::is_empty")):
            if edge_dominated(cfg, fedges, bb):
                guarded = True
        # ... or the same test spelt with the length: `len == 0` / `len < 1` (not empty on the false edge), `len != 0` / `len > 0` /
        # `len >= 1` (on the true edge), with the operands either way round
        def lencmp(d):
            if d[0] != "bin" or d[1] not in ("Eq", "Ne", "Lt", "Le", "Gt", "Ge"):
                return False
            x, y = norm(d[2]), norm(d[3])
            return sum(1 for z in (x, y) if z[0] == "call" and str(z[1]).endswith("::len") or z[0] == "len") == 1 and \
                sum(1 for z in (x, y) if const_value(z) is not None) == 1
        for sb, d, tedges, fedges in bool_switches(P, b, lencmp):
            x, y = norm(d[2]), norm(d[3])
            op = d[1]
            if const_value(x) is not None:          # k op len  ->  len op' k
                x, y = y, x
                op = {"Lt": "Gt", "Gt": "Lt", "Le": "Ge", "Ge": "Le"}.get(op, op)
            k = const_value(y)
            nonempty_on_true = (op, k) in (("Ne", 0), ("Gt", 0), ("Ge", 1))
            nonempty_on_false = (op, k) in (("Eq", 0), ("Lt", 1), ("Le", 0))
            if (nonempty_on_true and edge_dominated(cfg, tedges, bb)) or (nonempty_on_false and edge_dominated(cfg, fedges, bb)):
                guarded = True
        ctx.check(guarded, "V3", "forward-route-has-a-server", ctx.where(b, s["sp"]),
                  "the router uses the first server of a forward route for every matching query: the route must be built only on the "
                  "edge where the server list is not empty")
        # ... and the list that was tested is the list that is stored: nothing drops servers between the test and the route
        Tb = terms(P, b)
        v = norm(Tb.rvalue(s["rv"], bb, idx))
        steps = [str(y[1]).rsplit("::", 1)[-1] for y in subterms(v) if y[0] == "call" and isinstance(y[1], str) and "iter" in str(y[1]).lower()]
        drops = sorted({x for x in steps if x in ("filter", "filter_map", "take", "skip", "step_by", "take_while", "skip_while", "flat_map", "flatten", "zip", "dedup")})
        ctx.check(not drops, "V3", "forward-route-stores-the-tested-list", ctx.where(b, s["sp"]),
                  "between the non-empty test and Handler::Forward the server list passes through %s: the stored list can be empty although the "
                  "tested one was not" % (drops or "-"))
    if ctx.config in ("default", "dns"):
        ctx.floor("V3", "forward route constructions", n, 1)
    # ---------------- V4: the DHCP reply is framed only under a size guard
    n = 0
    for b in P.bodies.values():
        for bb, tm in b.calls():
            if (callee_name(tm) or "").endswith("packet::Fragment::<'a>::new_udp4") or (callee_name(tm) or "").endswith("Fragment::new_udp4"):
                if "erbium_net" in b.id:
                    continue
                n += 1
                cfg = cfg_of(b)
                guarded = False
                lim = None
                for sb, cond, tedges, fedges in bool_switches(P, b, lambda d: d[0] == "bin" and d[1] in ("Gt", "Ge", "Lt", "Le")):
                    a, c = norm(cond[2]), norm(cond[3])
                    if oblig._len_like(a) is not None and c[0] == "const" and cond[1] in ("Gt", "Ge") and isinstance(c[1], int):
                        bound = c[1] if cond[1] == "Gt" else c[1] - 1
                        if bound <= 65507 and edge_dominated(cfg, fedges, bb):
                            guarded, lim = True, bound
                ctx.check(guarded, "V4", "reply-framed-only-if-size<=65507", ctx.where(b, tm["sp"]),
                          "the frame builder adds header sizes to the payload length in 16 bits; the call must be dominated by the failing "
                          "edge of `len(reply) > N` with N <= 65507")
    if ctx.config in ("default", "dhcp"):
        ctx.floor("V4", "DHCP frame constructions", n, 1)
    lease_bounds(ctx)
