"""C09 — a client keeps its address; refused only when the pool is exhausted (structural clauses)."""
from ..util import *
from ..prov import strip, norm, show, subterms
from ..cfg import cfg_of
from ..callgraph import callgraph
from ..poolmodel import *
from ..sql import conjuncts
from .c01 import own_row_info, _is_lease_result

EXPLANATION = ("SQL-shape and control-flow rules over the lease selection: ORDER BY prefers the requested address then the "
               "latest expiry; a single-row query must not be post-filtered by pool membership (later candidates would be "
               "lost); the no-address error is produced only after the candidate loop is exhausted; REQUEST passes ciaddr "
               "else option 50; selection steps are ordered reuse, revive, requested, new")
ASSUMPTIONS = ["not decided: the history-level statement (no history is executed); SQLite ordering semantics trusted"]
EXPLANATION += "; also: C01's SQL-shape, identity, free-check-time and uniqueness rules are evaluated here too"
EXTRA_CONFIGS = ["dhcp"]


def _r6_named_address_in_use_falls_back(ctx):
    """R6 a refusal for lack of addresses is the last resort: when the address a client names is held by someone else, the allocator goes
    on to pick another one — from the Err edge of `select_requested_address` the call of `select_new_address` is still reachable (the
    arm that swallows RequestedAddressInUse)."""
    P = ctx.P
    n = 0
    for b in P.bodies.values():
        if not b.id.endswith("dhcp::pool::Pool::select_address"):
            continue
        T = terms(P, b)
        cfg = cfg_of(b)
        news = {bb for bb, tm in b.calls() if (callee_name(tm) or "").endswith("Pool::select_new_address")}
        for sb, t2 in b.terms():
            if t2["k"] != "switch":
                continue
            d = norm(T.at_term(t2["discr"], sb))
            if d[0] == "discr" and norm(d[1])[0] == "call" and str(norm(d[1])[1]).endswith("Pool::select_requested_address"):
                n += 1
                ctx.saw(b)
                errs = discr_edges(cfg, sb, 1)
                okk = bool(news) and bool(errs) and all(cfg.reachable_from(tgt) & news for _, tgt in errs)
                # ... for both reasons it can fail: the switch on the error's variant sends RequestedAddressInUse (and
                # NoAssignableAddress) on to the new-address step
                eadt = P.adt("erbium::dhcp::pool::Error")
                if okk and eadt:
                    names = [v["name"] for v in eadt["variants"]]
                    found = False
                    for sb2, t3 in b.terms():
                        if t3["k"] != "switch" or not any(sb2 in cfg.reachable_from(tgt) for _, tgt in errs):
                            continue
                        d2 = norm(T.at_term(t3["discr"], sb2))
                        if d2[0] == "discr" and any(y[0] == "call" and str(y[1]).endswith("Pool::select_requested_address") for y in subterms(norm(d2[1]))) and norm(d2[1])[0] != "call":
                            found = True
                            for vn in ("RequestedAddressInUse", "NoAssignableAddress"):
                                if vn in names:
                                    es = discr_edges(cfg, sb2, names.index(vn))
                                    okk = okk and bool(es) and all(cfg.reachable_from(tgt) & news for _, tgt in es)
                    okk = okk and found
                ctx.check(okk, "R6", "named-address-in-use-falls-back-to-a-new-one", ctx.where(b),
                          "when the named address cannot be had the allocator must still try select_new_address")
    if ctx.config in ("default", "dhcp"):
        ctx.floor("R6", "tests of the named-address result", n, 1)


def run(ctx):
    P = ctx.P
    cg = callgraph(P)
    M = PoolModel(P, cg)
    # shared clauses: a client's other rows survive a write (no second uniqueness constraint); every statement is understood
    ctx.include("C01", rules=("R0", "R1", "R2", "R7", "R6", "R3"))
    ctx.include("C13", rules=("R6",))      # the address acknowledged is the address recorded
    _r6_named_address_in_use_falls_back(ctx)
    ctx.include("C18", rules=("R7",))      # the pool remembers nothing but the rows: no memo of "this pool is exhausted"
    ctx.include("C13", rules=("R5",))      # ... and it is acknowledged: once the pool has chosen (the holder's own address), no refusal
    producers = {fid for fid, sig in P.sigs.items() if _is_lease_result(sig_output(sig)) and fid in P.bodies}
    own_sites = []  # (body, bb, site, where)
    for fid in sorted(producers):
        body = P.bodies[fid]
        T = terms(P, body)
        for b, bb, idx, s in find_aggs(P, "dhcp::pool::Lease", [body]):
            t = T.rvalue(s["rv"], bb, idx)
            ip = norm(dict(t[3])["ip"])
            own = own_row_info(ctx, M, body, ip)
            if own is not None and own[0] is not None:
                own_sites.append((body, bb, own[0], ctx.where(body, s["sp"]), ip))
                ctx.saw(body)
    # ---- R1: ordering prefers the requested address, then the latest expiry
    n = 0
    for body, bb, site, where, ip in own_sites:
        st = site.stmt
        n += 1
        order = st.get("order") or []
        ok1 = False
        req_txt = None
        if order and order[0][1] == "DESC" and order[0][0][0] == "cmp" and order[0][0][1] == "=" and ("col", "address") in order[0][0][2:]:
            p = [x for x in order[0][0][2:] if x[0] == "param"]
            if p:
                bound = site.param(p[0][1])
                req_txt = show(bound)[:120] if bound else None
                # must derive from the Option<Ipv4Addr> parameter (the requested address)
                if bound is not None:
                    for sub in subterms(bound):
                        if sub[0] == "param" and "Option<std::net::Ipv4Addr>" in body.local_ty(sub[1]):
                            ok1 = True
        ctx.check(ok1, "R1", "order-by:requested-first:%s" % _tag(st), where,
                  "the first ORDER BY term must be `address = <requested address> DESC` (bound to %s): %s" % (req_txt, st["text"][-90:]))
        ok2 = False
        if len(order) >= 2 and order[1][1] == "DESC":
            e = order[1][0]
            if e == ("col", "expiry"):
                ok2 = True
            elif e[0] == "col":
                # alias of max(expiry)
                for it, alias in st["items"]:
                    if alias == e[1] and it == ("func", "max", (("col", "expiry"),)):
                        ok2 = True
        ctx.check(ok2, "R1", "order-by:latest-expiry-second:%s" % _tag(st), where, "the second ORDER BY term must be the expiry, descending")
    ctx.floor("R1", "own-row queries", n, 2)

    # ---- R2: no post-filter after a single-row query
    n = 0
    for body, bb, site, where, ip in own_sites:
        n += 1
        T = terms(P, body)
        cfg = cfg_of(body)
        single = site.method in ("query_row", "query_row_and_then") or site.stmt.get("limit") == ("num", 1)
        # is the lease site guarded by a non-SQL membership test on the row's address?
        guarded = False
        for b2, tm in body.calls():
            nme = callee_name(tm) or ""
            if nme.endswith("::contains") and ("HashSet" in nme or "BTreeSet" in nme or "slice" in nme or "Vec" in nme):
                args = [norm(a) for a in T.call_args(b2)]
                if len(args) > 1 and args[1] == ip:
                    # switch on its result
                    sw = body.blocks[tm["t"]]["term"] if tm["t"] is not None else None
                    if sw and sw["k"] == "switch":
                        for v, tgt in cfg.switch_edges(tm["t"]):
                            if v != 0 and cfg.edge_dominates((tm["t"], tgt), bb):
                                guarded = True
        bad = single and guarded
        ctx.check(not bad, "R2", "single-row-query-then-pool-filter:%s" % _tag(site.stmt), where,
                  "the query yields one row (%s%s) and the row is then tested against the pool in Rust; when that row is "
                  "outside the pool the client's other rows are never considered, so a client holding an in-pool lease can "
                  "be moved to a new address" % (site.method, ", LIMIT 1" if site.stmt.get("limit") else ""))
    ctx.floor("R2", "own-row lease sites", n, 2)

    # ---- R3: NoAssignableAddress only after the candidate loop is exhausted
    _r3(ctx, M, producers)

    # ---- R4: which address a REQUEST / DISCOVER asks the pool for
    _r4(ctx, cg)

    # ---- R5: order of the selection steps
    _r5(ctx, M, producers, own_sites)


def _tag(st):
    w = conjuncts(st.get("where"))
    return "reuse" if any(c[0] == "cmp" and ("col", "expiry") in c[2:] for c in w) else "revive"


def _r3(ctx, M, producers):
    P = ctx.P
    n = 0
    for fid in sorted(producers):
        body = P.bodies[fid]
        cfg = cfg_of(body)
        T = terms(P, body)
        for site in M.sites:
            if site.body.id != body.id or site.stmt is None or site.stmt["kind"] != "select":
                continue
            loops = [cfg.natural_loop(e) for e in cfg.back_edges()]
            loops = [l for l in loops if site.bb in l]
            if not loops:
                continue
            loop = min(loops, key=len)
            n += 1
            ctx.saw(body)
            # blocks where the "no address" error is produced
            err_blocks = set()
            for bb, idx, s in body.stmts():
                if "rv" in s and s["rv"]["k"] == "agg" and s["rv"].get("adt", "").endswith("dhcp::pool::Error") and s["rv"]["variant"] == "NoAssignableAddress":
                    err_blocks.add(bb)
            exits = [(u, v) for u in loop for v in cfg.succ[u] if v not in loop]
            bad = []
            exhausted = 0
            for u, v in exits:
                tm = body.blocks[u]["term"]
                is_exhaustion = False
                if tm["k"] == "switch":
                    d = norm(T.at_term(tm["discr"], u))
                    if d[0] == "discr" and d[1][0] == "call" and d[1][1].endswith("::next"):
                        if (0, v) in [(val, tgt) for val, tgt in cfg.switch_edges(u)]:
                            is_exhaustion = True
                if is_exhaustion:
                    exhausted += 1
                    continue
                if cfg.reachable_from(v) & err_blocks:
                    bad.append(P.rel(body.blocks[u]["term"].get("sp", body.span)) if body.blocks[u]["term"].get("sp") else "bb%d" % u)
            ctx.check(not bad and exhausted >= 1, "R3", "no-address-only-after-all-candidates:%s" % fid.split("::")[-1], ctx.where(body),
                      "the candidate loop may end with NoAssignableAddress only when the iterator is exhausted "
                      "(%d exhaustion exit(s); other exits reaching the error: %s)" % (exhausted, bad or "none"))
    ctx.floor("R3", "candidate loops", n, 1)
    # the candidates examined are the whole pool: nothing between the pool set and the loop may drop elements
    DROPPERS = ("truncate", "take", "skip", "step_by", "filter", "filter_map", "drain", "split_off", "pop", "remove", "swap_remove", "retain",
                "dedup", "resize", "take_while", "skip_while", "nth", "chunks", "first", "last", "split_at", "clear")
    for fid in sorted(producers):
        body = P.bodies[fid]
        cfg = cfg_of(body)
        if not cfg.back_edges():
            continue
        has_query_in_loop = any(site.body.id == fid and any(site.bb in cfg.natural_loop(e) for e in cfg.back_edges()) for site in M.sites)
        if not has_query_in_loop:
            continue
        bad = []
        for x in P.family(fid):
            for bb, tm in x.calls():
                nme = callee_name(tm) or ""
                last = nme.rsplit("::", 1)[-1]
                if last in DROPPERS and ("Vec" in nme or "Iterator" in nme or "slice" in nme or "HashSet" in nme):
                    bad.append("%s at %s" % (last, P.rel(tm["sp"])))
        ctx.check(not bad, "R3", "candidate-list-is-the-whole-pool:%s" % fid.split("::")[-1], ctx.where(body),
                  "a request may be refused for lack of addresses only after every address of the pool was examined: the candidate list "
                  "must not be shortened or filtered (%s)" % (bad or "ok"))


def _r4(ctx, cg):
    P = ctx.P
    writers = [fid for fid, sig in P.sigs.items() if fid.endswith("::allocate_address") or (
        _is_lease_result(sig_output(sig)) and len(sig["inputs"]) >= 6)]
    n = 0
    for w in writers:
        for cb, bb, tm in cg.callers(w):
            n += 1
            ctx.saw(cb)
            T = terms(P, cb)
            a = norm(T.at_term(tm["args"][2], bb))
            alts = flatten_phi(a)
            where = ctx.where(cb, tm["sp"])
            has_ci = [x for x in alts if x[0] == "agg" and x[2] == "Some" and _is_field(x[3][0][1], "ciaddr")]
            has_opt = [x for x in alts if x[0] == "call" and x[1].endswith("get_address_request")]
            other = [x for x in alts if x not in has_ci and x not in has_opt]
            tag = cb.id.split("::")[-1]
            # which message does this handler answer?  REQUEST handlers read ciaddr
            if has_ci:
                # Some(ciaddr) only when ciaddr is specified
                cfg = cfg_of(cb)
                guard_ok = False
                some_blocks = []
                for b3, i3, s3 in cb.stmts():
                    rv = s3.get("rv")
                    if rv and rv["k"] == "agg" and rv.get("variant") == "Some" and rv["adt"].endswith("Option"):
                        if _is_field(norm(T.rvalue(rv, b3, i3))[3][0][1], "ciaddr"):
                            some_blocks.append(b3)

                def m(d):
                    return d[0] == "call" and d[1].endswith("Ipv4Addr::is_unspecified") and _is_field(d[2][0], "ciaddr")
                for sbb, d, te, fe in bool_switches(P, cb, m):
                    if some_blocks and all(edge_dominated(cfg, fe, b3) for b3 in some_blocks):
                        guard_ok = True
                ctx.check(bool(has_opt) and not other and guard_ok, "R4", "requested-address:ciaddr-else-option50:%s" % tag, where,
                          "a REQUEST must ask the pool for ciaddr when it is set, else for option 50 (%s)" % show(a)[:200])
            else:
                ctx.check(bool(has_opt) and not other, "R4", "requested-address:option50:%s" % tag, where,
                          "the pool must be asked for the address in option 50 (%s)" % show(a)[:200])
    ctx.floor("R4", "allocation call sites", n, 2)


def _is_field(t, name):
    t = norm(t)
    return t[0] == "field" and t[2] == name


def _r5(ctx, M, producers, own_sites):
    P = ctx.P
    # in the function that holds the own-row queries: reuse query < revive query < call(requested) < call(new)
    bodies = {b.id: b for b, _, _, _, _ in own_sites}
    n = 0
    for bid, body in bodies.items():
        cfg = cfg_of(body)
        steps = []
        for b, bb, site, where, ip in own_sites:
            if b.id == bid:
                steps.append((_tag(site.stmt), site.bb))
        for bb, tm in body.calls():
            nme = callee_name(tm)
            if nme in producers and nme != bid:
                callee = P.bodies[nme]
                has_loop = bool(cfg_of(callee).back_edges())
                steps.append(("new" if has_loop else "requested", bb))
        order = {"reuse": 0, "revive": 1, "requested": 2, "new": 3}
        steps.sort(key=lambda x: order[x[0]])
        names = [s[0] for s in steps]
        n += 1
        okk = names == ["reuse", "revive", "requested", "new"]
        # each step's block must come strictly before the next on every path that reaches the next:
        for (n1, b1), (n2, b2) in zip(steps, steps[1:]):
            if not cfg.dominates(b1, b2):
                # 'requested' is conditional (only when an address was requested): then 'new' need not be dominated by it,
                # but must not be able to reach it
                if n1 == "requested" and not cfg.paths_exist(b2, b1):
                    continue
                okk = False
        ctx.check(okk, "R5", "step-order:reuse<revive<requested<new", ctx.where(body),
                  "selection steps found in dominance order: %s" % names)
    ctx.floor("R5", "selection functions", n, 1)
