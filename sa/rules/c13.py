"""C13 — only DISCOVER / REQUEST-for-us messages are answered or change lease state (structural clauses)."""
import os
from ..util import *
from ..prov import strip, norm, show, subterms
from ..cfg import cfg_of
from ..callgraph import callgraph
from ..poolmodel import *
from .c01 import _is_lease_result

EXPLANATION = ("dispatch-table, who-may-call and dominance rules: the message-type switch sends exactly {DISCOVER, REQUEST} to "
               "handlers and every other value (and a missing type) to an error with no path to the lease writer; the writer is "
               "called only by the two handlers, the handlers only by the dispatcher; in the REQUEST handler the allocation is "
               "dominated by `no server-id or server-id in our set`; after a successful allocation every path returns Ok and "
               "inside the allocator the write is the last fallible step; reply header fields are copied from the request and "
               "the server-id option names this server; the error edge of the dispatcher reaches no send")
ASSUMPTIONS = ["trusted: SQLite; with C01.R1 (single writer keyed by the assigned address) these clauses give the full statement"]
EXPLANATION += "; also: get_serverid() returns option 54 untouched; option 54 is set after every call that can still write the response; C01's single-writer and uniqueness rules are evaluated here too"
EXTRA_CONFIGS = ["dhcp"]


def _inner_const(x):
    """the constant inside `&MessageType(3)` / `MessageType(3)` / `3`"""
    x = norm(x)
    for _ in range(6):
        if x[0] in ("ref", "deref"):
            x = norm(x[1])
        elif x[0] == "agg" and len(x[3]) == 1:
            x = norm(x[3][0][1])
        elif x[0] == "const" and isinstance(x[1], dict):
            return x
        else:
            break
    return x


def _is_msgtype(x):
    """the term is the request's message type: get_messagetype(..) seen through Some's payload, the newtype's field, casts and borrows"""
    x = norm(x)
    for _ in range(10):
        if x[0] in ("ref", "deref"):
            x = norm(x[1])
        elif x[0] == "field":
            x = norm(x[1])
        elif x[0] == "payload":
            x = norm(x[2])
        elif x[0] == "cast":
            x = norm(x[3])
        elif x[0] == "call" and len(x[2]) == 1 and str(x[1]).rsplit("::", 1)[-1] in ("clone", "unwrap", "expect", "unwrap_unchecked", "into", "from", "copied", "cloned"):
            x = norm(x[2][0])
        else:
            break
    return x[0] == "call" and str(x[1]).endswith("get_messagetype")


def message_type_sets(P, disp):
    """Which message types can be in hand at each block of the dispatcher: a forward dataflow over the classes {each constant the
    type is compared with, 'other' (any other value), 'none' (no type option)}, refined at every switch whose discriminant is a
    function of the message type alone (the Option's discriminant, the value itself, ==/!= against a constant, negations of those,
    whether written in place or kept in a boolean first). Returns (sets per block, constants) or None when the type is never tested."""
    T = terms(P, disp)
    cfg = cfg_of(disp)
    consts = set()
    sw = {}

    def bool_fn(d, depth=0):
        """class -> bool (or None for unknown) for a boolean term over the message type"""
        d = norm(d)
        if depth > 8:
            return None
        if d[0] == "un" and d[1] == "Not":
            f = bool_fn(d[2], depth + 1)
            return None if f is None else (lambda c, f=f: None if f(c) is None else not f(c))
        a = b = None
        op = None
        if d[0] == "call" and len(d[2]) == 2 and str(d[1]).rsplit("::", 1)[-1] in ("eq", "ne"):
            a, b, op = d[2][0], d[2][1], str(d[1]).rsplit("::", 1)[-1]
        elif d[0] == "bin" and d[1] in ("Eq", "Ne"):
            a, b, op = d[2], d[3], d[1].lower()
        if op is None:
            return None
        if not _is_msgtype(a):
            a, b = b, a
        k = const_value(_inner_const(b))
        if not _is_msgtype(a) or k is None:
            return None
        consts.add(k)
        return lambda c, k=k, op=op: None if c == "none" else ((c == k) if op == "eq" else (c != k))
    for bb, tm in disp.terms():
        if tm["k"] != "switch":
            continue
        d = norm(T.at_term(tm["discr"], bb))
        if d[0] == "discr" and _is_msgtype(d[1]) and norm(d[1])[0] == "call":
            sw[bb] = ("opt", None)
        elif d[0] in ("field", "cast", "payload") and _is_msgtype(d):
            for v, _ in tm["targets"]:
                consts.add(v)
            sw[bb] = ("val", None)
        else:
            f = bool_fn(d)
            if f is not None:
                sw[bb] = ("bool", f)
    if not sw:
        return None
    U = set(consts) | {"other", "none"}
    sets = {b: set() for b in range(len(disp.blocks))}
    sets[0] = set(U)
    work = [0]
    while work:
        bb = work.pop()
        cur = sets[bb]
        tm = disp.blocks[bb]["term"]
        outs = []
        if bb in sw and tm is not None:
            kind, f = sw[bb]
            listed = {v for v, _ in tm["targets"]}
            for c in cur:
                if kind == "opt":
                    vs = {0} if c == "none" else {1}
                elif kind == "val":
                    vs = None if c == "none" else ({c} if c != "other" else {"x"})
                else:
                    r = f(c)
                    vs = None if r is None else {1 if r else 0}
                for v, tgt in tm["targets"]:
                    if vs is None or v in vs:
                        outs.append((tgt, c))
                if vs is None or (vs - listed):
                    outs.append((tm["otherwise"], c))
        else:
            for t in cfg.succ[bb]:
                for c in cur:
                    outs.append((t, c))
        for t, c in outs:
            if c not in sets[t]:
                sets[t].add(c)
                if t not in work:
                    work.append(t)
    return sets, consts


def _handlers(P, cg):
    hs = [fid for fid, sig in P.sigs.items()
          if sig["inputs"] and sig["inputs"][0].endswith("dhcp::pool::Pool") and sig["inputs"][0].startswith("&mut")
          and "dhcp::dhcppkt::Dhcp" in sig_output(sig) and "DHCPRequest" in " ".join(sig["inputs"]) and fid in P.bodies]
    top = [h for h in hs if not any(cb.id in hs for cb, _, _ in cg.callers(h))]
    return hs, top


FIXED_WIDTH = {"erbium::dhcp::dhcppkt::MessageType": 1, "u8": 1, "std::net::Ipv4Addr": 4}


def fixed_width_values(ctx, rule="R8"):
    """R8 a value of fixed width is that many octets or it is nothing: the message type (and the other one- and four-octet values, which
    include the requested address and the server identifier the handlers compare) decodes only from an option value of exactly its width.
    A longer value is what concatenating a repeated option produces ("REQUEST" then "RELEASE" is [3, 7]); taking its first octet answers
    a message whose type nobody can name."""
    P = ctx.P
    n = 0
    for b in P.bodies.values():
        if b.impl_trait is None or not str(b.impl_trait).endswith("dhcppkt::DhcpParse") or b.kind == "closure" or not b.id.endswith("::parse_into"):
            continue
        w = FIXED_WIDTH.get(b.impl_self)
        if w is None:
            continue
        n += 1
        ctx.saw(b)
        T = terms(P, b)
        cfg = cfg_of(b)

        def is_len_test(d):
            if d[0] != "bin" or d[1] not in ("Eq", "Ne"):
                return False
            x, y = norm(d[2]), norm(d[3])
            if x[0] == "const":
                x, y = y, x
            if not (y[0] == "const" and y[1] == w):
                return False
            sx = show(x)
            return ("len" in sx or "etadata" in sx) and any(z[0] == "param" and z[1] == 1 for z in subterms(x))
        good = []
        for sb, d, te, fe in bool_switches(P, b, is_len_test):
            good += te if d[1] == "Eq" else fe
        writes = []
        for bb, idx, st in b.stmts():
            if st["p"] == (0,) and "rv" in st:
                t = norm(T.rvalue(st["rv"], bb, idx))
                if not (t[0] == "agg" and t[2] == "None"):
                    writes.append((bb, st["sp"]))
        for bb, tm in b.calls():
            if tm["dest"] == (0,):
                writes.append((bb, tm["sp"]))
        bad = [(bb, sp) for bb, sp in writes if not edge_dominated(cfg, good, bb)]
        ctx.check(bool(writes) and not bad, rule, "fixed-width-value:%s:exactly-%d-octet(s)" % (b.impl_self.rsplit("::", 1)[-1], w),
                  ctx.where(b, bad[0][1] if bad else None),
                  "a %s is produced from an option value whose length was not tested to be exactly %d" % (b.impl_self.rsplit("::", 1)[-1], w))
    ctx.floor(rule, "fixed-width option value decoders", n, 3)


def run(ctx):
    fixed_width_values(ctx)
    # "only ever touches the lease row of the address it assigns": what else a write can delete is the schema's business (C01)
    ctx.include("C01", rules=("R7", "R1"))
    # "requests matching no configured pool yield no reply": whether a pool-carrying policy applies at all is the policy walk's (C11)
    ctx.include("C11", rules=("anchor", "R2", "R3", "R6"))
    P = ctx.P
    cg = callgraph(P)
    M = PoolModel(P, cg)
    inserts = [s for s in M.lease_sql() if s.stmt["kind"] == "insert"]
    ctx.floor("R2", "lease writer", len(inserts), 1)
    ctx.check(len(inserts) <= 1, "R2", "single-lease-writer", "", "exactly one statement inserts into `leases` (found %d: %s): a second writer "
              "is outside everything this property's rules say about the writer" % (len(inserts), ", ".join(x.body.id for x in inserts)))
    if len(inserts) != 1:
        return
    writer = inserts[0].body.id
    hs, top = _handlers(P, cg)
    ctx.floor("R1", "dispatcher", len(top), 1)
    if len(top) != 1:
        ctx.bad("R1", "dispatcher-ambiguous", "", "expected exactly one top-level packet handler, found %s" % top)
        return
    disp = P.bodies[top[0]]
    ctx.saw(disp)
    T = terms(P, disp)
    cfg = cfg_of(disp)
    reach_writer = {f for f in P.bodies if writer in cg.reachable([f])}

    # ---- R1: the dispatch table
    tsw = None
    for bb, tm in disp.terms():
        if tm["k"] != "switch":
            continue
        d = norm(T.at_term(tm["discr"], bb))
        # (get_messagetype(..) as Some).0.0
        if any(s[0] == "call" and str(s[1]).endswith("get_messagetype") for s in subterms(d)) and d[0] == "field":
            tsw = (bb, tm)
    arm_edges, other_edges = {}, []
    if tsw is not None:
        bb, tm = tsw
        for v, tgt in tm["targets"]:
            arm_edges.setdefault(v, []).append((bb, tgt))
        other_edges = [(bb, tm["otherwise"])]
    else:
        # the same table written as a chain of `message_type == DHCPxxx` tests
        def m_eq(d):
            return d[0] == "call" and str(d[1]).endswith("::eq") and len(d[2]) == 2 and \
                any(any(y[0] == "call" and str(y[1]).endswith("get_messagetype") for y in subterms(norm(x))) for x in d[2]) and \
                any(const_value(_inner_const(x)) is not None for x in d[2])
        tests = []
        for sbb, d, te, fe in bool_switches(P, disp, m_eq):
            k = [const_value(_inner_const(x)) for x in d[2] if const_value(_inner_const(x)) is not None][0]
            arm_edges.setdefault(k, []).extend(te)
            tests.append((sbb, fe))
        tblocks = {sbb for sbb, _ in tests}
        for sbb, fe in tests:
            for e in fe:
                if not (tblocks & (cfg.reachable_from(e[1]) - {sbb})):
                    other_edges.append(e)       # no further test can be reached: the message is of none of the dispatched types
    state_calls0 = [(b2, t2) for b2, t2 in disp.calls() if callee_name(t2) in reach_writer]
    by_edges = bool(arm_edges) and bool(other_edges) and all(
        len([v for v in arm_edges if any(cfg.edge_dominates(e, b2) for e in arm_edges[v])]) == 1 for b2, _ in state_calls0)
    if not by_edges or os.environ.get("SA_C13_BY_SETS"):
        # neither table shape decides it: ask which types can be in hand where the handlers are called
        ms = message_type_sets(P, disp)
        if ms is not None:
            _r1_by_sets(ctx, P, cg, disp, T, cfg, ms, state_calls0, writer, inserts)
            return
    if not arm_edges or not other_edges:
        ctx.bad("R1", "type-switch-not-found", ctx.where(disp), "cannot find the switch on the DHCP message type; cannot decide")
        return
    vals = sorted(arm_edges)
    want = sorted(int(P.consts[c].get("bits", -1)) for c in ("erbium::dhcp::dhcppkt::DHCPDISCOVER", "erbium::dhcp::dhcppkt::DHCPREQUEST") if c in P.consts)
    ctx.check(vals == want == [1, 3], "R1", "dispatch-set=%s" % vals, ctx.where(disp, disp.span),
              "exactly the message types DISCOVER(1) and REQUEST(3) may be dispatched to handlers; the switch handles %s" % vals)
    arm_callee = {}
    state_calls = [(b2, t2) for b2, t2 in disp.calls() if callee_name(t2) in reach_writer]
    # a handler chosen as a function pointer: the choice (`handle_x as fn(..)`) is the dispatch, the call through the pointer comes
    # later.  The choice stands for the call, provided the dispatcher calls through pointers it made itself and nothing else.
    reified = [(b2, t2) for f_ in reach_writer for cb, b2, t2 in cg.callers(f_) if cb.id == disp.id and t2.get("k") == "reify"]
    indirect = [(b2, t2) for b2, t2 in disp.calls() if callee_name(t2) is None and t2["callee"].get("ptr") is not None]
    if reified and indirect:
        made = {callee_name(t2) for _, t2 in reified}
        okp = True
        for b2, t2 in indirect:
            pt = norm(T.operand(t2["callee"]["ptr"], b2, len(disp.blocks[b2]["stmts"])))
            fns = {x[1][1] for x in subterms(pt) if x[0] == "const" and isinstance(x[1], tuple) and x[1] and x[1][0] == "fn"}
            okp = okp and bool(fns) and fns <= made
        ctx.check(okp, "R1", "indirect-calls-go-through-the-dispatcher's-own-choices", ctx.where(disp),
                  "every call through a function pointer in the dispatcher must resolve to a handler it reified itself")
        if okp:
            state_calls += reified
    for b2, t2 in state_calls:
        doms = [v for v in arm_edges if any(cfg.edge_dominates(e, b2) for e in arm_edges[v])]
        ctx.check(len(doms) == 1, "R1", "state-changing-call-under-one-type-arm:%s" % callee_name(t2).split("::")[-1],
                  ctx.where(disp, t2["sp"]), "a call that can reach the lease writer must sit under exactly one message-type arm (arms: %s)" % doms)
        if len(doms) == 1:
            arm_callee[doms[0]] = callee_name(t2)
    ctx.floor("R1", "state-changing calls in the dispatcher", len(state_calls), 2)
    # None / other arms reach no state change and produce Err
    bad_edges = list(other_edges)
    # the None edge of the Option discriminant
    for b0, t0 in disp.terms():
        if t0["k"] == "switch":
            d0 = norm(T.at_term(t0["discr"], b0))
            if d0[0] == "discr" and d0[1][0] == "call" and str(d0[1][1]).endswith("get_messagetype"):
                bad_edges.extend(discr_edges(cfg, b0, 0))
    for e in bad_edges:
        r = cfg.reachable_from(e[1])
        hit = [callee_name(t2).split("::")[-1] for b2, t2 in state_calls if b2 in r]
        hit += ["(call through a function pointer)" for b2, t2 in (indirect if reified else []) if b2 in r]
        errs = [b2 for b2, i2, s2 in disp.stmts() if s2["p"] == (0,) and "rv" in s2 and s2["rv"]["k"] == "agg" and s2["rv"].get("variant") == "Err" and b2 in r]
        oks = [b2 for b2, i2, s2 in disp.stmts() if s2["p"] == (0,) and "rv" in s2 and s2["rv"]["k"] == "agg" and s2["rv"].get("variant") == "Ok" and b2 in r]
        ctx.check(not hit and errs and not oks, "R1", "other-types-yield-err-and-no-state-change:edge%d" % bad_edges.index(e), ctx.where(disp),
                  "messages of any other type (or none) must produce Err without reaching the lease writer (reaches: %s)" % (hit or "nothing"))

    _after_dispatch(ctx, P, cg, disp, arm_callee, writer, inserts)


def _r1_by_sets(ctx, P, cg, disp, T, cfg, ms, state_calls, writer, inserts):
    """R1 decided from the message types that can be in hand at each block (message_type_sets)"""
    sets, consts = ms
    arm_callee = {}
    vals = set()
    for b2, t2 in state_calls:
        here = sets.get(b2, set())
        one = len(here) == 1 and not (here & {"other", "none"})
        ctx.check(one, "R1", "state-changing-call-under-one-type-arm:%s" % callee_name(t2).split("::")[-1], ctx.where(disp, t2["sp"]),
                  "a call that can reach the lease writer must be reached with exactly one message type in hand (types possible here: %s)" % sorted(map(str, here)))
        vals |= {c for c in here if c not in ("other", "none")}
        if one:
            arm_callee[list(here)[0]] = callee_name(t2)
    vals = sorted(vals)
    want = sorted(int(P.consts[c].get("bits", -1)) for c in ("erbium::dhcp::dhcppkt::DHCPDISCOVER", "erbium::dhcp::dhcppkt::DHCPREQUEST") if c in P.consts)
    ctx.check(vals == want == [1, 3], "R1", "dispatch-set=%s" % vals, ctx.where(disp, disp.span),
              "exactly the message types DISCOVER(1) and REQUEST(3) may be dispatched to handlers; the dispatcher hands on %s" % vals)
    ctx.floor("R1", "state-changing calls in the dispatcher", len(state_calls), 2)
    indirect = [(b2, t2) for b2, t2 in disp.calls() if callee_name(t2) is None and t2["callee"].get("ptr") is not None]
    ctx.check(not indirect, "R1", "dispatcher-calls-no-function-pointer", ctx.where(disp), "with this shape of dispatch every handler call must be direct")
    # any other type, or none: Err and nothing else
    stray = {b2 for b2, st in sets.items() if st & {"other", "none"}}
    oks = [b2 for b2, i2, s2 in disp.stmts() if s2["p"] == (0,) and "rv" in s2 and s2["rv"]["k"] == "agg" and s2["rv"].get("variant") == "Ok" and b2 in stray]
    errs = {}
    for b2, i2, s2 in disp.stmts():
        if s2["p"] == (0,) and "rv" in s2 and s2["rv"]["k"] == "agg" and s2["rv"].get("variant") == "Err":
            for c in sets.get(b2, set()) & {"other", "none"}:
                errs[c] = b2
    dest0 = [callee_name(t2) or "?" for b2, t2 in disp.calls() if tuple(t2["dest"]) == (0,) and b2 in stray]
    ctx.check(not oks and not dest0 and set(errs) == {"other", "none"}, "R1", "other-types-yield-err-and-no-state-change:sets", ctx.where(disp),
              "messages of any other type (or none) must produce Err and nothing else (Ok built there: %s; result taken from: %s; Err for: %s)"
              % (bool(oks), dest0 or "nothing", sorted(errs)))
    _after_dispatch(ctx, P, cg, disp, arm_callee, writer, inserts)


def _after_dispatch(ctx, P, cg, disp, arm_callee, writer, inserts):
    # ---- R2: who may call the writer / the handlers
    callers = sorted({cb.id for cb, _, _ in cg.callers(writer)})
    expected = sorted(set(arm_callee.values()))
    ctx.check(callers == expected and len(expected) == 2, "R2", "writer-called-only-by-handlers", "",
              "the lease writer may be called only by the two message handlers; callers: %s, dispatched handlers: %s" % (callers, expected))
    for h in expected:
        cs = sorted({cb.id for cb, _, _ in cg.callers(h)})
        ctx.check(cs == [disp.id], "R2", "handler-called-only-by-dispatcher:%s" % h.split("::")[-1], "", "callers: %s" % cs)

    # ---- R3: REQUEST handler: server-id test dominates the allocation
    req_h = arm_callee.get(3)
    dis_h = arm_callee.get(1)
    if req_h:
        _r3(ctx, P.bodies[req_h], writer)
    # ---- R4/R5/R6 in both handlers
    for h in (dis_h, req_h):
        if h:
            _handler_rules(ctx, P.bodies[h], writer, is_request=(h == req_h))
    # ---- R5b: inside the allocator the write is the last fallible step
    wb = inserts[0].body
    cw = cfg_of(wb)
    Tw = terms(P, wb)
    after = set()
    for b2, t2 in wb.terms():
        if t2["k"] == "switch":
            d = norm(Tw.at_term(t2["discr"], b2))
            if d[0] == "discr" and any(s[0] == "call" and "rusqlite::Connection" in str(s[1]) and s[3] == inserts[0].bb for s in subterms(d)):
                for _, tgt in discr_edges(cw, b2, 0):
                    after |= cw.reachable_from(tgt)
    fallible = []
    for b2 in after:
        t2 = wb.blocks[b2]["term"]
        if t2 and t2["k"] == "call":
            n = callee_name(t2) or ""
            if "from_residual" in n or n.endswith("::branch"):
                fallible.append(P.rel(t2["sp"]))
        for s2 in wb.blocks[b2]["stmts"]:
            if s2["p"] == (0,) and "rv" in s2 and s2["rv"]["k"] == "agg" and s2["rv"].get("variant") == "Err":
                fallible.append(P.rel(s2["sp"]))
    ctx.check(bool(after) and not fallible, "R5", "write-is-last-fallible-step", ctx.where(wb),
              "after the lease row is written the allocator must not be able to fail (fallible steps after the write: %s)" % (fallible or "none"))

    # ---- R7: the dispatcher's Err edge reaches no send
    n = 0
    for cb, b2, t2 in cg.callers(disp.id):
        n += 1
        ctx.saw(cb)
        Tc = terms(P, cb)
        cc = cfg_of(cb)
        err_targets = []
        for b3, t3 in cb.terms():
            if t3["k"] == "switch":
                d = norm(Tc.at_term(t3["discr"], b3))
                if d[0] == "discr" and d[1][0] == "call" and d[1][1] == disp.id:
                    err_targets.extend(tgt for _, tgt in discr_edges(cc, b3, 1))
        sends = []
        for tgt in err_targets:
            r = cc.reachable_from(tgt)
            for b4, t4 in cb.calls():
                n4 = callee_name(t4) or ""
                if b4 in r and (n4.endswith("::send_raw") or n4.endswith("::send_msg") or n4.endswith("::send_to") or n4.endswith("::insert")):
                    sends.append(n4.split("::")[-1] + "@" + P.rel(t4["sp"]))
        ctx.check(bool(err_targets) and not sends, "R7", "error-edge-reaches-no-send", ctx.where(cb, t2["sp"]),
                  "when the handler returns Err nothing may be sent and no server id remembered (reaches: %s)" % (sends or "nothing"))
    ctx.floor("R7", "callers of the dispatcher", n, 1)


def _r3(ctx, body, writer):
    P = ctx.P
    ctx.saw(body)
    T = terms(P, body)
    cfg = cfg_of(body)
    allocs = [(bb, tm) for bb, tm in body.calls() if callee_name(tm) == writer]
    # pass edges: None edge of the discriminant of get_serverid(), true edge of serverids.contains(si)
    pass_edges = []
    for bb, tm in body.terms():
        if tm["k"] != "switch":
            continue
        d = norm(T.at_term(tm["discr"], bb))
        if d[0] == "discr" and d[1][0] == "call" and str(d[1][1]).endswith("get_serverid"):
            pass_edges.extend(discr_edges(cfg, bb, 0))

    def m(d):
        if d[0] == "call" and str(d[1]).endswith("::contains") and len(d[2]) == 2:
            x = norm(d[2][1])
            set_is_param = resolve_path(P, body, d[2][0]) is not None and "HashSet<std::net::Ipv4Addr" in param_ty(*resolve_path(P, body, d[2][0])[:2])
            return set_is_param and x[0] == "payload" and x[2][0] == "call" and str(x[2][1]).endswith("get_serverid")
        return False
    for bb, d, te, fe in bool_switches(P, body, m):
        pass_edges.extend(te)
    for bb, tm in allocs:
        r = cfg.reachable_avoiding_edges(0, set(pass_edges))
        ctx.check(bool(pass_edges) and bb not in r, "R3", "allocation-dominated-by-server-id-test", ctx.where(body, tm["sp"]),
                  "a REQUEST naming another server must be rejected before the pool is touched: every path to the allocation "
                  "must take `no server-id option` or `server-id is one of ours` (%d such edge(s) found)" % len(pass_edges))
    ctx.floor("R3", "allocation calls in the REQUEST handler", len(allocs), 1)
    # the value tested is the option as the client sent it: the accessor hands out option 54 untouched (an accessor that treats some
    # values as "absent" makes a REQUEST naming that server look like one naming none)
    acc = [b for b in P.bodies.values() if b.id.endswith("DhcpOptions::get_serverid")]
    for ab in acc:
        ctx.saw(ab)
        Ta = terms(P, ab)
        rets = [norm(Ta.rvalue(st["rv"], bb, idx)) for bb, idx, st in ab.stmts() if st["p"] == (0,) and "rv" in st]
        rets += [norm(("call", callee_name(tm), tuple(Ta.call_args(bb)), bb)) for bb, tm in ab.calls() if tuple(tm["dest"]) == (0,)]
        good = bool(rets) and all(r[0] == "call" and str(r[1]).endswith("::get_option") and len(r[2]) == 2 and is_const(norm(r[2][1]), 54) for r in rets)
        ctx.check(good, "R3", "server-id-accessor-returns-option-54-untouched", ctx.where(ab),
                  "get_serverid() must be get_option(54) itself (is %s)" % [show(r)[:100] for r in rets])
    ctx.floor("R3", "server-id accessor", len(acc), 1)


def _handler_rules(ctx, body, writer, is_request):
    P = ctx.P
    ctx.saw(body)
    T = terms(P, body)
    cfg = cfg_of(body)
    tag = body.id.split("::")[-1]
    allocs = [(bb, tm) for bb, tm in body.calls() if callee_name(tm) == writer]
    for bb, tm in allocs:
        # R4: the address set handed to the pool is the Some payload of the policy result
        a = norm(T.at_term(tm["args"][3], bb))
        good = a[0] == "payload" and a[1] == "Some" and a[2][0] == "field" and a[2][2] == "address"
        ctx.check(good, "R4", "allocation-uses-policy-address-set:%s" % tag, ctx.where(body, tm["sp"]),
                  "the pool must be asked only with the address set a matching policy supplied (is %s)" % show(a)[:120])
        # R5: after Ok every path returns Ok
        ok_targets = []
        for b2, t2 in body.terms():
            if t2["k"] == "switch":
                d = norm(T.at_term(t2["discr"], b2))
                if d[0] == "discr":
                    # the result itself, or the result on its way through `.map_err(..)?` (Ok and Continue are both variant 0)
                    x = norm(d[1])
                    for _ in range(4):
                        if x[0] == "call" and x[1] != writer and len(x[2]) >= 1 and (str(x[1]).endswith("::map_err") or (str(x[1]).endswith("::branch") and "Try" in str(x[1]))):
                            x = norm(x[2][0])
                        else:
                            break
                    if x[0] == "call" and x[1] == writer and x[3] == bb:
                        ok_targets.extend(tgt for _, tgt in discr_edges(cfg, b2, 0))
        bad = []
        for tgt in ok_targets:
            r = cfg.reachable_from(tgt)
            for b3, i3, s3 in body.stmts():
                if b3 in r and s3["p"] == (0,) and "rv" in s3 and s3["rv"]["k"] == "agg" and s3["rv"].get("variant") == "Err":
                    bad.append(P.rel(s3["sp"]))
            for b3, t3 in body.calls():
                if b3 in r and "from_residual" in (callee_name(t3) or ""):
                    bad.append(P.rel(t3["sp"]))
        ctx.check(bool(ok_targets) and not bad, "R5", "no-failure-after-lease-written:%s" % tag, ctx.where(body, tm["sp"]),
                  "once the pool has recorded the lease the handler must return the reply (error exits after the write: %s)" % (bad or "none"))
    # R6: reply header provenance
    n = 0
    for b, bb, idx, s in find_aggs(P, "dhcp::dhcppkt::Dhcp", [body]):
        n += 1
        t = T.rvalue(s["rv"], bb, idx)
        fields = dict(t[3])
        where = ctx.where(body, s["sp"])
        for f in ("xid", "flags", "giaddr", "chaddr"):
            rp = resolve_path(P, body, fields[f])
            good = rp is not None and "DHCPRequest" in param_ty(rp[0], rp[1]) and rp[2] == ("pkt", f)
            ctx.check(good, "R6", "reply.%s<-request.%s:%s" % (f, f, tag), where, "reply `%s` must echo the request's (is %s)" % (f, show(norm(fields[f]))[:100]))
        # the address the client is told is the address the pool recorded for it
        y = norm(fields.get("yiaddr", ("unknown",)))
        good = y[0] == "field" and y[2] == "ip" and any(z[0] == "call" and z[1] == writer for z in subterms(y))
        ctx.check(good, "R6", "reply.yiaddr<-recorded-lease:%s" % tag, where,
                  "yiaddr must be the address of the lease the allocator returned (and recorded), nothing else (is %s)" % show(y)[:100])
        # server id: outermost set_option(54, X)
        cur = norm(fields["options"])
        sid = None
        sid_bb = None
        for _ in range(40):
            if cur[0] == "call" and str(cur[1]).endswith("to_options"):
                cur = norm(cur[2][0])
            elif cur[0] == "call" and str(cur[1]).endswith("::set_option"):
                k = norm(cur[2][1])
                if k[0] == "const" and k[1] == 54 and sid is None:
                    sid = norm(cur[2][2])
                    sid_bb = cur[3] if len(cur) > 3 else None
                cur = norm(cur[2][0])
            else:
                break
        # ... and it is the last word: a policy (apply-server-id) can write option 54 too, so every policy application of the
        # handler has to come before this set_option
        appl = []
        for b2, t2 in body.calls():
            tys = [body.local_ty(op_place(a)[0]) for a in t2["args"] if op_place(a) and len(op_place(a)) == 1]
            if (callee_name(t2) or "").rsplit("::", 1)[-1] == "apply_policies" or any(
                    ty.startswith("&mut ") and ty_ends(ty, "dhcp::Response") for ty in tys):
                appl.append(b2)
        if sid is not None and (sid_bb is None or not all(cfg.dominates(a, sid_bb) and a != sid_bb for a in appl)):
            ctx.bad("R6", "reply-server-id-set-after-policies:%s" % tag, where,
                    "option 54 is set before a call that can still write the response (%d policy application(s) in the handler): a policy carrying "
                    "apply-server-id then replaces this server's identifier" % len(appl))
            sid = None
        else:
            ctx.ok("R6", "reply-server-id-set-after-policies:%s" % tag, where)
        good = False
        if sid is not None:
            if sid[0] == "field" and sid[2] == "serverip":
                good = True
            elif sid[0] == "call" and str(sid[1]).endswith("::unwrap_or") and is_request:
                a0, a1 = norm(sid[2][0]), norm(sid[2][1])
                good = a0[0] == "call" and str(a0[1]).endswith("get_serverid") and a1[0] == "field" and a1[2] == "serverip"
        ctx.check(good, "R6", "reply-server-id-names-this-server:%s" % tag, where,
                  "option 54 must be set, after policy application, to the receiving address%s (is %s)" % (
                      " or the validated server-id the client named" if is_request else "", show(sid)[:120] if sid else None))
        op = norm(fields["op"])
        ctx.check(op[0] == "const" and len(op) > 2 and op[2].endswith("OP_BOOTREPLY"), "R6", "reply.op=BOOTREPLY:%s" % tag, where, show(op))
    ctx.floor("R6", "reply constructions in %s" % tag, n, 1)
