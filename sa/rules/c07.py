"""C07 — one reply per query, its own (addressing and shape clauses only)."""
import re
from ..util import *
from ..prov import strip, norm, show, subterms
from ..cfg import cfg_of
from ..callgraph import callgraph

EXPLANATION = ("provenance, byte-order and path-shape rules: the UDP reply's destination is the received datagram's source and its "
               "source-address control message the datagram's local address (same received message); the TCP reply is written "
               "to the accepted stream moved into the task; in the per-datagram task every path after a successful parse passes "
               "exactly one of {send, rate-limit drop} and the query handler is total (Result<_, Infallible>, both arms build a "
               "packet); the value stored in libc::in_addr.s_addr comes from a network-order producer; every dns::Error variant "
               "that can be constructed under the handler chain maps to an rcode (no panicking arm), upstream failures to SERVFAIL")
ASSUMPTIONS = ["NOT decided (most of C07): behaviour under concurrency, delay, reordering, duplication and loss of upstream replies; "
               "bounded-time SERVFAIL; id multiplexing under collisions — no static argument in reach bounds those"]
EXPLANATION += "; also: one task per datagram/connection; readiness cleared only on would-block; the shared timeout is stored clamped; no lock re-acquired while held; S4 (a panic of the TCP upstream task stalls its connection's queries); C03's id rules are evaluated here too"
EXTRA_CONFIGS = ["dns"]


def run(ctx):
    P = ctx.P
    cg = callgraph(P)
    _r1_r3(ctx, cg)
    _r2(ctx)
    _r4(ctx)
    _r5(ctx, cg)
    _r6(ctx, cg)
    _r7(ctx)
    _r8(ctx)
    _r9(ctx)
    _r10(ctx)
    _r11(ctx)
    _r12(ctx)
    _r13(ctx)
    _r14(ctx)
    _r15(ctx)
    _r16(ctx)
    _r17(ctx)
    # a panic in the task that serves a TCP upstream stalls every query on that connection: the oneshot replies it unwraps are
    # safe only while their receivers are awaited without a deadline (the rule is C05's side rule S4, evaluated here as well)
    from . import c05
    c05.side_rules_4(ctx, cg)
    c05.side_rules_5(ctx)          # ... and so does a metric whose registration failed
    # shared clause: an upstream reply reaches the query it answers (waiters keyed by query id)
    ctx.include("C03", rules=("R8", "R3"))


WAITS_ON_OTHERS = ("sync::watch", "sync::Notify", "sync::notify", "sync::broadcast", "sync::Semaphore", "sync::semaphore", "sync::Barrier", "sync::barrier",
                   "sync::oneshot", "sync::mpsc")


def _waits_on_another_task(name):
    return any(w in name for w in WAITS_ON_OTHERS)


def _r16(ctx):
    """between the listener and the out-query layer no query waits for another query: the ACL, router and cache handlers await their
    own locks and the next handler, nothing that some other task has to signal (watch / Notify / broadcast / Semaphore / channels).
    Coalescing identical questions behind one upstream attempt makes every later asker's answer depend on the first asker reaching the
    line that wakes them — on every path, the ones where nothing was cached included."""
    P = ctx.P
    assert _waits_on_another_task("tokio::sync::watch::Receiver::<T>::changed") and not _waits_on_another_task("tokio::sync::RwLock::<T>::read"), "self-test"
    n = 0
    bad = []
    for b in P.bodies.values():
        if "::test" in b.id or not (b.id.startswith("erbium::dns::cache::") or b.id.startswith("erbium::dns::router::") or b.id.startswith("erbium::dns::acl::")):
            continue
        n += 1
        for bb, tm in b.calls():
            nme = callee_name(tm) or ""
            if _waits_on_another_task(nme):
                ctx.saw(b)
                bad.append("%s at %s" % (nme.rsplit("::", 2)[-2] + "::" + nme.rsplit("::", 1)[-1], P.rel(tm["sp"])))
    ctx.check(not bad, "R16", "no-query-waits-for-another-query", "crates/erbium-core/src/dns/cache/mod.rs",
              "a handler between listener and out-query layer uses a cross-task signal: %s" % (bad[:4] or "-"))
    if ctx.config in ("default", "dns"):
        ctx.floor("R16", "bodies of the ACL, router and cache handlers", n, 10)


def _r17(ctx):
    """what the forwarder asks the upstream for it can receive: the buffer a UDP reply is read into is at least as large as the EDNS
    payload size the out-query advertises. A smaller buffer cuts complete replies (recv truncates silently, TC is not set, nothing
    retries over TCP) and the client gets a server failure for an answer the upstream gave. And: a sent query refreshes the *send*
    stamp of the upstream connection, a received reply the *receive* stamp — the two watchdogs (nothing sent for 120 s: close;
    nothing received: tear down) each watch their own."""
    P = ctx.P
    adv = set()
    for b in P.bodies.values():
        if b.id.startswith("erbium::dns::outquery::") and "::test" not in b.id:
            T = None
            for _, bb, idx, st in find_aggs(P, "dns::dnspkt::DNSPkt", [b]):
                T = T or terms(P, b)
                f = dict(norm(T.rvalue(st["rv"], bb, idx))[3])
                v = const_value(f.get("bufsize", ("unknown",)))
                if v is not None:
                    adv.add(v)
    n = 0
    for b in P.bodies.values():
        if not (b.id.startswith("erbium::dns::outquery::OutQuery::send_single_udp") and b.kind == "coroutine" and b.id.count("{closure") == 1):
            continue
        T = terms(P, b)
        for bb, tm in b.calls():
            nme = callee_name(tm) or ""
            if "UdpSocket" in nme and nme.rsplit("::", 1)[-1] in ("recv", "recv_from") and len(tm["args"]) >= 2:
                n += 1
                ctx.saw(b)
                a = norm(T.call_args(bb)[1])
                sizes = [y[2] for y in subterms(a) if y[0] == "repeat" and len(y) > 2 and isinstance(y[2], int)]
                size = max(sizes) if sizes else None
                ctx.check(bool(adv) and size is not None and size >= max(adv), "R17", "upstream-reply-buffer>=advertised-size", ctx.where(b, tm["sp"]),
                          "the out-query advertises %s octets, the reply is read into a buffer of %s" % (sorted(adv), size))
    if ctx.config in ("default", "dns"):
        ctx.floor("R17", "receives of an upstream UDP reply", n, 1)
    m = 0
    for b in P.bodies.values():
        root = b.id.split("::{")[0]
        if not root.startswith("erbium::dns::outquery::TcpNameserver::") or "::test" in b.id:
            continue
        leaf = root.rsplit("::", 1)[-1]
        writes = sorted({st["p"][-1] for _, _, st in b.stmts() if st.get("rv") and len(st["p"]) >= 2 and st["p"][-1] in (".tcp_last_send_activity", ".tcp_last_recv_activity")})
        if not writes:
            continue
        m += 1
        ctx.saw(b)
        if leaf == "send_tcp_query":
            ctx.check(writes == [".tcp_last_send_activity"], "R17", "a-sent-query-refreshes-the-send-stamp", ctx.where(b), "send_tcp_query writes %s" % writes)
        elif "recv" in leaf or "reply" in leaf:
            ctx.check(writes == [".tcp_last_recv_activity"], "R17", "a-received-reply-refreshes-the-receive-stamp:%s" % leaf, ctx.where(b), "%s writes %s" % (leaf, writes))
    if ctx.config in ("default", "dns"):
        ctx.floor("R17", "functions that refresh a watchdog stamp", m, 2)


def _r15(ctx):
    """a connection to an upstream is given up in one place, which also tells everybody waiting on it: `tcp = None` is written only
    by `tcp_teardown` (which drains the waiters with an error). Dropping the stream anywhere else leaves their responders registered
    with no connection and — the watchdogs only run while there is one — nothing that will ever answer them."""
    P = ctx.P
    n = 0
    for b in P.bodies.values():
        if not b.id.startswith("erbium::dns::outquery::TcpNameserver::") or "::test" in b.id:
            continue
        root = b.id.split("::{")[0].rsplit("::", 1)[-1]
        T = None
        for bb, idx, st in b.stmts():
            pl = st["p"]
            rv = st.get("rv")
            if not rv or len(pl) < 2 or pl[-1] != ".tcp":
                continue
            T = T or terms(P, b)
            v = norm(T.rvalue(rv, bb, idx))
            if v[0] == "agg" and v[2] == "None":
                n += 1
                ctx.saw(b)
                ctx.check(root == "tcp_teardown", "R15", "upstream-connection-dropped-only-by-teardown:%s" % root, ctx.where(b, st["sp"]),
                          "the TCP stream is dropped outside tcp_teardown: the queries in flight on it are not told")
    if ctx.config in ("default", "dns"):
        ctx.floor("R15", "places that drop the upstream connection", n, 1)


def _r14(ctx):
    """a TCP connection that was accepted is served: in the accept loop's step (`run_tcp_listener`) every successful return comes after
    the connection was handed to its task (tokio::spawn dominates each `Ok`). An admission test between accept and spawn — a
    connection counter, say — turns a miscounted slot into clients that are accepted and closed without a word, TCP retries of
    truncated UDP replies among them."""
    P = ctx.P
    n = 0
    for b in P.bodies.values():
        if not (b.id.startswith("erbium::dns::DnsListenerHandler::run_tcp_listener::{closure#0}") and b.kind == "coroutine" and b.id.count("{closure") == 1):
            continue
        cfg = cfg_of(b)
        spawns = [bb for bb, tm in b.calls() if (callee_name(tm) or "") in ("tokio::spawn", "tokio::task::spawn") or (callee_name(tm) or "").endswith("::spawn")]
        for bb, idx, st in b.stmts():
            rv = st.get("rv")
            if rv and rv["k"] == "agg" and rv.get("variant") == "Ok" and tuple(st["p"]) == (0,):
                n += 1
                ctx.saw(b)
                ctx.check(any(cfg.dominates(sb, bb) for sb in spawns), "R14", "accepted-connection-is-handed-to-its-task", ctx.where(b, st["sp"]),
                          "run_tcp_listener returns Ok without having spawned the connection's task: the accepted connection is dropped unserved")
    if ctx.config in ("default", "dns"):
        ctx.floor("R14", "successful returns of the accept step", n, 1)


def _r13(ctx):
    """every transmission of an upstream query is the query its reply will be matched with: what the retry loop of `send_udp` hands to
    `send_single_udp` is a copy of the query it was given, untouched. The reply's id is compared with the id of that query (C03.R3's
    clause, in handle_query_internal); a retransmission that is given an id of its own is answered correctly by the upstream and
    thrown away as a forgery."""
    P = ctx.P
    n = 0
    for b in P.bodies.values():
        if not (b.id.startswith("erbium::dns::outquery::OutQuery::send_udp") and b.kind == "coroutine"):
            continue
        T = terms(P, b)
        for bb, tm in b.calls():
            if not (callee_name(tm) or "").endswith("OutQuery::send_single_udp") or len(tm["args"]) < 3:
                continue
            n += 1
            ctx.saw(b)
            a = norm(T.call_args(bb)[2])
            src = a
            if src[0] == "call" and len(src[2]) == 1 and str(src[1]).rsplit("::", 1)[-1] == "clone":
                src = norm(src[2][0])
            while src[0] in ("ref", "deref"):
                src = norm(src[1])
            given = src[0] == "param" or (src[0] == "field" and norm(src[1])[0] in ("param", "deref"))
            pl = op_place(tm["args"][2])
            touched = touched_after_copy(P, b, pl[0]) if pl is not None and len(pl) == 1 else ["?"]
            ctx.check(given and not touched, "R13", "each-transmission-is-the-query-as-given", ctx.where(b, tm["sp"]),
                      "send_single_udp must be handed a copy of send_udp's own query, unmodified (is %s; modified at %s)" % (show(a)[:80], touched or "-"))
    if ctx.config in ("default", "dns"):
        ctx.floor("R13", "transmissions in the UDP retry loop", n, 1)


def _r12(ctx):
    """the wait for an upstream UDP reply ends when an attempt completes, whichever way: in the retry loop of `send_udp` the arm that
    receives a finished attempt (`Option<Result<(Duration, DNSPkt), Error>>` out of the select) never leads back to the loop's head.
    (That the *schedule* is bounded in time is not decided; this is the structural fact the bound rests on: failed attempts leave
    the set of outstanding ones, so a loop that keeps going after a failure is not stopped by the attempt counter either.)"""
    P = ctx.P
    n = 0
    for b in P.bodies.values():
        if not (b.id.startswith("erbium::dns::outquery::OutQuery::send_udp") and b.kind == "coroutine"):
            continue
        cfg = cfg_of(b)
        heads = {}
        for e in cfg.back_edges():
            heads.setdefault(e[1], set()).update(cfg.natural_loop(e))
        for bb, idx, st in b.stmts():
            if not (len(st["p"]) == 1 and "rv" in st and st["rv"]["k"] == "use" and op_place(st["rv"]["op"]) and len(op_place(st["rv"]["op"])) == 3):
                continue
            ty = b.local_ty(st["p"][0]).replace(" ", "")
            if not ty.startswith("std::option::Option<std::result::Result<(std::time::Duration,"):
                continue
            # the loops this arm stands in: heads that dominate it (the arm itself is outside the natural loop exactly when it never
            # leads back, which is what is being asked)
            enclosing = [h for h in heads if cfg.dominates(h, bb)]
            if not enclosing:
                continue
            n += 1
            ctx.saw(b)
            back = cfg.reachable_from(bb)
            ctx.check(not any(h in back for h in enclosing), "R12", "a-completed-attempt-ends-the-wait", ctx.where(b, st["sp"]),
                      "from the arm that receives a finished attempt the retry loop's head is reachable again: a failed transmission then "
                      "does not end the query, and since failed attempts leave the set the attempt counter never stops the loop either")
    if ctx.config in ("default", "dns"):
        ctx.floor("R12", "completed-attempt arms in the UDP retry loop", n, 1)


def _r11(ctx):
    """no task waits for a lock it may still hold: between two acquisitions of the same lock in one function, of which at least one
    is exclusive, every path releases a guard (a drop of a guard-typed local) — tokio's RwLock is not re-entrant and prefers
    writers, so `let g = l.read().await; ... l.write().await` never completes and every later user of the lock queues behind it"""
    P = ctx.P
    ACQ = {"read": False, "write": True, "lock": True, "blocking_read": False, "blocking_write": True}
    n = 0
    for b in P.bodies.values():
        if not (b.id.startswith("erbium::dns") or b.id.startswith("erbium::dhcp") or b.id.startswith("erbium::radv")):
            continue
        acq = []
        T = None
        for bb, tm in b.calls():
            nme = callee_name(tm) or ""
            last = nme.rsplit("::", 1)[-1]
            if last in ACQ and ("sync::RwLock" in nme or "sync::Mutex" in nme) and tm["args"]:
                T = T or terms(P, b)

                def lock_id(t, bb=bb, depth=0):
                    """the lock expression with index variables replaced by what they hold (`locks[i]` twice is one lock)"""
                    t = norm(t)
                    if depth > 8:
                        return t
                    if t[0] == "index" and isinstance(t[2], str):
                        m_ = re.match(r"\[_(\d+)\]$", t[2])
                        iv = norm(T.place((int(m_.group(1)),), bb, len(b.blocks[bb]["stmts"]))) if m_ else t[2]
                        return ("index", lock_id(t[1], bb, depth + 1), iv)
                    if t[0] in ("field", "ref", "deref"):
                        return (t[0], lock_id(t[1], bb, depth + 1)) + tuple(t[2:])
                    return t
                acq.append((bb, tm, last, lock_id(T.call_args(bb)[0])))
        if len(acq) < 2:
            continue
        cfg = cfg_of(b)
        rel = set()
        # a guard that was moved out of a local (`cookies = move result`) is not released by the (no-op) drop of that local
        moved = {}
        for mb, mi, mst in b.stmts():
            rv = mst.get("rv")
            if rv and rv["k"] == "use" and "m" in rv["op"] and len(rv["op"]["m"]) == 1:
                moved.setdefault(rv["op"]["m"][0], []).append(mb)
        for bb, tm in b.terms():
            if tm["k"] == "drop" and len(tm["place"]) == 1 and any(cfg.dominates(mb, bb) for mb in moved.get(tm["place"][0], ())):
                continue
            if tm["k"] == "drop" and len(tm["place"]) == 1 and re.match(r"^[\w:]*(RwLockReadGuard|RwLockWriteGuard|OwnedRwLock\w+Guard|MutexGuard|OwnedMutexGuard)<", b.locals[tm["place"][0]]["ty"]):
                rel.add(bb)
        for ba, ta, la, xa in acq:
            for bb2, tb, lb, xb in acq:
                if ba == bb2 or xa != xb or not (ACQ[la] or ACQ[lb]):
                    continue
                n += 1
                reach = cfg.reachable_from(ba, blocked=tuple(rel))
                held = bb2 in reach and ba not in rel
                tag = b.id.split("::")[-2] if b.id.endswith("}") else b.id.split("::")[-1]
                ctx.saw(b)
                ctx.check(not held, "R11", "lock-not-reacquired-while-held:%s:%s-then-%s" % (tag, la, lb), ctx.where(b, tb["sp"]),
                          "%s() at %s can be reached from %s() on the same lock without a guard being dropped in between" % (lb, P.rel(tb["sp"]), la))
    ctx.ok("R11", "pairs of acquisitions of one lock examined", "", "%d" % n)


def _r10(ctx):
    """the learnt upstream retry timeout stays within [MIN_DNS_TIMEOUT, MAX_DNS_TIMEOUT]: every value stored into the shared
    timeout is a clamp to those two constants (the bounded time to SERVFAIL is a small multiple of it)"""
    P = ctx.P
    from .c10 import _clamp_shape
    n = 0
    for b in P.bodies.values():
        if "dns::outquery" not in b.id:
            continue
        T = None
        for bb, idx, st in b.stmts():
            pl = st["p"]
            if len(pl) != 2 or pl[1] != "*" or "rv" not in st or b.locals[pl[0]]["ty"].replace(" ", "") != "&mutstd::time::Duration":
                continue
            T = T or terms(P, b)
            v = norm(T.rvalue(st["rv"], bb, idx))
            n += 1
            ctx.saw(b)
            cl = _clamp_shape(v)
            good = False
            if cl is not None:
                x, lo, up = cl
                good = "MIN_DNS_TIMEOUT" in show(norm(lo)) and "MAX_DNS_TIMEOUT" in show(norm(up))
            ctx.check(good, "R10", "shared-timeout-stored-clamped", ctx.where(b, st["sp"]),
                      "the value stored into the shared retry timeout must be clamped to [MIN_DNS_TIMEOUT, MAX_DNS_TIMEOUT] as its outermost "
                      "operation (is %s): one slow reply otherwise inflates every later query's retry schedule" % show(v)[:140])
    if ctx.config in ("default", "dns"):
        ctx.floor("R10", "stores into the shared retry timeout", n, 2)


def _r8(ctx):
    """the address a reply is sent from is handed to the kernel in the field the kernel reads on send: in_pktinfo.ipi_spec_dst for
    IPv4 (ip(7): ipi_addr is ignored on send), in6_pktinfo.ipi6_addr for IPv6"""
    P = ctx.P
    n = 0
    for b in P.bodies.values():
        if not b.id.startswith("erbium_net::"):
            continue
        T = None
        for bb, idx, st in b.stmts():
            pl = st["p"]
            if len(pl) < 2 or pl[-1] not in (".ipi_spec_dst", ".ipi_addr", ".ipi6_addr") or "rv" not in st:
                continue
            T = T or terms(P, b)
            v = norm(T.rvalue(st["rv"], bb, idx))
            conv = [y for y in subterms(v) if y[0] == "call" and "std_to_libc_in" in str(y[1])]
            if not conv:
                continue   # zero-initialisation and the like
            n += 1
            ctx.saw(b)
            v6 = "in6" in str(conv[0][1])
            want = ".ipi6_addr" if v6 else ".ipi_spec_dst"
            ctx.check(pl[-1] == want, "R8", "send-from-address-in-the-field-the-kernel-reads:%s:%s" % ("v6" if v6 else "v4", b.id.split("::")[-1] if not b.id.endswith("}") else b.id.split("::")[-2]),
                      ctx.where(b, st["sp"]),
                      "the reply's source address is stored in %s; on send the kernel takes the local address from %s and ignores the other "
                      "field, so replies leave from whatever address routing picks" % (pl[-1][1:], want[1:]))
    ctx.floor("R8", "places where the reply's source address is handed to the kernel", n, 2)


def _r9(ctx):
    """readiness of the socket is cleared only when the system call reported that it would block: clearing it after a successful
    read or write makes the task wait for a new edge while datagrams are already queued, and queued queries go unanswered"""
    P = ctx.P
    n = 0
    for b in P.bodies.values():
        if not b.id.startswith("erbium_net::"):
            continue
        clears = [(bb, tm) for bb, tm in b.calls() if (callee_name(tm) or "").endswith("::clear_ready")]
        if not clears:
            continue
        ctx.saw(b)
        cfg = cfg_of(b)

        def m(d):
            txt = show(d)
            return d[0] == "call" and str(d[1]).rsplit("::", 1)[-1] in ("eq", "ne") and ("EAGAIN" in txt or "WouldBlock" in txt or "EWOULDBLOCK" in txt)
        te_all = []
        for sb, d, te, fe in bool_switches(P, b, m):
            te_all.extend(te if str(d[1]).endswith("::eq") else fe)
        # or, with `Err(Errno::EAGAIN) =>` patterns, at least the error edge of the system call's result
        T = terms(P, b)
        err_edges = []
        for sb, tm2 in b.terms():
            if tm2["k"] == "switch":
                d = norm(T.at_term(tm2["discr"], sb))
                if d[0] == "discr" and norm(d[1])[0] == "call" and str(norm(d[1])[1]).rsplit("::", 1)[-1] in ("recvmsg", "sendmsg", "recvfrom", "sendto", "recv", "send"):
                    err_edges.extend(discr_edges(cfg, sb, 1))
        for bb, tm in clears:
            n += 1
            tag = b.id.split("::")[-2] if b.id.endswith("}") else b.id.split("::")[-1]
            ctx.check(edge_dominated(cfg, te_all, bb) or edge_dominated(cfg, err_edges, bb), "R9", "readiness-cleared-only-on-would-block:%s" % tag, ctx.where(b, tm["sp"]),
                      "clear_ready() must be reached only on the edge where the error is EAGAIN/WouldBlock")
    ctx.floor("R9", "clear_ready call sites", n, 2)


def _r7(ctx):
    """opening the upstream TCP connection refreshes the idle-watchdog stamps before the task next suspends: the watchdog
    compares the stamps with the clock whenever a connection exists, so a connection opened with stale stamps is torn down
    at once and the query that caused it fails"""
    P = ctx.P
    adt = P.adts.get("erbium::dns::outquery::TcpNameserver")
    if adt is None:
        if ctx.config in ("default", "dns"):
            ctx.bad("R7", "anchor:TcpNameserver", "", "upstream TCP connection state not found")
        return
    stamps = [f["name"] for v in adt["variants"] for f in v["fields"] if f["ty"].endswith("Instant")]
    conn = [f["name"] for v in adt["variants"] for f in v["fields"] if "TcpStream" in f["ty"] and f["ty"].startswith("std::option::Option<")]
    ctx.floor("R7", "watchdog stamp fields", len(stamps), 2)
    n = 0
    for b in P.bodies.values():
        if "dns::outquery::TcpNameserver" not in b.id:
            continue
        cfg = cfg_of(b)
        T = None
        for bb, idx, st in b.stmts():
            pl = st["p"]
            if len(pl) < 2 or not conn or pl[-1] != "." + conn[0] or "rv" not in st:
                continue
            T = T or terms(P, b)
            v = norm(T.rvalue(st["rv"], bb, idx))
            if not (v[0] == "agg" and v[2] == "Some"):
                continue
            n += 1
            ctx.saw(b)
            suspend = {x for x, tm in b.terms() if tm["k"] in ("yield", "return")}
            for fld in stamps:
                fresh = set()
                for sb, sidx, s2 in b.stmts():
                    if len(s2["p"]) >= 2 and s2["p"][-1] == "." + fld and "rv" in s2:
                        v2 = norm(T.rvalue(s2["rv"], sb, sidx))
                        if v2[0] == "call" and str(v2[1]).endswith("Instant::now"):
                            fresh.add(sb)
                r = cfg.reachable_from(bb, blocked=fresh) if bb not in fresh else set()
                ctx.check(not (r & suspend), "R7", "connection-open-refreshes:%s" % fld, ctx.where(b, st["sp"]),
                          "after `%s = Some(..)` the task can suspend without `%s = Instant::now()`: the idle watchdog then measures the "
                          "new connection against the previous connection's last activity" % (conn[0], fld))
    if ctx.config in ("default", "dns"):
        ctx.floor("R7", "places where the upstream connection is opened", n, 1)


def _r6(ctx, cg):
    """the task that receives (accept / recv_msg / read of the next TCP query) never runs the query handler itself:
    the handler is reachable from it only through an async block handed to spawn, so a slow upstream or a slow client
    cannot keep the next query from being received"""
    P = ctx.P
    RECV = ("::accept", "UdpSocket::recv_msg", "::read_exact", "::read_u16")
    handler = [i for i in P.bodies if i.endswith("DnsListenerHandler::recv_in_query")]
    if not handler:
        ctx.bad("R6", "anchor:recv_in_query", "", "query handler entry not found")
        return
    n = 0
    for b in P.bodies.values():
        if "dns::DnsListenerHandler" not in b.id:
            continue
        rc = [(bb, tm) for bb, tm in b.calls() if (callee_name(tm) or "").endswith(RECV)]
        if not rc:
            continue
        n += 1
        ctx.saw(b)
        reach = cg.reachable([b.id], stop=lambda x: x != b.id and cg.spawned.get(x, False))
        inline = [h for h in handler if h in reach]
        what = (callee_name(rc[0][1]) or "").rsplit("::", 1)[-1]
        tag = b.id.split("::")[-2] if b.id.endswith("}") else b.id.split("::")[-1]
        ctx.check(not inline, "R6", "receiver-hands-queries-to-their-own-task:%s:%s" % (tag, what), ctx.where(b, rc[0][1]["sp"]),
                  "the function that waits for the next query/connection reaches the query handler without passing through a spawned "
                  "task: one slow query (or a client that connects and sends nothing) keeps every later one from being received")
        if what == "accept":
            # nor may the accepting task read from the connection it accepted
            readers = [x for x in reach if x != b.id and x in P.bodies and any(
                (callee_name(tm) or "").endswith(("::read_exact", "::read_u16", "::read")) for _, tm in P.bodies[x].calls())]
            ctx.check(not readers, "R6", "acceptor-does-not-read-connections-itself:%s" % tag, ctx.where(b, rc[0][1]["sp"]),
                      "the accept loop reads from an accepted connection in its own task (%s): a client that connects and sends nothing "
                      "stops every later connection from being accepted" % ", ".join(r.split("::")[-2] for r in readers[:2]))
    ctx.floor("R6", "receiving functions", n, 3)


def _r1_r3(ctx, cg):
    P = ctx.P
    n = 0
    for b in P.bodies.values():
        if "dns::DnsListenerHandler" not in b.id:
            continue
        sends = [(bb, tm) for bb, tm in b.calls() if (callee_name(tm) or "").endswith("UdpSocket::send_msg")]
        if not sends:
            continue
        n += 1
        ctx.saw(b)
        T = terms(P, b)
        cfg = cfg_of(b)
        ctx.check(len(sends) == 1, "R3", "one-send-site-per-datagram-task", ctx.where(b), "%d send_msg call sites" % len(sends))
        loops = [cfg.natural_loop(e) for e in cfg.back_edges()]
        for bb, tm in sends:
            a = [norm(x) for x in T.call_args(bb)]
            where = ctx.where(b, tm["sp"])
            # destination <- rm.address ; cmsg <- set_send_from(rm.local_ip())
            def is_recv(t):
                return any(y[0] == "call" and str(y[1]).endswith("::recv_msg") for y in subterms(t))
            dst = a[4]
            dst_base = None
            for y in subterms(dst):
                if y[0] == "field" and y[2] == "address":
                    dst_base = lift(P, b, y[1])[1]
            dst_ok = dst_base is not None and is_recv(dst_base)
            # ... and it is that address itself, not something rebuilt from it (a re-made socket address has lost the IPv6 scope id:
            # the reply to a link-local client then fails in sendmsg)

            def plain(t, depth=0):
                t = norm(t)
                for _ in range(12):
                    if t[0] in ("ref", "deref"):
                        t = norm(t[1])
                    elif t[0] == "payload":
                        t = norm(t[2])
                    elif t[0] == "agg" and t[2] == "Some" and len(t[3]) == 1:
                        t = norm(t[3][0][1])
                    elif t[0] == "call" and len(t[2]) == 1 and str(t[1]).rsplit("::", 1)[-1] in ("unwrap", "expect", "as_ref", "clone", "unwrap_unchecked"):
                        t = norm(t[2][0])
                    else:
                        break
                if t[0] == "field" and t[2] == "address":
                    return True
                if t[0] == "field" and t[2] == "remote_addr" and depth == 0:
                    # through the parsed message: DnsMessage.remote_addr must be build_dns_message's parameter, passed the datagram's address
                    src = norm(t[1])
                    while src[0] in ("payload", "ref", "deref"):
                        src = norm(src[2] if src[0] == "payload" else src[1])
                    if src[0] == "call" and str(src[1]).endswith("build_dns_message") and src[1] in P.bodies:
                        cb_ = P.bodies[src[1]]
                        Tc_ = terms(P, cb_)
                        for _, b3, i3, s3 in find_aggs(P, "dns::DnsMessage", [cb_]):
                            f3 = norm(dict(norm(Tc_.rvalue(s3["rv"], b3, i3))[3]).get("remote_addr", ("unknown",)))
                            if f3[0] == "param" and f3[1] - 1 < len(src[2]):
                                return plain(src[2][f3[1] - 1], 1)
                return False
            verbatim = plain(dst)
            ctx.check(verbatim, "R1", "udp-reply-destination-is-the-address-as-received", where,
                      "the destination must be the received datagram's address itself (is %s)" % show(dst)[:100])
            cm = a[2]
            lip_base = None
            if cm[0] == "call" and str(cm[1]).endswith("ControlMessage::set_send_from"):
                v = norm(cm[2][1])
                if v[0] == "call" and str(v[1]).endswith("RecvMsg::local_ip"):
                    lip_base = lift(P, b, v[2][0])[1]
            cm_ok = lip_base is not None and is_recv(lip_base)
            ctx.check(dst_ok, "R1", "udp-reply-destination<-datagram-source", where, "destination is %s" % show(dst)[:100])
            ctx.check(cm_ok, "R1", "udp-reply-source<-datagram-local-address", where, "control message is %s" % show(cm)[:120])
            ctx.check(dst_ok and cm_ok and dst_base == lip_base, "R1", "same-received-message-for-source-destination", where, "")
            parsed = [norm(T.call_args(b2)[0]) for b2, t2 in b.calls() if (callee_name(t2) or "").endswith("build_dns_message")]
            pb = [lift(P, b, y[1])[1] for p_ in parsed for y in subterms(p_) if y[0] == "field" and y[2] == "buffer"]
            ctx.check(bool(pb) and cm_ok and pb[0] == lip_base, "R1", "query-parsed-from-the-same-message", where, "")
            ctx.check(not any(bb in l for l in loops), "R3", "send-not-in-a-loop", where, "")
            # exactly one of {send, drop}: the send and the drop counter are on opposite edges of one decision
            def m(d):
                return d[0] == "await" and d[1][0] == "call" and str(d[1][1]).endswith("should_ratelimit")
            sw = list(bool_switches(P, b, m))
            drops = [b2 for b2, t2 in b.calls() if (callee_name(t2) or "").endswith("::inc") and any(
                y[0] == "const" and isinstance(y[1], tuple) and y[1][0] == "static" and "DROPPED" in y[1][1] for y in subterms(norm(T.call_args(b2)[0])))]
            okk = False
            for sbb, d, te, fe in sw:
                okk = edge_dominated(cfg, fe, bb) and bool(drops) and all(edge_dominated(cfg, te, x) for x in drops)
            ctx.check(okk, "R3", "exactly-one-of-send-or-ratelimit-drop", where, "send on the not-limited edge, drop counter on the limited edge")
            # both follow the successful parse and the (total) handler
            okp = False
            for b2, t2 in b.terms():
                if t2["k"] == "switch":
                    d = norm(T.at_term(t2["discr"], b2))
                    if d[0] == "discr" and d[1][0] == "call" and str(d[1][1]).endswith("build_dns_message"):
                        okp = edge_dominated(cfg, discr_edges(cfg, b2, 0), bb)
            ctx.check(okp, "R3", "send-follows-successful-parse", where, "")
    ctx.floor("R1", "UDP reply tasks", n, 1)
    # the handler is total
    h = "erbium::dns::DnsListenerHandler::recv_in_query"
    if h in P.bodies:
        sig = P.sigs[h]
        ctx.check("std::convert::Infallible" in sig_output(sig), "R3", "query-handler-cannot-fail", ctx.where(P.bodies[h]), sig_output(sig))
        b = body_or_coroutine(P, h)
        ctx.saw(b)
        T = terms(P, b)
        oks = []
        for bb, idx, s in b.stmts():
            if s["p"] == (0,) and "rv" in s:
                oks.append(norm(T.rvalue(s["rv"], bb, idx)))
        good = bool(oks) and all(o[0] == "agg" and o[2] == "Ok" for o in oks)
        alts = []
        for o in oks:
            if o[0] == "agg":
                v = o[3][0][1]
                alts.extend(v[1] if v[0] == "phi" else [v])
        names = sorted({str(a[1][1]).split("::")[-1] if a[0] == "await" and a[1][0] == "call" else a[0] for a in alts})
        ctx.check(good and names == ["create_in_error", "create_in_reply"], "R3", "both-outcomes-build-a-packet", ctx.where(b), "reply built by %s" % names)
    else:
        ctx.bad("R3", "anchor:recv_in_query", "", "query handler not found")


def _r2(ctx):
    P = ctx.P
    n = 0
    for b in P.bodies.values():
        if "dns::DnsListenerHandler" not in b.id:
            continue
        T = terms(P, b)
        ws = [(bb, tm) for bb, tm in b.calls() if "AsyncWriteExt" in (callee_name(tm) or "") and (callee_name(tm) or "").rsplit("::", 1)[-1] in ("write", "write_all")]
        for bb, tm in ws:
            n += 1
            ctx.saw(b)
            recv = borrowed_place(T, tm["args"][0], bb, len(b.blocks[bb]["stmts"]))
            rp = None
            if recv is not None:
                rp = resolve_path(P, b, T.place(recv, bb, 0))
            good = rp is not None and "TcpStream" in param_ty(rp[0], rp[1])
            ctx.check(good, "R2", "tcp-reply-written-to-the-accepted-stream", ctx.where(b, tm["sp"]),
                      "the reply must be written to the stream handed to the connection task (%s)" % (path_name(P, rp) if rp else "unresolved"))
            # local address of the same stream is what the message records
            for b2, t2 in b.calls():
                if (callee_name(t2) or "").endswith("build_dns_message"):
                    la = norm(T.call_args(b2)[1])
                    okk = any(y[0] == "call" and str(y[1]).endswith("TcpStream::local_addr") for y in subterms(la))
                    ctx.check(okk, "R2", "tcp-local-address<-same-stream", ctx.where(b, t2["sp"]), "")
    ctx.floor("R2", "TCP reply writes", n, 1)


def _classify_order(t):
    t = norm(t)
    names = [str(y[1]) for y in subterms(t) if y[0] == "call"]
    if t[0] == "call" and str(t[1]).endswith("::to_be"):
        return "network", "to_be(..)"
    if any(n.endswith("::from_ne_bytes") for n in names) and not any(n.endswith("::swap_bytes") or n.endswith("::to_le") for n in names):
        return "network", "from_ne_bytes(octets)"
    if t[0] == "const" and t[1] == 0:
        return "network", "0"
    if any(n.endswith("::fold") for n in names) or any(y[0] == "bin" and y[1].startswith("Shl") for y in subterms(t)):
        return "host-value", "shift/or fold over the octets (a big-endian *value*)"
    if any(n.endswith("::from_be_bytes") or "From<std::net::Ipv4Addr> for u32" in n or n.endswith("Ipv4Addr::to_bits") for n in names):
        return "host-value", "big-endian value without to_be()"
    return "unknown", show(t)[:80]


def _r4(ctx):
    P = ctx.P
    n = 0
    for b, bb, idx, s in find_aggs(P, "in_addr"):
        if "s_addr" not in s["rv"]["fields"]:
            continue
        n += 1
        ctx.saw(b)
        T = terms(P, b)
        t = norm(T.rvalue(s["rv"], bb, idx))
        v = dict(t[3])["s_addr"]
        kind, why = _classify_order(v)
        # closures used by a fold
        if kind == "unknown":
            for y in subterms(v):
                if y[0] == "agg" and y[1].startswith("closure:"):
                    kind, why = "host-value", "fold closure"
        tag = b.id.replace("erbium_net::", "")
        ctx.check(kind == "network", "R4", "in_addr.s_addr:%s:%s" % (tag, "network-order" if kind == "network" else kind), ctx.where(b, s["sp"]),
                  "in_addr.s_addr holds the address in network byte order in memory; this producer is a %s, which on a little-endian "
                  "host stores the octets reversed (the reader side uses to_ne_bytes): the source address given to sendmsg is wrong "
                  "and IPv4 replies cannot be sent from the address they were addressed to" % why)
    ctx.floor("R4", "producers of libc::in_addr", n, 2)


def _r5(ctx, cg):
    P = ctx.P
    entry = "erbium::dns::acl::DnsAclHandler::handle_query"
    if entry not in P.bodies:
        ctx.bad("R5", "anchor", "", "")
        return
    reach = cg.reachable([entry])
    adt = P.adt("erbium::dns::Error")
    oadt = P.adt("erbium::dns::outquery::Error")
    built = set()
    for b, bb, idx, s in find_aggs(P, "dns::Error"):
        root = b.id
        if root in reach or (b.parent and b.parent in reach):
            built.add(s["rv"]["variant"])
    # fn items used as constructors: map_err(Error::OutReply)
    for fid in reach:
        b = P.bodies.get(fid)
        if b is None:
            continue
        for _, k, _ in body_consts(b):
            f = k.get("fn", "")
            if f.startswith("erbium::dns::Error::"):
                built.add(f.split("::")[-1])
    ctx.floor("R5", "error variants constructed under the handler chain", len(built), 5)
    for fid in fn_with_sig(P, ["DnsMessage", "dns::Error"], "DNSPkt"):
        eb = body_or_coroutine(P, fid)
        ctx.saw(eb)
        T = terms(P, eb)
        cfg = cfg_of(eb)
        panics = {bb for bb, tm in eb.calls() if (callee_name(tm) or "").startswith("core::panicking") or (callee_name(tm) or "").startswith("std::rt::begin_panic")}
        sw = None
        for bb, tm in eb.terms():
            if tm["k"] == "switch":
                d = norm(T.at_term(tm["discr"], bb))
                if d[0] == "discr":
                    rp = resolve_path(P, eb, d[1])
                    if rp is not None and param_ty(rp[0], rp[1]).endswith("dns::Error") and rp[2] == ():
                        sw = bb
        if sw is None:
            ctx.bad("R5", "error-switch-not-found", ctx.where(eb), "")
            continue
        for i, v in enumerate(adt["variants"]):
            if v["name"] not in built:
                continue
            es = discr_edges(cfg, sw, i)
            r = set()
            for e in es:
                r |= cfg.reachable_from(e[1])
            ctx.check(bool(es) and not (r & panics), "R5", "error-variant-has-an-rcode:%s" % v["name"], ctx.where(eb),
                      "dns::Error::%s can be produced under the query handler chain; its arm in the error-reply builder must assign an rcode, not panic" % v["name"])
        # upstream failures -> SERVFAIL
        i = [k for k, v in enumerate(adt["variants"]) if v["name"] == "OutReply"][0]
        es = discr_edges(cfg, sw, i)
        got = set()
        for b2, i2, s in eb.stmts():
            if "rv" in s and s["rv"]["k"] == "use" and "dnspkt::" in s["rv"]["op"].get("k", {}).get("uneval", "") and eb.local_ty(s["p"][0]).endswith("RCode") and edge_dominated(cfg, es, b2):
                got.add(s["rv"]["op"]["k"]["uneval"].split("::")[-1])
        ctx.check(got == {"SERVFAIL"}, "R5", "upstream-failure->SERVFAIL", ctx.where(eb), "rcodes under the OutReply arm: %s" % sorted(got))
