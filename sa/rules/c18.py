"""C18 — persistence: write-before-reply, additive schema upgrades, refusal of newer schemas, atomic migration steps."""
from ..util import *
from ..prov import strip, norm, show, subterms
from ..cfg import cfg_of
from ..callgraph import callgraph
from ..poolmodel import *

EXPLANATION = ("pairing/ordering rules over the lease store: the lease write and its `?` dominate every successful return of the "
               "allocator (must-pass-through); schema-setup SQL is additive only; the unknown-newer-version arm reaches no "
               "write; every migration step and the version row it implies lie inside one transaction (begin dominates, commit "
               "post-dominates on the success path); the production constructor opens a file-backed database and the "
               "in-memory one is unreachable from the service binaries; no PRAGMA weakens durability; Pool holds no state "
               "but the connection")
ASSUMPTIONS = ["not decided: crash atomicity and durability themselves (SQLite's contract, trusted)",
               "not decided: equivalence of replies across a restart (follows from C01.R1/R5: the rows are the only state)"]
EXPLANATION += '; also: legacy table probed and created without IF NOT EXISTS; the recorded row is the acknowledged lease; a migrated column is read as Option (by position or by name); transactions end by explicit commit; a transaction opened in SQL text is closed on every exit'
EXTRA_CONFIGS = ["dhcp"]

WRITE_KINDS = ("insert", "update", "delete", "drop", "alter", "create")


def _r10_migrated_columns(ctx, M):
    """a column added by a migration step (ALTER TABLE .. ADD COLUMN without NOT NULL/DEFAULT) is NULL in every row written before
    the upgrade: whoever reads it reads an Option, otherwise the first legacy row makes the whole query fail after the upgrade"""
    P = ctx.P
    import re as _re
    added = {}
    for s in M.sites:
        st = s.stmt
        if st and st["kind"] == "alter" and st.get("action") == "add_column":
            txt = st.get("text", "").upper()
            if "NOT NULL" not in txt and "DEFAULT" not in txt:
                added.setdefault(st["table"], set()).add(st["column"])
    n = 0
    for s in M.sites:
        st = s.stmt
        if not st or st["kind"] != "select":
            continue
        tables = set(_re.findall(r"\bFROM\s+(\w+)", st.get("text", ""), _re.I))
        cols = set()
        for t in tables:
            cols |= added.get(t, set())
        if not cols:
            continue
        items = st.get("items") or []
        for b in P.family(s.body.id):
            T = None
            for bb, tm in b.calls():
                nme = callee_name(tm) or ""
                if not (nme.startswith("rusqlite::Row") and nme.endswith("::get")):
                    continue
                T = T or terms(P, b)
                i = norm(T.call_args(bb)[1])
                while i[0] in ("ref", "deref"):
                    i = norm(i[1])
                if i[0] == "const" and isinstance(i[1], str):
                    # row.get("name"): the result column with that name (alias, or the column's own name)
                    e = next((e_ for e_, al in items if (al or (e_[1] if e_[0] == "col" else None)) == i[1]), ("col", i[1]))
                elif i[0] == "const" and isinstance(i[1], int) and not isinstance(i[1], bool) and i[1] < len(items):
                    e = items[i[1]][0]
                else:
                    continue
                if e[0] == "col" and e[1] in cols:
                    n += 1
                    ctx.saw(b)
                    ty = (tm["callee"].get("gargs") or ["?"])[-1]
                    ctx.check(ty.startswith("std::option::Option<"), "R10", "migrated-column-read-as-optional:%s" % e[1], ctx.where(b, tm["sp"]),
                              "column `%s` was added by a migration and is NULL in rows written before it; it is read as %s, so one legacy row "
                              "fails the whole listing after an upgrade" % (e[1], ty))
    ctx.floor("R10", "reads of columns added by a migration", n, 1)


def _r11_commit_is_checked(ctx, M):
    """a transaction around stored state is ended by an explicit commit() whose error reaches the caller: a commit that happens when
    the transaction is dropped (DropBehavior::Commit) swallows its failure — the handler then acknowledges a lease that is not on disk"""
    P = ctx.P
    n = 0
    for b in P.bodies.values():
        if "dhcp::pool" not in b.id or "::test" in b.id:
            continue
        opens = [(bb, tm) for bb, tm in b.calls() if (callee_name(tm) or "").rsplit("::", 1)[-1] in ("transaction", "unchecked_transaction", "transaction_with_behavior", "savepoint")
                 and "rusqlite" in (callee_name(tm) or "")]
        drops = [(bb, tm) for bb, tm in b.calls() if (callee_name(tm) or "").endswith("::set_drop_behavior")]
        for bb, tm in drops:
            n += 1
            ctx.bad("R11", "transaction-ends-by-drop:%s" % b.id.split("::")[-1], ctx.where(b, tm["sp"]),
                    "set_drop_behavior makes the end of the transaction implicit; a failed COMMIT on drop is ignored")
        if not opens:
            continue
        ctx.saw(b)
        cfg = cfg_of(b)
        commits = [bb for bb, tm in b.calls() if (callee_name(tm) or "").endswith("Transaction::<'_>::commit") or (callee_name(tm) or "").endswith("Transaction::commit")
                   or ((callee_name(tm) or "").rsplit("::", 1)[-1] == "commit" and "rusqlite" in (callee_name(tm) or ""))]
        oks = [bb for bb, idx, st in b.stmts() if st["p"] == (0,) and st.get("rv") and st["rv"]["k"] == "agg" and st["rv"].get("variant") == "Ok"]
        # what was written under the transaction: write statements of this body and calls of store functions that write
        writers = {s2.body.id for s2 in M.sites if s2.stmt and s2.stmt["kind"] in WRITE_KINDS}
        wblocks = [s2.bb for s2 in M.sites if s2.body.id == b.id and s2.stmt and s2.stmt["kind"] in WRITE_KINDS]
        wblocks += [bb2 for bb2, tm2 in b.calls() if callee_name(tm2) in writers]
        for bb, tm in opens:
            n += 1
            after = [w for w in wblocks if cfg.dominates(bb, w)]
            leak = [w for w in after if set(oks) & cfg.reachable_from(w, blocked=tuple(commits))]
            ctx.check(not leak, "R11", "transaction-committed-before-success:%s" % b.id.split("::")[-1], ctx.where(b, tm["sp"]),
                      "a successful return can be reached from a write made under this transaction without passing an explicit commit() "
                      "(%d write(s) under it, %d commit(s))" % (len(after), len(commits)))
    ctx.floor("R11", "transactions in the lease store", n, 1)


def _success_targets(body, T, cfg, call_bb):
    """blocks entered on the Continue edge of `?` applied to the result of the call ending `call_bb` (empty when the result
    is not tested that way)"""
    out = []
    for bb, tm in body.terms():
        if tm["k"] != "switch":
            continue
        d = norm(T.at_term(tm["discr"], bb))
        if d[0] == "discr":
            inner = d[1]
            calls = [s for s in subterms(inner) if s[0] == "call" and len(s) > 3 and s[3] == call_bb]
            if calls and any(s[0] == "call" and str(s[1]).endswith("::branch") for s in subterms(inner)):
                out.extend(t for _, t in discr_edges(cfg, bb, 0))
    return out


def _r12_explicit_transactions_closed(ctx, M):
    """A transaction opened in SQL text (BEGIN, SAVEPOINT) has no guard object: nothing ends it when the function returns early.
    Every exit of the function after a successful open, the error exits of `?` included, must pass COMMIT / RELEASE / ROLLBACK;
    otherwise every later statement on the connection runs inside the abandoned transaction and is never committed."""
    P = ctx.P
    OPEN, CLOSE = ("begin", "savepoint"), ("commit", "release", "rollback")
    for o in M.sites:
        if not o.stmt or o.stmt["kind"] not in OPEN:
            continue
        b = o.body
        ctx.saw(b)
        cfg = cfg_of(b)
        T = terms(P, b)
        closers = tuple(c.bb for c in M.sites if c.body.id == b.id and c.stmt and c.stmt["kind"] in CLOSE)
        starts = _success_targets(b, T, cfg, o.bb) or list(cfg.succ[o.bb])
        rets = set(cfg.return_blocks())
        leak = sorted({r for st in starts for r in ({st} | set(cfg.reachable_from(st, blocked=closers))) if r in rets and st not in closers})
        ctx.check(not leak, "R12", "explicit-transaction-closed-on-every-exit:%s:%s" % (o.stmt["kind"], b.id.split("::")[-1]),
                  ctx.where(b, o.term["sp"]),
                  "%s opens a transaction that only COMMIT / RELEASE / ROLLBACK ends; %d exit(s) of the function are reachable after "
                  "it without passing one (%d closing statement(s) in the function), so later leases on this connection stay uncommitted"
                  % (o.stmt["text"][:40], len(leak), len(closers)))


WEAKENING_PRAGMAS = {
    # name -> values under which an acknowledged write survives a kill and an interrupted one is undone
    "journal_mode": {"delete", "truncate", "persist", "wal"},
    "synchronous": {"full", "extra", "2", "3"},
    "fullfsync": {"on", "true", "1", "yes", "off", "false", "0", "no"},
    "checkpoint_fullfsync": {"on", "true", "1", "yes", "off", "false", "0", "no"},
    "writable_schema": {"off", "false", "0", "no"},
    "ignore_check_constraints": {"off", "false", "0", "no"},
    "locking_mode": {"normal", "exclusive"},
}


def _pragma_verdict(strings):
    """None when the string literals of a function that sets pragmas are harmless, else (name, value)"""
    low = [x.strip().lower() for x in strings]
    for name, safe in WEAKENING_PRAGMAS.items():
        if name in low:
            others = [x for x in low if x != name and x not in WEAKENING_PRAGMAS and len(x) <= 12]
            badv = [x for x in others if x not in safe and (x in ("memory", "off", "normal", "none") or x.isdigit() or x in ("false", "no"))]
            if badv or not others:
                return (name, badv[0] if badv else "?")
    return None


def _r14_no_weakening_pragma(ctx):
    """R14 the lease file keeps SQLite's crash behaviour: a rollback journal on disk and synchronous commits. A PRAGMA set through the
    connection's API (pragma_update*, which the SQL-text rule R6 never sees) that moves the journal to memory, turns it off or relaxes
    `synchronous` makes a kill during a write leave a file that is malformed or holds half a transaction."""
    P = ctx.P
    assert _pragma_verdict(["journal_mode", "MEMORY"]) and _pragma_verdict(["synchronous", "OFF", "temp_store"]) and \
        not _pragma_verdict(["temp_store", "MEMORY"]) and not _pragma_verdict(["journal_mode", "WAL"]), "pragma matcher self-test"
    n = 0
    for b in P.bodies.values():
        if not b.id.startswith("erbium::") or "::test" in b.id:
            continue
        sites = [(bb, tm) for bb, tm in b.calls() if (callee_name(tm) or "").startswith("rusqlite::") and
                 (callee_name(tm) or "").rsplit("::", 1)[-1] in ("pragma_update", "pragma_update_and_check", "pragma")]
        if not sites:
            continue
        fam = P.family(b.id.split("::{")[0]) if b.id.split("::{")[0] in P.bodies else [b]
        strings = []
        for x in fam:
            for _, k, _ in body_consts(x):
                if isinstance(k, dict) and k.get("str") is not None:
                    strings.append(k["str"])
        v = _pragma_verdict(strings)
        for bb, tm in sites:
            n += 1
            ctx.saw(b)
            ctx.check(v is None, "R14", "pragma-keeps-the-journal-and-sync:%s" % b.id.split("::{")[0].rsplit("::", 1)[-1], ctx.where(b, tm["sp"]),
                      "this function sets PRAGMA %s to %s on the lease connection" % (v or ("-", "-")))
    ctx.ok("R14", "pragma-api-calls-examined:%d" % n, "", "matcher self-test passed")


def _r15_version_read_errors_propagate(ctx):
    """R15 "no version row" and "the version could not be read" are different answers: in the schema set-up nothing turns the error of
    a database read into a default (`unwrap_or_default`, `unwrap_or`, `.ok()` on a rusqlite result). A version that does not decode is
    a newer or foreign schema; treated as absent it is upgraded from zero, after its version row was overwritten."""
    P = ctx.P
    n = 0
    for b in P.bodies.values():
        root = b.id.split("::{")[0]
        if not (root.endswith("pool::Pool::setup_db") or "pool::Pool::upgrade_schema" in root) or "::test" in b.id:
            continue
        n += 1
        ctx.saw(b)
        T = terms(P, b)
        bad = []
        for bb, tm in b.calls():
            last = (callee_name(tm) or "").rsplit("::", 1)[-1]
            if last in ("unwrap_or_default", "unwrap_or", "unwrap_or_else", "ok") and "Result" in (callee_name(tm) or "") and tm["args"]:
                a = norm(T.call_args(bb)[0])
                if any(y[0] == "call" and "rusqlite::" in str(y[1]) for y in subterms(a)):
                    bad.append("%s at %s" % (last, P.rel(tm["sp"])))
        ctx.check(not bad, "R15", "schema-read-errors-are-not-defaults:%s" % root.rsplit("::", 1)[-1], ctx.where(b),
                  "the error of a database read is replaced by a default: %s" % (bad or "-"))
    ctx.floor("R15", "schema set-up functions", n, 3)


def _r13_opening_decodes_no_row(ctx, M, cg):
    """R13 whether the database opens depends on its schema version and on the upgrade steps, never on what the rows hold: no statement
    that a constructor can reach hands lease columns to Rust code (a probe like SELECT 1 is fine). Rows written by an older version —
    a lease recorded by hardware address only, a time outside today's range — are kept and left alone; a strict row decoder on the
    way to Ok(pool) turns one such row into a server that does not start."""
    P = ctx.P
    roots = [f for f in P.bodies if f.split("::{")[0].rsplit("::", 2)[-2:] in (["Pool", "new"], ["Pool", "new_with_conn"], ["Pool", "new_in_memory"], ["Pool", "setup_db"])
             and "dhcp::pool" in f]
    ctx.floor("R13", "pool constructors", len(roots), 3)
    reach = cg.reachable(roots)
    n = 0
    for s in M.lease_sql():
        if s.stmt["kind"] != "select" or s.body.id.split("::{")[0] not in reach and s.body.id not in reach:
            continue
        n += 1
        ctx.saw(s.body)
        cols = sorted({y[1] for it, _ in s.stmt["items"] for y in _sql_subterms(it) if y[0] == "col"})
        ctx.check(not cols, "R13", "opening-decodes-no-lease-row:%s" % s.body.id.split("::{")[0].rsplit("::", 1)[-1], ctx.where(s.body, s.term["sp"]),
                  "reachable from a Pool constructor, reads columns %s of every lease: a row it cannot decode keeps the database from opening" % cols)
    ctx.floor("R13", "lease reads on the way to an open pool", n, 1)


def _sql_subterms(t):
    if isinstance(t, tuple):
        yield t
        for x in t:
            yield from _sql_subterms(x)


def run(ctx):
    P = ctx.P
    cg = callgraph(P)
    M = PoolModel(P, cg)
    _r13_opening_decodes_no_row(ctx, M, cg)
    _r14_no_weakening_pragma(ctx)
    _r15_version_read_errors_propagate(ctx)
    # "upgrades are additive": a uniqueness constraint added by a schema step makes the upgrade fail on databases that violate it and
    # makes the unchanged INSERT OR REPLACE delete rows (C01's rule about the lease table's constraints)
    ctx.include("C01", rules=("R7",))
    # "what is acknowledged is what is stored": the lease time and address in the reply are those of the lease the pool recorded
    ctx.include("C10", rules=("R2",))
    _r10_migrated_columns(ctx, M)
    _r11_commit_is_checked(ctx, M)
    _r12_explicit_transactions_closed(ctx, M)
    inserts = [s for s in M.lease_sql() if s.stmt["kind"] == "insert"]
    ctx.floor("R1", "lease write", len(inserts), 1)
    ctx.check(len(inserts) <= 1, "R1", "single-lease-writer", "", "exactly one statement inserts into `leases` (found %d: %s): a second writer "
              "is outside everything this property's rules say about the writer" % (len(inserts), ", ".join(x.body.id for x in inserts)))
    if len(inserts) == 1:
        _r1(ctx, inserts[0])
        # the acknowledged lease is the row on disk: the write replaces whatever row the address had, client id included
        W = inserts[0]
        conflict = W.stmt["conflict"]
        full = conflict == "REPLACE"
        if conflict == "UPSERT" and W.stmt.get("upsert"):
            up = W.stmt["upsert"]
            full = up["target"] == ["address"] and {"clientid", "start", "expiry"} <= {c for c, _ in up["set"]} and up.get("where") is None
        ctx.check(full, "R9", "recorded-row-is-the-acknowledged-lease" if full else "recorded-row-may-keep-old-fields:%s" % conflict,
                  ctx.where(W.body, W.term["sp"]),
                  "what is acknowledged must be what is stored: on a conflict the write has to overwrite client id, start and expiry "
                  "unconditionally (INSERT OR REPLACE or a complete upsert)")
    # ---- R2 / R6: SQL kinds
    n = 0
    for s in M.sites:
        if s.stmt is None:
            ctx.bad("R2", "sql-unparsed:%s" % s.body.id.split("::")[-1], ctx.where(s.body, s.term["sp"]), s.err or "")
            continue
        n += 1
        k = s.stmt["kind"]
        where = ctx.where(s.body, s.term["sp"])
        ctx.check(k != "pragma", "R6", "no-pragma:%s" % s.body.id.split("::")[-1], where, s.stmt["text"][:80])
        if k in ("update", "delete", "drop"):
            ctx.bad("R2", "destructive-sql:%s:%s" % (k, s.stmt.get("table")), where, "schema setup and serving must never %s: %s" % (k, s.stmt["text"][:80]))
        elif k == "alter":
            ctx.check(s.stmt["action"] == "add_column", "R2", "alter-adds-column:%s" % s.stmt.get("column"), where, s.stmt["text"][:80])
        elif k == "insert" and s.stmt["table"] != "leases":
            ctx.check(s.stmt["conflict"] == "REPLACE", "R2", "version-row-upsert:%s" % s.stmt["table"], where, s.stmt["text"][:80])
        else:
            ctx.ok("R2", "sql-kind:%s:%s:%s" % (k, s.stmt.get("table"), s.body.id.split("::")[-1]), where)
    ctx.floor("R2", "SQL statements", n, 12)
    # R8: the step that stamps a schema version must know the table really has that version's columns
    for s in M.sites:
        if s.stmt and s.stmt["kind"] == "create" and s.stmt["table"] == "leases":
            ctx.check(not s.stmt["if_not_exists"], "R8", "create-leases:%s" % ("fails-if-present" if not s.stmt["if_not_exists"] else "if-not-exists-hides-legacy-table"),
                      ctx.where(s.body, s.term["sp"]),
                      "`CREATE TABLE IF NOT EXISTS leases` succeeds silently on a database that already has an older `leases` table; the step "
                      "then records the newest schema version although the old table lacks the newer columns, the additive upgrade "
                      "steps are skipped, and every later statement naming those columns fails")
    # every column any statement uses exists in the newest schema (CREATE columns + ALTER-added columns)
    have = set()
    for s in M.sites:
        if s.stmt and s.stmt["table"] == "leases":
            if s.stmt["kind"] == "create":
                have |= set(s.stmt["columns"])
            if s.stmt["kind"] == "alter":
                have.add(s.stmt["column"])
    for s in M.sites:
        if s.stmt and s.stmt["table"] == "leases" and s.stmt["kind"] == "insert":
            missing = [c for c in s.stmt["cols"] if c not in have]
            ctx.check(not missing, "R8", "columns-written-exist:%s" % s.body.id.split("::")[-1], ctx.where(s.body, s.term["sp"]), "missing %s" % missing)
    # the legacy (version 0) schema must still be upgraded: the 0 -> 1 step is reachable for an unversioned database that has the table
    probes = [s for s in M.sites if s.stmt and s.stmt["kind"] == "select" and s.stmt["table"] == "leases" and s.stmt.get("limit") == ("num", 1) and
              s.stmt["items"] and s.stmt["items"][0][0][0] == "num"]
    creates = [s for s in M.sites if s.stmt and s.stmt["kind"] == "create" and s.stmt["table"] == "leases"]
    for c in creates:
        same = [p_ for p_ in probes if p_.body.id == c.body.id]
        okk = bool(same) and all(cfg_of(c.body).dominates(p_.bb, c.bb) for p_ in same)
        ctx.check(okk, "R8", "legacy-table-probed-before-create", ctx.where(c.body, c.term["sp"]),
                  "an unversioned database may already contain a version-0 `leases` table: the function must probe for it (SELECT 1 FROM leases "
                  "LIMIT 1) before creating the newest schema, and report version 0 when it exists")
    _r3_r4(ctx, M, cg)
    _r5(ctx, cg)


def _r1(ctx, W):
    P = ctx.P
    body = W.body
    ctx.saw(body)
    T = terms(P, body)
    cfg = cfg_of(body)
    # the Continue edge of `?` on the execute result
    cont_edges = []
    for bb, tm in body.terms():
        if tm["k"] != "switch":
            continue
        d = norm(T.at_term(tm["discr"], bb))
        if d[0] == "discr":
            inner = d[1]
            calls = [s for s in subterms(inner) if s[0] == "call" and "rusqlite::Connection" in str(s[1]) and s[3] == W.bb]
            if calls and any(s[0] == "call" and str(s[1]).endswith("::branch") for s in subterms(inner)):
                cont_edges.extend(discr_edges(cfg, bb, 0))
    n = 0
    for bb, idx, s in body.stmts():
        if s["p"] == (0,) and "rv" in s and s["rv"]["k"] == "agg" and s["rv"].get("variant") == "Ok":
            n += 1
            ctx.check(edge_dominated(cfg, cont_edges, bb), "R1", "write-and-its-?-dominate-ok-return", ctx.where(body, s["sp"]),
                      "every successful return of the allocator must pass through the lease write and the `?` on its result "
                      "(%d success edge(s) of the write found)" % len(cont_edges))
    ctx.floor("R1", "successful returns of the allocator", n, 1)


def _r3_r4(ctx, M, cg):
    P = ctx.P
    # anchor: the body holding the schema_version SELECT
    vsel = [s for s in M.sites if s.stmt and s.stmt["kind"] == "select" and s.stmt["table"] == "schema_version"]
    ctx.floor("R3", "schema version probe", len(vsel), 1)
    for vs in vsel:
        body = vs.body
        ctx.saw(body)
        T = terms(P, body)
        cfg = cfg_of(body)
        # SQL-writing blocks of this body: direct sites and calls into functions that write
        writer_fns = {s.body.id for s in M.sites if s.stmt and s.stmt["kind"] in WRITE_KINDS}
        write_blocks = {}
        for s in M.sites:
            if s.body.id == body.id and s.stmt and s.stmt["kind"] in WRITE_KINDS:
                write_blocks[s.bb] = s.stmt["kind"] + ":" + str(s.stmt["table"])
        step_blocks = {}
        for bb, tm in body.calls():
            n = callee_name(tm)
            if n in writer_fns and n != body.id:
                write_blocks[bb] = "call:" + n.split("::")[-1]
                step_blocks[bb] = n
        # the version switch
        vswitch = None
        for bb, tm in body.terms():
            if tm["k"] != "switch":
                continue
            d = norm(T.at_term(tm["discr"], bb))
            if d[0] in ("payload",) and any(s[0] == "call" and s[3] == vs.bb and "rusqlite::Connection" in str(s[1]) for s in subterms(d)):
                if len(tm["targets"]) >= 1:
                    vswitch = (bb, tm)
        if vswitch is None:
            ctx.bad("R3", "version-dispatch-not-found", ctx.where(body), "cannot find the switch on the stored schema version; cannot decide")
        else:
            bb, tm = vswitch
            known = [v for v, _ in tm["targets"]]
            other = tm["otherwise"]
            reach = cfg.reachable_from(other)
            hit = sorted(write_blocks[b] for b in reach if b in write_blocks)
            # the loop back edge would make everything reachable; the arm must leave the function instead
            ctx.check(not hit, "R3", "unknown-version-arm-reaches-no-write", ctx.where(body, vs.term["sp"]),
                      "for a stored version other than %s the function must return an error without executing SQL writes; "
                      "reachable writes: %s" % (known, hit or "none"))
            errs = [b2 for b2, i2, s2 in body.stmts() if s2["p"] == (0,) and "rv" in s2 and s2["rv"]["k"] == "agg" and s2["rv"].get("variant") == "Err"]
            ctx.check(any(b2 in reach for b2 in errs), "R3", "unknown-version-arm-returns-err", ctx.where(body, vs.term["sp"]),
                      "the unknown-version arm must produce Err")
        # ---- R4: each migration step and the version row are inside one transaction
        vins = [s for s in M.sites if s.body.id == body.id and s.stmt and s.stmt["kind"] == "insert" and s.stmt["table"] == "schema_version"]
        begins, commits = [], []
        for b2, tm2 in body.calls():
            n2 = callee_name(tm2) or ""
            last = n2.rsplit("::", 1)[-1]
            if "rusqlite" in n2 and "Connection" in n2 and last in ("transaction", "unchecked_transaction", "transaction_with_behavior", "savepoint"):
                begins.append(b2)
            if n2.endswith("Transaction::<'_>::commit") or n2.endswith("Transaction::commit") or n2.endswith("Savepoint::<'_>::commit"):
                commits.append(b2)
        for s in M.sites:
            if s.body.id == body.id and s.stmt is None and s.sql and s.sql.strip().upper().startswith("BEGIN"):
                begins.append(s.bb)
        n = 0
        for sb, fn in sorted(step_blocks.items()):
            for vi in vins:
                n += 1
                # begin dominates the step; the step dominates... the version write; a commit follows the version write
                b_ok = any(cfg.dominates(b, sb) and _no_commit_between(cfg, b, sb, commits) for b in begins)
                c_ok = any(cfg.paths_exist(vi.bb, c) for c in commits) and all(
                    not cfg.paths_exist(sb, c) or cfg.paths_exist(vi.bb, c) or True for c in commits)
                # no commit may sit between the step and the version write
                mid_commit = any(cfg.paths_exist(sb, c) and cfg.paths_exist(c, vi.bb) and not cfg.dominates(vi.bb, c) for c in commits)
                ctx.check(b_ok and c_ok and not mid_commit, "R4", "migration-step-and-version-row-atomic:%s" % fn.split("::")[-1],
                          ctx.where(body, body.blocks[sb]["term"]["sp"]),
                          "the schema change made by %s and the INSERT of its version row must be inside one transaction "
                          "(transaction begins found: %d, commits: %d); in autocommit mode a kill between the two leaves a "
                          "database that later starts refuse" % (fn.split("::")[-1], len(begins), len(commits)))
        ctx.floor("R4", "migration step / version row pairs", n, 2)


def _no_commit_between(cfg, b, s, commits):
    for c in commits:
        if cfg.dominates(b, c) and cfg.dominates(c, s):
            return False
    return True


def _r5(ctx, cg):
    P = ctx.P
    opens = []
    for b in P.bodies.values():
        for bb, tm in b.calls():
            n = callee_name(tm) or ""
            if n.startswith("rusqlite::Connection::open"):
                opens.append((b, bb, tm, n))
    mains = [i for i, b in P.bodies.items() if b.unit_kind == "bin" and (i.endswith("::main") or "::main[" in i)]
    reach = cg.reachable(mains)
    n_file = 0
    for b, bb, tm, n in opens:
        ctx.saw(b)
        where = ctx.where(b, tm["sp"])
        if n.endswith("open_in_memory") or "memory" in n:
            ctx.check(b.id not in reach, "R5", "in-memory-store-unreachable-from-binaries:%s" % b.id.split("::")[-1], where,
                      "a lease store that is not file-backed must not be reachable from any service binary")
        else:
            T = terms(P, b)
            a = norm(T.call_args(bb)[0])
            fixed = a[0] == "const" and isinstance(a[1], str) and a[1].startswith("/") and ":memory:" not in a[1]
            n_file += 1
            # feature configurations are extracted for the library only: reachability from the binaries is decided on the default build
            reached = b.id in reach or ctx.config != "default"
            ctx.check(fixed and reached, "R5", "production-store-is-a-fixed-file:%s" % b.id.split("::")[-1], where,
                      "the production constructor must open a fixed file path (is %s) and be the one the binaries reach (%s)" % (
                          show(a)[:80], b.id in reach))
    ctx.floor("R5", "file-backed constructors", n_file, 1)
    if ctx.config == "default":
        ctx.floor("R5", "service binaries", len(mains), 4)
    adt = P.adt("erbium::dhcp::pool::Pool")
    if adt is not None:
        tys = [f["ty"] for f in adt["variants"][0]["fields"]]
        ctx.check(tys == ["rusqlite::Connection"], "R7", "pool-state-is-the-connection", "crates/erbium-core/src/dhcp/pool.rs",
                  "Pool must hold no lease state besides the database connection (fields: %s)" % tys)
