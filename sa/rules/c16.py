"""C16 — REFUSED replies are rate-bounded per source, yet quiet clients still get one (structural clauses)."""
import re
from ..util import *
from ..prov import strip, norm, show, subterms
from ..cfg import cfg_of
from ..callgraph import callgraph

EXPLANATION = ("dominance, provenance and constant-consistency rules: the UDP send is dominated by the false edge of the "
               "rate-limit decision; the decision is `false` only for rcode != REFUSED or a Good cookie, otherwise the negated "
               "bucket check for the remote address and the computed cost; the server cookie is an HMAC over client cookie, "
               "local address and remote address, checked against exactly the current and previous key, Good only when the "
               "constant-time verification succeeds; the smallest possible cost does not exceed the largest amount a bucket "
               "can ever hold (otherwise the grant edge is dead); the bucket's availability is capped at MAX_TOKENS")
ASSUMPTIONS = ["not decided: sum(bytes) <= B + R*dt over arrival sequences; the read-then-write race between check and deplete; real time"]
EXTRA_CONFIGS = ["dns"]


def _const_u(P, path):
    k = P.consts.get(path)
    return int(k["int"]) if k and "int" in k else None


def _r5_debt(ctx):
    """a charge is carried in full: deplete stores (level at the current time) + ceil(cost / rate) and nothing else — no min/clamp
    that would forgive what concurrent grants overdrew (the limiter checks under a read lock and charges under a write lock, so
    overdraft is normal and the bound burst + rate*time relies on it being remembered)"""
    P = ctx.P
    fns = [f for f in P.bodies if "dns::bucket::GenericTokenBucket" in f and f.rsplit("::", 1)[-1].startswith("deplete")]
    if not fns:
        if ctx.config in ("default", "dns"):
            ctx.bad("R5", "anchor:deplete", "", "token bucket charge function not found")
        return
    for f in fns:
        b = P.bodies[f]
        ctx.saw(b)
        T = terms(P, b)
        n = 0
        for bb, idx, st in b.stmts():
            if len(st["p"]) >= 2 and st["p"][-1] == ".0" and "rv" in st:
                n += 1
                v = norm(T.rvalue(st["rv"], bb, idx))
                if v[0] == "field" and v[2] == "0":
                    v = norm(v[1])
                good = False
                if v[0] == "bin" and v[1].startswith("Add"):
                    x, y = norm(v[2]), norm(v[3])
                    lvl = [z for z in (x, y) if z[0] == "call" and str(z[1]).rsplit("::", 1)[-1].startswith("get_tokens")]
                    cost = [z for z in (x, y) if z[0] == "call" and str(z[1]).rsplit("::", 1)[-1] == "div_ceil" and norm(z[2][0]) == ("param", 2)]
                    good = bool(lvl) and bool(cost)
                if v[0] == "call" and str(v[1]).rsplit("::", 1)[-1] == "saturating_add":
                    x, y = norm(v[2][0]), norm(v[2][1])
                    good = any(z[0] == "call" and "get_tokens" in str(z[1]) for z in (x, y)) and any(z[0] == "call" and str(z[1]).endswith("div_ceil") for z in (x, y))
                ctx.check(good, "R5", "charge-is-carried-in-full", ctx.where(b, st["sp"]),
                          "deplete must store get_tokens() + tokens.div_ceil(TOKENS_PER_SECOND); it stores %s — a clamp here forgives overdraft, "
                          "and N racing replies then cost one" % show(v)[:120])
        ctx.floor("R5", "stores of the bucket level in deplete", n, 1)


def _root_field(y):
    """(local, field) for a field term directly on a local / argument (through derefs), else None"""
    base = norm(y[1])
    while base[0] == "deref":
        base = norm(base[1])
    if base[0] in ("param", "local"):
        return (base[1], y[2])
    return None


def _r6_r7(ctx, cg):
    """R6 a refused query's answer is the query plus a constant: the Extended DNS Error text of every error reply is a literal, so the
    charge max(2*reply - query, 200) of a REFUSED stays below what a bucket can hold and a quiet source is always answered.
    R7 there is one limiter for the whole service: created once, when the handler is built — per listener (or per task) the budget
    towards one source multiplies with the number of listening addresses."""
    P = ctx.P
    n = 0
    for b in P.bodies.values():
        if not b.id.startswith("erbium::dns::DnsListenerHandler::create_in_error"):
            continue
        T = None
        for bb, tm in b.calls():
            if (callee_name(tm) or "").endswith("set_extended_dns_error") and len(tm["args"]) >= 3:
                T = T or terms(P, b)
                n += 1
                ctx.saw(b)
                txt = norm(T.call_args(bb)[2])
                msgp = set(b.var_places("msg"))
                def from_query(y):
                    if y[0] in ("param", "local") and (y[1],) in msgp:
                        return True
                    if y[0] == "field":
                        r = _root_field(y)
                        return r is not None and ((r[0], "." + str(r[1])) in msgp or (r[0], str(r[1])) in msgp)
                    return False
                dep = [y for y in subterms(txt) if from_query(y)]
                ctx.check(bool(msgp) and not dep, "R6", "error-text-does-not-grow-with-the-query", ctx.where(b, tm["sp"]),
                          "the EDE text of an error reply must not be computed from the query (is %s): its presentation form can be four times "
                          "the query's size, the reply's charge then exceeds what a bucket can ever hold, and that source never gets an answer"
                          % show(txt)[:90])
    # the free text a refusal carries comes from the server's own vocabulary
    m = 0
    for bd, bb, idx, st in find_aggs(P, "erbium::dns::Error"):
        if st["rv"].get("variant") != "Denied" or "::test" in bd.id:
            continue
        m += 1
        ctx.saw(bd)
        v = norm(terms(P, bd).rvalue(st["rv"], bb, idx))
        pay = norm(v[3][0][1]) if v[0] == "agg" and v[3] else ("unknown",)
        while pay[0] == "call" and len(pay[2]) == 1 and str(pay[1]).rsplit("::", 1)[-1] in ("into", "from", "to_string", "to_owned", "clone"):
            pay = norm(pay[2][0])
        while pay[0] in ("ref", "deref"):
            pay = norm(pay[1])
        # a copy of another denial's text (clone_out_reply) adds nothing new
        ctx.check(pay[0] == "const" or "<Denied>" in show(pay), "R6", "denial-text-is-a-literal", ctx.where(bd, st["sp"]),
                  "Error::Denied carries %s: the text is copied into the REFUSED reply, see error-text-does-not-grow-with-the-query" % show(pay)[:80])
    if ctx.config in ("default", "dns"):
        ctx.floor("R6", "extended error texts in the error reply", n, 1)
        ctx.floor("R6", "places that deny a query with a text", m, 2)
    ctor = [f for f in P.bodies if f.endswith("dns::IpRateLimiter::new")]
    sites = [(cb, bb, tm) for f in ctor for cb, bb, tm in cg.callers(f) if "::test" not in cb.id]
    for cb, bb, tm in sites:
        ctx.saw(cb)
        ccfg = cfg_of(cb)
        in_loop = any(bb in l for l in ccfg.loops_by_header())
        nested = cb.kind in ("closure", "coroutine") and not (cb.parent in P.bodies and P.bodies[cb.parent].kind in ("fn", "assoc_fn") and cb.kind == "coroutine")
        ctx.check(not in_loop and not nested, "R7", "one-limiter-for-the-service:%s" % cb.id.split("::{")[0].rsplit("::", 1)[-1], ctx.where(cb, tm["sp"]),
                  "IpRateLimiter::new() must be called once, straight in the handler's constructor (in a loop: %s, inside a closure / task: %s)" % (in_loop, nested))
    if ctx.config in ("default", "dns"):
        ctx.check(len(sites) == 1, "R7", "limiter-created-once", "", "%d creation site(s)" % len(sites))


FORGETTERS = ("clear", "remove", "remove_entry", "retain", "drain", "pop", "truncate", "insert", "replace", "take", "swap", "swap_remove",
              "split_off", "shrink_to", "extract_if", "pop_front", "pop_back", "pop_first", "pop_last")


def _r8_buckets_are_never_forgotten(ctx):
    """R8 what a source has been charged stays charged until time pays it back: outside its constructor the limiter never removes,
    replaces or re-creates a bucket (clear / remove / insert / take .. on whatever holds the buckets, or a fresh GenericTokenBucket
    stored over an old one). A bucket that is forgotten comes back full, so anything that can make the limiter forget — other
    sources filling a table, say — hands a cut-off source a new burst without any time having passed."""
    P = ctx.P
    n = 0
    for b in P.bodies.values():
        root = b.id.split("::{")[0]
        if not root.startswith("erbium::dns::IpRateLimiter::") or root.endswith("::new") or "::test" in b.id:
            continue
        n += 1
        ctx.saw(b)
        bad = []
        for bb, tm in b.calls():
            nme = callee_name(tm) or ""
            last = nme.rsplit("::", 1)[-1]
            if last in FORGETTERS and tm["args"]:
                pl = op_place(tm["args"][0])
                ty = b.local_ty(pl[0]) if pl else ""
                if "TokenBucket" in ty or "Bucket" in ty:
                    bad.append("%s at %s" % (last, P.rel(tm["sp"])))
            if nme.endswith("GenericTokenBucket::new") or (last == "default" and "TokenBucket" in nme):
                bad.append("%s at %s" % (last, P.rel(tm["sp"])))
        for _, bb, idx, st in find_aggs(P, "bucket::GenericTokenBucket", [b]):
            bad.append("a new bucket at %s" % P.rel(st["sp"]))
        ctx.check(not bad, "R8", "buckets-are-never-forgotten:%s" % root.rsplit("::", 1)[-1], ctx.where(b),
                  "the limiter forgets or replaces bucket state: %s" % (bad or "-"))
    if ctx.config in ("default", "dns"):
        ctx.floor("R8", "functions of the limiter besides its constructor", n, 2)


def run(ctx):
    P = ctx.P
    cg = callgraph(P)
    _r6_r7(ctx, cg)
    _r8_buckets_are_never_forgotten(ctx)
    # "every refused query still gets an answer or a deliberate drop": a limiter task that waits for a lock it holds does neither
    ctx.include("C07", rules=("R11",))
    _r5_debt(ctx)
    sr = "erbium::dns::DnsListenerHandler::should_ratelimit"
    if sr not in P.bodies:
        ctx.bad("R1", "anchor", "", "rate-limit decision function not found")
        return
    # ---------------- R1: UDP send dominated by the false edge of the decision
    n = 0
    for cb, bb, tm in cg.callers(sr):
        body = cb
        ctx.saw(body)
        T = terms(P, body)
        cfg = cfg_of(body)

        def m(d):
            return d[0] == "await" and d[1][0] == "call" and d[1][1] == sr
        fe_all = []
        for sbb, d, te, fe in bool_switches(P, body, m):
            fe_all.extend(fe)
        sends = [(b2, t2) for b2, t2 in body.calls() if (callee_name(t2) or "").endswith("UdpSocket::send_msg")]
        for b2, t2 in sends:
            n += 1
            ctx.check(edge_dominated(cfg, fe_all, b2), "R1", "udp-send-only-if-not-ratelimited", ctx.where(body, t2["sp"]),
                      "the reply may be sent only on the false edge of should_ratelimit(..).await (%d such edge(s))" % len(fe_all))
            # and what is judged is the reply that is sent
            a = [norm(x) for x in T.call_args(bb)]
            sent = norm(T.call_args(b2)[1])
            ctx.check(a[2] == sent or any(y == a[2] for y in subterms(sent)) or any(y == sent for y in subterms(a[2])), "R1",
                      "decision-judges-the-bytes-that-are-sent", ctx.where(body, t2["sp"]), "")
    ctx.floor("R1", "UDP sends after the decision", n, 1)

    # ---------------- R2: the decision function
    body = body_or_coroutine(P, sr)
    ctx.saw(body)
    T = terms(P, body)
    cfg = cfg_of(body)

    def m_ne(d):
        if d[0] == "call" and str(d[1]).endswith("::ne"):
            xs = [norm(x) for x in d[2]]
            return any(x[0] == "field" and x[2] == "rcode" for x in xs) and any(x[0] == "const" and len(x) > 2 and str(x[2]).endswith("REFUSED") for x in xs)
        return False
    ne_true = []
    for sbb, d, te, fe in bool_switches(P, body, m_ne):
        ne_true.extend(te)
    cadt = P.adt("erbium::dns::CookieStatus")
    good_idx = [i for i, v in enumerate(cadt["variants"]) if v["name"] == "Good"][0] if cadt else -1
    good_edges = []
    for bb, tm in body.terms():
        if tm["k"] == "switch":
            d = norm(T.at_term(tm["discr"], bb))
            if d[0] == "discr" and d[1][0] == "await" and d[1][1][0] == "call" and str(d[1][1][1]).endswith("validate_cookie"):
                good_edges.extend(discr_edges(cfg, bb, good_idx))
    # the same test written as `status == CookieStatus::Good` / `!=`

    def m_good(d):
        if d[0] == "call" and str(d[1]).rsplit("::", 1)[-1] in ("eq", "ne") and len(d[2]) == 2:
            xs = [norm(x) for x in d[2]]
            for i in range(4):
                xs = [norm(x[1]) if x[0] in ("ref", "deref") else x for x in xs]
            return any(x[0] == "await" and norm(x[1])[0] == "call" and str(norm(x[1])[1]).endswith("validate_cookie") for x in xs) and any(
                x[0] == "agg" and str(x[1]).endswith("CookieStatus") and x[2] == "Good" for x in xs)
        return False
    for sbb, d, te, fe in bool_switches(P, body, m_good):
        good_edges.extend(te if str(d[1]).endswith("::eq") else fe)
    falses = [(bb, s) for bb, idx, s in body.stmts() if s["p"] == (0,) and "rv" in s and s["rv"]["k"] == "use" and s["rv"]["op"].get("k", {}).get("bool") is False]
    trues = [(bb, s) for bb, idx, s in body.stmts() if s["p"] == (0,) and "rv" in s and s["rv"]["k"] == "use" and s["rv"]["op"].get("k", {}).get("bool") is True]
    for bb, s in falses:
        why = "rcode!=REFUSED" if edge_dominated(cfg, ne_true, bb) else ("cookie=Good" if edge_dominated(cfg, good_edges, bb) else None)
        ctx.check(why is not None, "R2", "exempt-only:%s" % (why or "unjustified"), ctx.where(body, s["sp"]),
                  "the limiter may be bypassed only for replies that are not REFUSED or for a valid (Good) server cookie")
    ctx.floor("R2", "exemptions", len(falses), 2)
    # the final answer: Not(await(check(limiter, ip, cost)))
    finals = []
    for bb, idx, s in body.stmts():
        if s["p"] == (0,) and "rv" in s and s["rv"]["k"] == "un":
            finals.append((bb, idx, s))
    okk = False
    cost_t = None
    for bb, idx, s in finals:
        t = norm(T.rvalue(s["rv"], bb, idx))
        if t[0] == "un" and t[1] == "Not" and t[2][0] == "await" and t[2][1][0] == "call" and str(t[2][1][1]).endswith("IpRateLimiter::check"):
            a = t[2][1][2]
            ip = norm(a[1])
            cost_t = norm(a[2])
            okk = any(y[0] == "field" and y[2] == "remote_addr" for y in subterms(ip))
    ctx.check(okk and not trues, "R2", "otherwise=not(bucket.check(remote-ip,cost))", ctx.where(body),
              "in every other case the decision is the negated bucket check charged to the remote address")
    # the bucket key is the source IP address alone (a port or scope in the key lets one source use many buckets)
    lim_sig = P.sigs.get("erbium::dns::IpRateLimiter::check")
    if lim_sig is None:
        ctx.bad("R2", "limiter-not-found", "", "")
    else:
        kty = lim_sig["inputs"][1] if len(lim_sig["inputs"]) > 1 else "?"
        ctx.check(kty == "std::net::IpAddr", "R2", "bucket-key-type=IpAddr" if kty == "std::net::IpAddr" else "bucket-key-type=%s" % kty.split("::")[-1],
                  ctx.where(P.bodies["erbium::dns::IpRateLimiter::check"]),
                  "the limiter must be keyed by the source IP address only (key type %s): including the UDP source port or other "
                  "attacker-chosen parts gives every port its own buckets and the per-source bound is lost" % kty)
        for fid, hb in P.bodies.items():
            if fid.startswith("erbium::dns::IpRateLimiter::hash"):
                ctx.saw(hb)
                Th = terms(P, hb)
                hashed = []
                for bb, tm in hb.calls():
                    if (callee_name(tm) or "").endswith("::hash") and "Hash" in (callee_name(tm) or ""):
                        a = norm(Th.call_args(bb)[0])
                        if a[0] == "param":
                            hashed.append(hb.local_ty(a[1]))
                ctx.check("std::net::IpAddr" in hashed and all(h in ("std::net::IpAddr", "u64") for h in hashed), "R2", "bucket-hash-inputs=seed+ip", ctx.where(hb), "hashed: %s" % hashed)

    # ---------------- R4: constant consistency
    MAXT = _const_u(P, "erbium::dns::bucket::GenericTokenBucket::MAX_TOKENS")
    TPS = _const_u(P, "erbium::dns::bucket::GenericTokenBucket::TOKENS_PER_SECOND")
    min_cost = None
    if cost_t is not None and cost_t[0] == "phi" and len(cost_t[1]) == 2:
        # the floor written as a comparison: `if x < FLOOR { FLOOR } else { x }` — read as max(x, FLOOR) when the constant is the
        # value on the edge where x is the smaller one (the other way round it would be a ceiling)
        alts = [norm(x) for x in cost_t[1]]
        cst = [x for x in alts if x[0] == "const" and isinstance(x[1], int)]
        var = [x for x in alts if x[0] != "const"]
        if len(cst) == 1 and len(var) == 1:
            c, x = cst[0], var[0]

            def m_cmp(d):
                return d[0] == "bin" and d[1] in ("Lt", "Le", "Gt", "Ge") and {0, 1} == {0 if norm(q) == x else (1 if (norm(q)[0] == "const" and norm(q)[1] == c[1]) else 2)
                                                                                  for q in (d[2], d[3])}
            small = []
            for sbb, d, te, fe in bool_switches(P, body, m_cmp):
                x_first = norm(d[2]) == x
                x_smaller_when_true = (d[1] in ("Lt", "Le")) == x_first
                small += te if x_smaller_when_true else fe
            const_sets = [bb for bb, idx, st in body.stmts() if st.get("rv") and st["rv"]["k"] == "use" and st["rv"]["op"].get("k") and
                          len(st["p"]) == 1 and "usize" in body.local_ty(st["p"][0]) and norm(T.rvalue(st["rv"], bb, idx))[:2] == ("const", c[1])]
            if small and const_sets and all(edge_dominated(cfg, small, bb) for bb in const_sets):
                cost_t = ("call", "std::cmp::max", (x, c), None)
    if cost_t is not None and cost_t[0] == "call" and str(cost_t[1]).endswith("cmp::max"):
        cs = [norm(x)[1] for x in cost_t[2] if norm(x)[0] == "const"]
        if cs:
            min_cost = cs[0]
        # the variable part is 2*reply - query, saturating
        var = [norm(x) for x in cost_t[2] if norm(x)[0] != "const"]
        shape = bool(var) and var[0][0] == "call" and str(var[0][1]).endswith("saturating_sub") and \
            any(y[0] == "field" and y[2] == "in_size" for y in subterms(var[0][2][1]))
        ctx.check(shape, "R4", "cost=max(2*reply-query,floor)", ctx.where(body), "cost is %s" % show(cost_t)[:120])
    if MAXT is None or TPS is None or min_cost is None or TPS == 0:
        ctx.bad("R4", "constants-not-found", ctx.where(body), "MAX_TOKENS=%s TOKENS_PER_SECOND=%s min cost=%s" % (MAXT, TPS, min_cost))
    else:
        capacity = (MAXT // TPS) * TPS
        ctx.check(min_cost <= capacity, "R4", "min-cost<=bucket-capacity" if min_cost <= capacity else "min-cost(%d)>bucket-capacity(%d)" % (min_cost, capacity),
                  ctx.where(body),
                  "a bucket never holds more than (MAX_TOKENS/TOKENS_PER_SECOND)*TOKENS_PER_SECOND = %d tokens but every REFUSED "
                  "costs at least %d: check() can never succeed, so a client without a valid cookie never receives REFUSED, "
                  "however long it was quiet" % (capacity, min_cost))
    # bucket shape: availability capped
    for fid, b in P.bodies.items():
        if fid.endswith("bucket::GenericTokenBucket::get_tokens_with_time"):
            ctx.saw(b)
            Tb = terms(P, b)
            rt = [norm(Tb.call_term(tm, bb)) for bb, tm in b.calls() if tm["dest"] == (0,)]
            good = False
            for r in rt:
                if str(r[1]).endswith("cmp::max"):
                    xs = [norm(x) for x in r[2]]
                    has_self = any(x[0] == "field" and x[2] == "0" for x in xs)
                    has_cap = any(any(y[0] == "bin" and y[1].startswith("Sub") for y in subterms(x)) and any(
                        y[0] == "bin" and y[1].startswith("Div") for y in subterms(x)) or (any(y[0] == "bin" and y[1].startswith("Sub") for y in subterms(x))) for x in xs)
                    good = has_self and has_cap
            ctx.check(good, "R4", "availability-capped-at-max-tokens", ctx.where(b), "emptied-at = max(stored, now - MAX/TPS): %s" % [show(r)[:100] for r in rt])
        if fid.endswith("bucket::GenericTokenBucket::check"):
            ctx.saw(b)
            Tb = terms(P, b)
            good = False
            for bb, idx, s in b.stmts():
                if s["p"] == (0,) and "rv" in s and s["rv"]["k"] == "bin" and s["rv"]["op"] in ("Le", "Ge"):
                    t = norm(Tb.rvalue(s["rv"], bb, idx))
                    lhs, rhs = (t[2], t[3]) if t[1] == "Le" else (t[3], t[2])
                    good = any(y[0] == "param" for y in subterms(lhs)) and any(y[0] == "bin" and y[1].startswith("Mul") for y in subterms(rhs))
            ctx.check(good, "R4", "check=requested<=available", ctx.where(b), "")
    # the limiter: a grant depletes the bucket it checked
    lim = "erbium::dns::IpRateLimiter::check"
    if lim in P.bodies:
        lb = body_or_coroutine(P, lim)
        ctx.saw(lb)
        Tl = terms(P, lb)
        cl = cfg_of(lb)
        checks = [(bb, tm) for bb, tm in lb.calls() if (callee_name(tm) or "").endswith("GenericTokenBucket::check")]
        depl = [(bb, tm) for bb, tm in lb.calls() if (callee_name(tm) or "").endswith("GenericTokenBucket::deplete")]
        ctx.check(len(checks) == len(depl) and len(depl) >= 1, "R4", "every-grant-depletes", ctx.where(lb), "%d check(s), %d deplete(s)" % (len(checks), len(depl)))
        tr = [bb for bb, idx, s in lb.stmts() if s["p"] == (0,) and "rv" in s and s["rv"]["k"] == "use" and s["rv"]["op"].get("k", {}).get("bool") is True]
        # wherever a bucket's check came out true, that bucket is charged before the function returns (this also covers a result handed
        # back as the check's own boolean: `let ok = b.check(n); if ok { b.deplete(n) }; ok`).  A later test of the same result (the
        # helper's boolean tested again by its caller) follows the first one's outcome.
        rets = set(cl.return_blocks())
        dblocks = tuple(d for d, _ in depl)
        sws = list(bool_switches(P, lb, lambda d: d[0] == "call" and str(d[1]).endswith("GenericTokenBucket::check")))
        okk = True
        n_true = 0
        good_true_edges = []
        for sbb, d, te, fe in sws:
            first = [o for o in sws if len(o[1]) > 3 and len(d) > 3 and o[1][3] == d[3] and (o[0] == sbb or cl.dominates(o[0], sbb))]
            first = min(first, key=lambda o: sum(1 for q in first if cl.dominates(q[0], o[0]))) if first else None
            if first is None or first[0] == sbb:
                for _, tgt in te:
                    n_true += 1
                    if cl.reachable_from(tgt, blocked=dblocks) & rets:
                        okk = False
            if first is not None and not any(cl.reachable_from(tgt, blocked=dblocks) & rets for _, tgt in first[2]):
                good_true_edges += te
        # the bucket that is charged is the bucket whose check came out true: same index
        def bucket_index(bb, tm):
            pl = borrowed_place(Tl, tm["args"][0], bb, len(lb.blocks[bb]["stmts"])) if tm["args"] else None
            return pl
        def lock_index_term(bb, tm):
            # receiver: the guard returned by read()/write() awaited on self.0[idx]; find the index local in the receiver's term
            a0 = norm(Tl.call_args(bb)[0])
            idxs = [y for y in subterms(a0) if y[0] == "index"]
            out = []
            for y in idxs:
                m_ = re.match(r"\[_(\d+)\]$", str(y[2])) if len(y) > 2 else None
                if m_:
                    L = int(m_.group(1))
                    defs = [norm(Tl.rvalue(st["rv"], b2, i2)) for b2, i2, st in lb.stmts() if tuple(st["p"]) == (L,) and st.get("rv")]
                    out.append(tuple(sorted(show(d) for d in defs)))
            return tuple(out)
        for dbb, dtm in depl:
            doms = [(cb, ctm) for cb, ctm in checks if cl.dominates(cb, dbb)]
            if not doms:
                continue
            cb, ctm = max(doms, key=lambda c: sum(1 for o in doms if cl.dominates(o[0], c[0])))
            ci, di = lock_index_term(cb, ctm), lock_index_term(dbb, dtm)
            if ci and di:
                ctx.check(ci == di, "R4", "the-bucket-charged-is-the-bucket-checked", ctx.where(lb, dtm["sp"]),
                          "deplete() is called on bucket %s after check() on bucket %s" % (di[0][0][:60] if di[0] else di, ci[0][0][:60] if ci[0] else ci))
        # a literal `true` is returned only where a bucket has been charged
        okk = okk and all(any(cl.dominates(d, t) for d, _ in depl) or edge_dominated(cl, good_true_edges, t) for t in tr)
        okk = okk and (bool(tr) or n_true >= 1) and n_true >= len(checks)
        ctx.check(okk, "R4", "true-only-after-deplete", ctx.where(lb), "the limiter answers true only after charging a bucket")

    # ---------------- R3: cookie
    cc = "erbium::dns::DnsMessage::calculate_cookie"
    if cc in P.bodies:
        b = P.bodies[cc]
        ctx.saw(b)
        Tb = terms(P, b)
        srcs = set()
        for bb, tm in b.calls():
            n = callee_name(tm) or ""
            if n.endswith("::update") and ("Mac" in n or "Update" in n or "hmac" in n.lower() or "digest" in n.lower()):
                a = norm(Tb.call_args(bb)[1])
                if a[0] == "param":
                    srcs.add("client-cookie" if "[u8]" in b.local_ty(a[1]) else "param")
                for y in subterms(a):
                    if y[0] == "field" and y[2] in ("local_ip", "remote_addr"):
                        srcs.add(y[2])
                # an address goes into the HMAC whole: `octets()` of the address itself, not a part of it (the first 8 octets of an IPv6
                # address are its /64 — a cookie then exempts every neighbour)
                x = a
                while x[0] in ("ref", "deref"):
                    x = norm(x[1])
                if any(y[0] == "call" and str(y[1]).endswith("::octets") for y in subterms(a)):
                    whole = x[0] == "call" and str(x[1]).endswith("::octets")
                    ctx.check(whole, "R3", "hmac-address-input-is-all-its-octets", ctx.where(b, tm["sp"]),
                              "an address is fed to the HMAC through %s: every octet of it must go in" % show(x)[:80])
        ctx.check(srcs >= {"client-cookie", "local_ip", "remote_addr"}, "R3", "hmac-inputs=client-cookie+local-ip+remote-ip", ctx.where(b),
                  "the server cookie must bind the client cookie, the server address and the client address (inputs: %s)" % sorted(srcs))
        keyed = any((callee_name(tm) or "").endswith("new_from_slice") and norm(Tb.call_args(bb)[0])[0] == "param" for bb, tm in b.calls())
        ctx.check(keyed, "R3", "hmac-keyed-with-parameter", ctx.where(b), "")
    vk = "erbium::dns::DnsMessage::validate_cookie_key"
    if vk in P.bodies:
        b = P.bodies[vk]
        ctx.saw(b)
        cfgb = cfg_of(b)
        Tb = terms(P, b)

        def m(d):
            return d[0] == "call" and str(d[1]).endswith("::is_ok") and any(y[0] == "call" and str(y[1]).endswith("verify_slice") for y in subterms(d))
        te_all = []
        for sbb, d, te, fe in bool_switches(P, b, m):
            te_all.extend(te)
        goods = [bb for bb, idx, s in b.stmts() if "rv" in s and s["rv"]["k"] == "agg" and s["rv"].get("adt", "").endswith("CookieStatus") and s["rv"]["variant"] == "Good"]
        ctx.check(bool(goods) and all(edge_dominated(cfgb, te_all, g) for g in goods), "R3", "good-only-if-hmac-verifies", ctx.where(b),
                  "CookieStatus::Good only on the true edge of calculate_cookie(..).verify_slice(server).is_ok()")
    # ... and nowhere else: no other function of the workspace makes up a Good (a memo of cookies seen before, keyed by less than
    # the HMAC binds, exempts whoever replays one)
    elsewhere = []
    for ob in P.bodies.values():
        if ob.id == vk or "::test" in ob.id or not ob.id.startswith("erbium::"):
            continue
        for _, bb2, idx2, s2 in find_aggs(P, "CookieStatus", [ob]):
            if s2["rv"].get("variant") == "Good":
                # `status == CookieStatus::Good`: a Good built only to be compared with is not a verdict
                L = s2["p"][0] if len(s2["p"]) == 1 else None
                refs = {st3["p"][0] for _, _, st3 in ob.stmts() if st3.get("rv") and st3["rv"]["k"] == "ref" and tuple(st3["rv"]["place"]) == (L,) and len(st3["p"]) == 1}
                for _ in range(2):
                    refs |= {st3["p"][0] for _, _, st3 in ob.stmts() if st3.get("rv") and st3["rv"]["k"] == "use" and op_place(st3["rv"]["op"]) and
                             len(op_place(st3["rv"]["op"])) == 1 and op_place(st3["rv"]["op"])[0] in refs and len(st3["p"]) == 1}
                compared = any((callee_name(t3) or "").rsplit("::", 1)[-1] in ("eq", "ne") and any(op_place(a3) and op_place(a3)[0] in refs for a3 in t3["args"])
                               for _, t3 in ob.calls())
                moved = any(st3.get("rv") and st3["rv"]["k"] == "use" and op_place(st3["rv"]["op"]) == (L,) for _, _, st3 in ob.stmts())
                if L is not None and compared and not moved:
                    continue
                elsewhere.append("%s at %s" % (ob.id.split("::{")[0].rsplit("::", 1)[-1], P.rel(s2["sp"])))
    if vk in P.bodies:
        ctx.check(not elsewhere, "R3", "good-is-decided-only-by-the-hmac-check", ctx.where(P.bodies[vk]),
                  "CookieStatus::Good is also produced outside the function that verifies the HMAC: %s" % (elsewhere or "-"))
    vks = "erbium::dns::DnsMessage::validate_cookie_keys"
    if vks in P.bodies:
        b = P.bodies[vks]
        ctx.saw(b)
        Tb = terms(P, b)
        calls = [(bb, norm(Tb.call_args(bb)[1])) for bb, tm in b.calls() if callee_name(tm) == vk]
        ps = sorted(a[1] for _, a in calls if a[0] == "param")
        ctx.check(len(calls) == 2 and len(set(ps)) == 2, "R3", "checked-against-two-keys", ctx.where(b), "keys tried: %s" % ps)
    v = "erbium::dns::DnsMessage::validate_cookie"
    if v in P.bodies:
        b = body_or_coroutine(P, v)
        ctx.saw(b)
        Tb = terms(P, b)
        for bb, tm in b.calls():
            if callee_name(tm) == vks:
                a = [norm(x) for x in Tb.call_args(bb)]
                okk = all(any(y[0] == "await" and y[1][0] == "call" and str(y[1][1]).endswith("CookieKeys::get_keys") for y in subterms(x)) for x in a[1:3]) and a[1] != a[2]
                ctx.check(okk, "R3", "keys=current+previous", ctx.where(b, tm["sp"]), "")
    # no key is ever set to a known value afterwards either: a key field is only ever written with the other key (rotation) or with
    # fresh randomness — "the old key has lapsed, blank it" makes HMAC(zero key, ..) a valid server cookie
    nset = 0
    for ob in P.bodies.values():
        if not ob.id.startswith("erbium::dns::") or "::test" in ob.id or ob.id.startswith("erbium::dns::cache") or ob.id.startswith("erbium::dns::dnspkt"):
            continue
        To = None
        for bb, idx, st in ob.stmts():
            pl = st["p"]
            if "rv" not in st or not any(isinstance(x, str) and x in (".previous", ".current") for x in pl[1:]):
                continue
            To = To or terms(P, ob)
            v = norm(To.rvalue(st["rv"], bb, idx))
            # whose field?  the base must be (a reference to / a guard of) CookieKeys
            if "CookieKeys" not in ob.local_ty(pl[0]) and not any("CookieKeys" in str(y[1]) for y in subterms(norm(To.place((pl[0],), bb, idx))) if y[0] == "call"):
                continue
            nset += 1
            ctx.saw(ob)
            known = v[0] == "const" or (v[0] == "call" and str(v[1]).rsplit("::", 1)[-1] == "default" and "Default" in str(v[1])) or \
                (v[0] == "agg" and all(norm(x)[0] == "const" for _, x in v[3])) or v[0] == "repeat"
            ctx.check(not known, "R3", "cookie-key-never-set-to-a-known-value:%s" % ob.id.split("::{")[0].rsplit("::", 1)[-1], ctx.where(ob, st["sp"]),
                      "a cookie key is overwritten with %s: anyone can then compute a server cookie this server accepts" % show(v)[:80])
    # both keys are random secrets before the first cookie is checked
    nk = "erbium::dns::CookieKeys::new"
    rk = "erbium::dns::CookieKeys::rotate"
    if nk in P.bodies and rk in P.bodies:
        b = P.bodies[nk]
        ctx.saw(b)
        Tb = terms(P, b)
        rets = [norm(Tb.call_term(tm, bb)) for bb, tm in b.calls() if tm["dest"] == (0,)]
        depth = 0
        for r in rets:
            d = 0
            x = r
            while x[0] == "call" and x[1] == rk:
                d += 1
                x = norm(x[2][0])
            depth = max(depth, d)
        ctx.check(depth >= 2, "R3", "both-cookie-keys-random-at-start:rotations=%d" % depth, ctx.where(b),
                  "a freshly built key pair holds default (all-zero) keys; it must be rotated twice so that neither the current nor the "
                  "previous key is a known constant — with one rotation the previous key is all zeroes until the first scheduled "
                  "rotation and anyone can forge a cookie that validates (rotations applied: %d)" % depth)
        rb = P.bodies[rk]
        ctx.saw(rb)
        Tr = terms(P, rb)
        okk = False
        for _, bb, idx, st in find_aggs(P, "dns::CookieKeys", [rb]):
            t = norm(Tr.rvalue(st["rv"], bb, idx))
            f = dict(t[3])
            prev = norm(f["previous"])
            okk = prev[0] == "field" and prev[2] == "current" and norm(prev[1])[0] == "param"
            filled = any((callee_name(tm) or "").endswith("try_fill_bytes") or (callee_name(tm) or "").endswith("fill_bytes") or (callee_name(tm) or "").endswith("::fill") for _, tm in rb.calls())
            okk = okk and filled
        ctx.check(okk, "R3", "rotate:previous<-current,current<-rng", ctx.where(rb), "")
    gk = "erbium::dns::CookieKeys::get_keys"
    if gk in P.bodies:
        b = body_or_coroutine(P, gk)
        ctx.saw(b)
        Tb = terms(P, b)
        okk = False
        for bb, idx, s in b.stmts():
            if s["p"] == (0,) and "rv" in s and s["rv"]["k"] == "agg" and s["rv"]["akind"] == "tuple":
                t = norm(Tb.rvalue(s["rv"], bb, idx))
                flds = [norm(x)[2] if norm(x)[0] == "field" else None for _, x in t[3]]
                okk = flds == ["current", "previous"]
        ctx.check(okk, "R3", "key-pair=(current,previous)", ctx.where(b), "")
