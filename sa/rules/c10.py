"""C10 — lease times bounded and consistent with the stored record (structural clauses)."""
from ..util import *
from ..prov import strip, norm, show, subterms
from ..cfg import cfg_of
from ..callgraph import callgraph
from ..poolmodel import *
from .c01 import _is_lease_result

EXPLANATION = ("provenance rules: the duration stored by the single lease write and the duration returned are the same value and "
               "that value is min(max(x, lower), upper) of two parameters; start/expiry are ts and ts + duration of one clock "
               "reading; the callers bind lower/upper to the policy's min/max with the documented defaults (300 s / 86400 s); "
               "every reply built by a handler carries option 51 taken from the lease the pool returned")
ASSUMPTIONS = ["not decided: renewal rhythms over time; numeric behaviour of the growth heuristics (only that the result is clamped)"]
EXPLANATION += "; also: C18's recorded-row, explicit-commit and explicit-transaction-pairing rules are evaluated here too"
EXTRA_CONFIGS = ["dhcp"]

OPTION_LEASETIME = 51


def _clamp_shape(t):
    """returns (x, lower, upper) when t is min(max(x, lower), upper) in any of the std spellings, else None"""
    t = norm(t)
    if t[0] != "call":
        return None
    n = t[1]
    if n in ("std::cmp::min", "std::cmp::Ord::min") or n.endswith("as std::cmp::Ord>::min"):
        a, b = t[2][0], t[2][1]
        for inner, upper in ((a, b), (b, a)):
            inner = norm(inner)
            if inner[0] == "call" and (inner[1] in ("std::cmp::max", "std::cmp::Ord::max") or inner[1].endswith("as std::cmp::Ord>::max")):
                x, lo = inner[2][0], inner[2][1]
                return x, lo, upper
    if n in ("std::cmp::max", "std::cmp::Ord::max") or n.endswith("as std::cmp::Ord>::max"):
        # max(min(x, upper), lower) is equivalent when lower <= upper; accept
        a, b = t[2][0], t[2][1]
        for inner, lower in ((a, b), (b, a)):
            inner = norm(inner)
            if inner[0] == "call" and (inner[1] in ("std::cmp::min", "std::cmp::Ord::min") or inner[1].endswith("as std::cmp::Ord>::min")):
                x, up = inner[2][0], inner[2][1]
                return x, lower, up
    if n == "std::cmp::Ord::clamp" or n.endswith("as std::cmp::Ord>::clamp"):
        return t[2][0], t[2][1], t[2][2]
    return None


def run(ctx):
    P = ctx.P
    cg = callgraph(P)
    M = PoolModel(P, cg)
    inserts = [s for s in M.lease_sql() if s.stmt["kind"] == "insert"]
    ctx.floor("R1", "lease write", len(inserts), 1)
    ctx.check(len(inserts) <= 1, "R1", "single-lease-writer", "", "exactly one statement inserts into `leases` (found %d: %s): a second writer "
              "is outside everything this property's rules say about the writer" % (len(inserts), ", ".join(x.body.id for x in inserts)))
    if len(inserts) != 1:
        return
    W = inserts[0]
    wbody = W.body
    ctx.saw(wbody)
    # what is advertised is what is recorded only if every successful return of the allocator went through the write
    from .c18 import _r1 as write_dominates_ok
    write_dominates_ok(ctx, W)
    ctx.include("C18", rules=("R11", "R12", "R9", "R2"))
    ctx.include("C01", rules=("R1", "R7", "R3"))      # what else may change or delete a recorded lease before t + L
    from . import c19
    c19.lease_bounds(ctx)
    _r5_reply_leaves_the_dispatcher_untouched(ctx)
    Tw = terms(P, wbody)
    where = ctx.where(wbody, W.term["sp"])
    cols = W.stmt["cols"]

    def bound(col):
        v = W.stmt["values"][cols.index(col)]
        return W.param(v[1]) if v[0] == "param" else None

    # the record of the assigned address is this write: it must replace whatever row exists for the address
    conflict = W.stmt["conflict"]
    full = conflict == "REPLACE"
    if conflict == "UPSERT" and W.stmt.get("upsert"):
        up = W.stmt["upsert"]
        full = up["target"] == ["address"] and {"clientid", "start", "expiry"} <= {c for c, _ in up["set"]} and up.get("where") is None
    ctx.check(full, "R1", "write-replaces-the-address-row" if full else "write-may-leave-old-row:%s" % conflict, where,
              "the server's record for the assigned address is the row this statement writes: on a conflict it must overwrite client id, "
              "start and expiry unconditionally, otherwise the advertised lease outlives (or differs from) the recorded one")
    start, expiry = bound("start"), bound("expiry")
    # returned lease duration
    ret_exp = []
    for bb, idx, s in wbody.stmts():
        if s["p"] == (0,) and "rv" in s:
            t = norm(Tw.rvalue(s["rv"], bb, idx))
            for alt in flatten_phi(t):
                if alt[0] == "agg" and alt[2] == "Ok":
                    for a2 in flatten_phi(alt[3][0][1]):
                        if a2[0] == "agg" and a2[1].endswith("dhcp::pool::Lease"):
                            ret_exp.append(norm(dict(a2[3])["expire"]))
                        else:
                            ret_exp.append(("field", a2, "expire"))
    # ---- R3: start = ts, expiry = ts + secs(D), one clock reading
    ok_start, why = is_now_seconds(start) if start else (False, "unbound")
    ctx.check(ok_start, "R3", "write:start=now", where, "start must be the current time in seconds (%s) %s" % (show(start)[:100] if start else None, why))
    D = None
    ts2 = None
    e = expiry
    if e is not None:
        while e[0] == "cast":
            e = e[3]
        if e[0] == "field" and e[2] == "0":
            e = e[1]
        if e[0] == "bin" and e[1] in ("Add", "AddWithOverflow"):
            for a, b in ((e[2], e[3]), (e[3], e[2])):
                okk, _ = is_now_seconds(a)
                b = norm(b)
                if okk and b[0] == "call" and b[1] == "std::time::Duration::as_secs":
                    ts2, D = a, norm(b[2][0])
    s0 = start
    while s0 is not None and s0[0] == "cast":
        s0 = s0[3]
    ctx.check(D is not None and ts2 == s0, "R3", "write:expiry=start+duration:same-clock-reading", where,
              "expiry must be <the same ts as start> + duration.as_secs(); expiry is %s" % (show(expiry)[:160] if expiry else None))
    # ---- R1: stored duration == returned duration == clamp(x, lower, upper)
    same = D is not None and ret_exp and all(r == D for r in ret_exp)
    ctx.check(same, "R1", "stored-duration=returned-duration", where,
              "the duration added to the stored expiry (%s) must be the duration of the returned lease (%s)" % (
                  show(D)[:100] if D else None, [show(r)[:100] for r in ret_exp]))
    cl = _clamp_shape(D) if D is not None else None
    ctx.check(cl is not None, "R1", "duration-is-clamped:min(max(x,lower),upper)", where,
              "the duration must be min(max(x, lower), upper); it is %s" % (show(D)[:160] if D else None))
    lo_p = up_p = None
    if cl is not None:
        x, lo, up = cl
        lo, up = norm(lo), norm(up)
        okp = lo[0] == "param" and up[0] == "param" and lo != up
        ctx.check(okp, "R1", "clamp-bounds-are-parameters", where, "lower=%s upper=%s" % (show(lo), show(up)))
        if okp:
            lo_p, up_p = lo[1], up[1]
    # ---- R4: callers bind lower <- min lease (default 300 s), upper <- max lease (default 86400 s)
    n = 0
    if lo_p is not None:
        for cb, bb, tm in cg.callers(wbody.id):
            n += 1
            ctx.saw(cb)
            T = terms(P, cb)
            tag = cb.id.split("::")[-1]
            w2 = ctx.where(cb, tm["sp"])
            for role, pl, fld, dflt in (("lower", lo_p, "minlease", 300), ("upper", up_p, "maxlease", 86400)):
                a = norm(T.at_term(tm["args"][pl - 1], bb))
                fields = {s[2] for s in subterms(a) if s[0] == "field"}
                consts = []
                for s in subterms(a):
                    if s[0] == "const" and isinstance(s[1], tuple) and s[1][0] == "named":
                        consts.append(_duration_const_secs(P, s[1][1]))
                okk = fld in fields and consts == [dflt] and a[0] == "call" and a[1].endswith("::unwrap_or")
                ctx.check(okk, "R4", "%s-bound<-%s.unwrap_or(%ds):%s" % (role, fld, dflt, tag), w2,
                          "the %s bound must be the policy's %s, defaulting to %d s; it is %s (defaults seen: %s)" % (
                              role, fld, dflt, show(a)[:140], consts))
    ctx.floor("R4", "allocation call sites", n, 2)

    # ---- R2: every reply carries option 51 from the returned lease
    n = 0
    for b, bb, idx, s in find_aggs(P, "dhcp::dhcppkt::Dhcp"):
        T = terms(P, b)
        t = T.rvalue(s["rv"], bb, idx)
        fields = dict(t[3])
        op = norm(fields["op"])
        if not (op[0] == "const" and len(op) > 2 and op[2].endswith("OP_BOOTREPLY")):
            continue
        n += 1
        ctx.saw(b)
        where = ctx.where(b, s["sp"])
        tag = b.id.split("::")[-1]
        opts = norm(fields["options"])
        sets = []  # (key const, value term) from the set_option chain, outermost last
        cur = opts
        for _ in range(40):
            if cur[0] == "call" and cur[1].endswith("to_options"):
                cur = norm(cur[2][0])
            elif cur[0] == "call" and cur[1].endswith("::set_option"):
                k = norm(cur[2][1])
                sets.append((k[1] if k[0] == "const" else None, norm(cur[2][2])))
                cur = norm(cur[2][0])
            else:
                break
        lt = [v for k, v in sets if k == OPTION_LEASETIME]
        good = False
        if lt:
            v = lt[0]  # outermost (last applied)
            # the value *is* lease.expire.as_secs() (narrowed) of the lease the pool returned: not one of several alternatives, not
            # something computed from it and from what the client suggested
            x = v
            for _ in range(6):
                if x[0] in ("ref", "deref"):
                    x = norm(x[1])
                elif x[0] == "cast":
                    x = norm(x[3])
                else:
                    break
            if x[0] == "call" and str(x[1]).endswith("Duration::as_secs") and len(x[2]) == 1:
                src = norm(x[2][0])
                while src[0] in ("ref", "deref"):
                    src = norm(src[1])
                if src[0] == "field" and src[2] == "expire":
                    src = norm(src[1])
                    while src[0] in ("ref", "deref"):
                        src = norm(src[1])
                    if src[0] == "payload" and norm(src[2])[0] == "call" and norm(src[2])[1] == wbody.id:
                        good = True
        ctx.check(good, "R2", "reply-carries-option51-from-lease:%s" % tag, where,
                  "the reply's options must end with set_option(51, lease.expire.as_secs()) of the lease returned by the pool; "
                  "options set after policy application: %s" % [k for k, _ in sets])
        yi = norm(fields["yiaddr"])
        good = yi[0] == "field" and yi[2] == "ip" and yi[1][0] == "payload" and yi[1][2][0] == "call" and yi[1][2][1] == wbody.id
        ctx.check(good, "R2", "reply-yiaddr=lease.ip:%s" % tag, where, "yiaddr must be the address of the lease the pool returned (is %s)" % show(yi)[:120])
    ctx.floor("R2", "reply constructions", n, 2)


def _duration_const_secs(P, name):
    """value in seconds of a `const X: Duration = Duration::from_secs(n)`"""
    b = P.bodies.get(name)
    if b is None:
        return None
    T = terms(P, b)
    for bb, tm in b.calls():
        if tm["dest"] == (0,) and (callee_name(tm) or "").endswith("Duration::from_secs"):
            a = norm(T.call_args(bb)[0])
            if a[0] == "const":
                return a[1]
    return None


def _r5_reply_leaves_the_dispatcher_untouched(ctx):
    """the lease time a client is told is the one in the reply the handler built from the recorded lease: between the handler and
    the caller of the dispatcher nothing edits the reply (a "fit to the client's size" pass that drops options drops option 51 first)"""
    P = ctx.P
    from .c13 import _handlers
    cg = callgraph(P)
    hs, top = _handlers(P, cg)
    if len(top) != 1:
        return          # C13.R1 reports an ambiguous dispatcher
    disp = P.bodies[top[0]]
    ctx.saw(disp)
    T = terms(P, disp)
    rets = [norm(T.rvalue(st["rv"], bb, idx)) for bb, idx, st in disp.stmts() if st["p"] == (0,) and "rv" in st]
    rets += [norm(("call", callee_name(tm) or "(call through a function pointer)", tuple(T.call_args(bb)), bb)) for bb, tm in disp.calls() if tuple(tm["dest"]) == (0,)]
    n = 0
    for r in rets:
        if r[0] == "agg" and r[2] == "Err":
            continue
        if r[0] == "call" and str(r[1]).endswith("::from_residual"):
            continue            # `?`: an error on its way out
        n += 1
        # (a call through a pointer: C13.R1 checks that the pointer is one of the handlers)
        direct = r[0] == "call" and (r[1] in hs or r[1] == "(call through a function pointer)" or isinstance(r[1], tuple))
        ctx.check(direct, "R5", "reply-returned-as-the-handler-built-it", ctx.where(disp),
                  "the dispatcher must return the handler's result itself (is %s)" % show(r)[:120])
    ctx.floor("R5", "successful returns of the dispatcher", n, 1)
