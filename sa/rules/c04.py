"""C04 — every DNS response is well-formed and within the transport's size (structural clauses)."""
from ..util import *
from ..prov import strip, norm, show, subterms
from ..cfg import cfg_of
from ..callgraph import callgraph
from ..spec import tables
from .. import dnsflags

EXPLANATION = ("transport->serialiser binding, layout-agreement and loop-shape rules: the bytes handed to the UDP socket come from "
               "the size-limited serialiser with limit max(advertised size, 512); the bytes written to the TCP stream come from "
               "the serialiser with the constant limit 65535 (complete whenever it fits, and the 16-bit length prefix cannot "
               "wrap); header fields are written at the RFC 1035 offsets and every later patch of the buffer covers exactly one "
               "header field with a replacement of the same width and the counter of the same section; after each record is "
               "pushed `len > limit` leads to truncate(saved offset), sets the flag and ends all section loops, otherwise the "
               "section's counter is incremented; TC is OR-ed into octet 2 exactly under the flag; the advertised size is "
               "max(OPT class or 512, 512)")
ASSUMPTIONS = ["not decided: that every emitted byte string re-parses (only layout / patch / count structure is checked)"]
EXPLANATION += "; also: flag-free formulations of skipped-after-truncation / TC / count patches are accepted as alternatives; C03's truncated-reply clause is evaluated here too"
EXTRA_CONFIGS = ["dns"]

SWS_SIG = (["DNSPkt", "usize"], "Vec<u8>")


def _effective_size(P, body, call_term, sws, depth=0):
    """size limit (a term in `body`'s vocabulary) that a serialiser-family call imposes, following small wrappers"""
    t = norm(call_term)
    if t[0] != "call" or depth > 4:
        return None
    if t[1] == sws:
        return norm(t[2][1])
    if t[1] in P.bodies:
        cb = P.bodies[t[1]]
        Tc = terms(P, cb)
        rets = [norm(Tc.call_term(tm, bb)) for bb, tm in cb.calls() if tm["dest"] == (0,)]
        if len(rets) == 1:
            inner = _effective_size(P, cb, rets[0], sws, depth + 1)
            if inner is not None:
                mapping = {i + 1: norm(a) for i, a in enumerate(t[2])}
                return norm(subst_params(inner, mapping))
    return None


def _family(P, cg, sws):
    """functions returning Vec<u8> that reach the size-limited serialiser (the serialiser family)"""
    fam = {sws}
    for fid, sig in P.sigs.items():
        if fid in P.bodies and sig_output(sig).endswith("Vec<u8>") and sws in cg.reachable([fid]) and "dns::" in fid and len(sig["inputs"]) <= 2:
            if sig["inputs"] and ty_ends(sig["inputs"][0], "DNSPkt"):
                fam.add(fid)
    return fam


def run(ctx):
    P = ctx.P
    # shared clause: a truncated upstream reply is never relayed as the result (it would reach TCP clients with TC set)
    if not getattr(ctx, "_included_c03", False) and ctx.prop == "C04":
        ctx.include("C03", rules=("R9", "R1"))
    ctx.include("C14", rules=("R3", "R4"))      # a pointer that cannot be expressed in 14 bits, or points forward, is not well-formed
    ctx.include("C14", rules=("R5",))           # nor is a name longer than 255 octets, which is relayed if the decoder lets it in
    cg = callgraph(P)
    cands = [f for f in fn_with_sig(P, *SWS_SIG) if f in P.bodies and "serialise" in f]
    ctx.floor("anchor", "size-limited serialiser", len(cands), 1)
    if not cands:
        return
    sws = [c for c in cands if c.endswith("serialise_with_size")] or cands
    sws = sws[0]
    fam = _family(P, cg, sws)
    _r1(ctx, cg, sws, fam)
    _layout(ctx, sws)
    _r5(ctx, cg, sws, fam)


def _r1(ctx, cg, sws, fam):
    P = ctx.P
    n_udp = n_tcp = 0
    for b in P.bodies.values():
        if "dns::DnsListenerHandler" not in b.id:
            continue
        T = terms(P, b)
        udp = [(bb, tm) for bb, tm in b.calls() if (callee_name(tm) or "").endswith("UdpSocket::send_msg")]
        tcp = [(bb, tm) for bb, tm in b.calls() if "AsyncWriteExt" in (callee_name(tm) or "") and (callee_name(tm) or "").rsplit("::", 1)[-1] in ("write", "write_all")]
        if not udp and not tcp:
            continue
        ctx.saw(b)
        sers = [(bb, tm) for bb, tm in b.calls() if callee_name(tm) in fam]
        where = ctx.where(b)
        kind = "udp" if udp else "tcp"
        if len(sers) != 1:
            ctx.bad("R1", "%s:exactly-one-serialisation" % kind, where, "expected exactly one serialisation of the reply in the task, found %d" % len(sers))
            continue
        sbb, stm = sers[0]
        size = _effective_size(P, b, T.call_term(stm, sbb), sws)
        where = ctx.where(b, stm["sp"])
        if udp:
            n_udp += 1
            # the bytes sent are the serialised bytes
            sent = norm(T.call_args(udp[0][0])[1])
            ctx.check(any(y[0] == "call" and y[1] == callee_name(stm) and y[3] == sbb for y in subterms(sent)), "R1", "udp:sent-bytes<-serialiser", where, "")
            good = False
            floor = None
            if size is not None and size[0] == "call" and str(size[1]).endswith("cmp::max"):
                xs = [norm(x) for x in size[2]]
                cs = [x[1] for x in xs if x[0] == "const"]
                vs = [x for x in xs if x[0] != "const"]
                floor = cs[0] if cs else None
                adv = bool(vs) and any(y[0] == "field" and y[2] == "bufsize" and norm(y[1])[0] == "field" and norm(y[1])[2] == "in_query" for y in subterms(vs[0])) and \
                    not any(y[0] == "bin" for y in subterms(vs[0]))
                good = adv and floor == tables.DNS_MIN_UDP
            ctx.check(good, "R1", "udp:limit=max(advertised,512)" if good else "udp:limit=%s" % _short(size), where,
                      "a UDP response must be serialised with limit max(query's advertised payload size, 512); the limit is %s" % (show(size)[:120] if size else "not a serialiser-family call"))
        else:
            n_tcp += 1
            c = size[1] if size is not None and size[0] == "const" else None
            ctx.check(c is not None and c >= 65535, "R1", "tcp:limit>=65535" if (c or 0) >= 65535 else "tcp:limit=%s" % _short(size), where,
                      "a TCP response must be complete whenever it fits in 65535 octets: the limit must be the constant 65535, not %s" % (show(size)[:120] if size else None))
            ctx.check(c is not None and c <= 65535, "R6", "tcp:limit<=65535(length-prefix-fits-u16)" if (c or 1 << 20) <= 65535 else "tcp:length-prefix-can-wrap:limit=%s" % _short(size), where,
                      "the 2-octet length prefix is `len as u16`: the serialiser limit must not exceed 65535 (is %s)" % (show(size)[:60] if size else None))
            # the length prefix is the length of the serialised bytes
            okp = False
            for bb, tm in b.calls():
                if (callee_name(tm) or "").endswith("u16>::to_be_bytes") or (callee_name(tm) or "").endswith("::to_be_bytes"):
                    a = norm(T.call_args(bb)[0])
                    if any(y[0] == "call" and str(y[1]).endswith("::len") and any(z[0] == "call" and z[1] == callee_name(stm) for z in subterms(y)) for y in subterms(a)):
                        okp = True
            ctx.check(okp, "R1", "tcp:length-prefix=len(serialised)", where, "")
    ctx.floor("R1", "UDP reply tasks", n_udp, 1)
    ctx.floor("R1", "TCP reply tasks", n_tcp, 1)


def _short(t):
    if t is None:
        return "unknown"
    if t[0] == "const":
        return str(t[1])
    if t[0] == "call":
        return str(t[1]).rsplit("::", 1)[-1] + "(..)"
    return t[0]


def _layout(ctx, sws):
    P = ctx.P
    b = P.bodies[sws]
    ctx.saw(b)
    T = terms(P, b)
    cfg = cfg_of(b)
    # the output buffer: the Vec<u8> local that is returned
    ret = None
    for bb, idx, s in b.stmts():
        if s["p"] == (0,) and "rv" in s and s["rv"]["k"] == "use" and op_place(s["rv"]["op"]):
            ret = op_place(s["rv"]["op"])
    if ret is None:
        ctx.bad("R2", "buffer-not-found", ctx.where(b), "cannot identify the output buffer")
        return

    def on_ret(tm, bb, k=0):
        p = borrowed_place(T, tm["args"][k], bb, len(b.blocks[bb]["stmts"]))
        return p == ret
    # ---- header writes in order
    writes = []
    first_name = None
    for bb, tm in b.calls():
        n = callee_name(tm) or ""
        if bb not in cfg.reach or not tm["args"] or not on_ret(tm, bb):
            continue
        if n.endswith("::push_u16"):
            writes.append((bb, 2, norm(T.call_args(bb)[1]), tm))
        elif n.endswith("Vec::<T, A>::push"):
            writes.append((bb, 1, norm(T.call_args(bb)[1]), tm))
        elif n.endswith("push_compressed_domain") or n.endswith("push_rr"):
            writes.append((bb, None, None, tm))
    snap = list(writes)
    writes = sorted(snap, key=lambda w: sum(1 for x in snap if cfg.dominates(x[0], w[0])))
    off = 0
    header = []
    for bb, w, v, tm in writes:
        if w is None:
            break
        header.append((off, w, v, tm))
        off += w
    got = {o: (w, v) for o, w, v, tm in header}
    ctx.check(off == 12, "R2", "header-is-12-octets", ctx.where(b), "fixed-width writes before the question: %d octets" % off)

    def mentions_len_of(v, fld):
        return v is not None and any(y[0] == "call" and str(y[1]).endswith("::len") for y in subterms(v)) and any(
            y[0] == "field" and y[2] == fld for y in subterms(v))
    exp = {0: ("id", lambda v: v[0] == "field" and v[2] == "qid"), 4: ("qdcount", lambda v: is_const(v, 1)),
           6: ("ancount", lambda v: mentions_len_of(v, "answer")), 8: ("nscount", lambda v: mentions_len_of(v, "nameserver")),
           10: ("arcount", lambda v: mentions_len_of(v, "additional"))}
    for o, (name, pred) in exp.items():
        w, v = got.get(o, (None, None))
        ctx.check(w == 2 and v is not None and pred(v), "R2", "header:%s@%d" % (name, o), ctx.where(b),
                  "RFC 1035 4.1.1: %s is the 16-bit field at offset %d (found width %s value %s)" % (name, o, w, show(v)[:60] if v else None))
    ctx.check(got.get(2, (None,))[0] == 1 and got.get(3, (None,))[0] == 1, "R2", "header:flags@2,3", ctx.where(b), "")

    # locals joined by plain copies stand for one variable (`let (n, cut) = helper(..)` leaves such chains behind once the helper
    # has been inlined and its result tuple split)
    parent = {}

    def cls(x):
        while parent.get(x, x) != x:
            parent[x] = parent.get(parent[x], parent[x])
            x = parent[x]
        return x
    for _bb, _i, _st in b.stmts():
        _rv = _st.get("rv")
        if _rv and _rv["k"] == "use" and len(_st["p"]) == 1 and op_place(_rv["op"]) and len(op_place(_rv["op"])) == 1:
            x_, y_ = cls(_st["p"][0]), cls(op_place(_rv["op"])[0])
            if x_ != y_ and b.local_ty(x_) == b.local_ty(y_) and b.local_ty(x_) in ("bool", "u16"):
                parent[x_] = y_
    # ---- section loops
    loops = [cfg.natural_loop(e) for e in cfg.back_edges()]
    size_param = 2
    sections = []   # (section field, counter local, loop)
    te_of = {}      # push call block -> the edges taken when its record did not fit
    trunc_local = None
    rr_calls = [(bb, tm) for bb, tm in b.calls() if (callee_name(tm) or "").endswith("::push_rr") and on_ret(tm, bb)]
    n_ok = 0
    for bb, tm in rr_calls:
        mine = [l for l in loops if bb in l]
        if not mine:
            continue
        loop = min(mine, key=len)
        # which vector is iterated
        sect = None
        rr = norm(T.call_args(bb)[1])
        for y in subterms(rr):
            if y[0] == "field" and y[2] in ("answer", "nameserver", "additional"):
                sect = y[2]
        tag = sect or "section"
        # saved offset: Vec::len(ret) before the push within the loop
        saved = [b2 for b2, t2 in b.calls() if b2 in loop and (callee_name(t2) or "").endswith("Vec::<T, A>::len") and on_ret(t2, b2) and cfg.dominates(b2, bb)]
        # guard after the push: Gt(len(ret), size [+k])
        guard = None
        for sbb, stm in b.terms():
            if stm["k"] == "switch" and sbb in loop and cfg.dominates(bb, sbb):
                st = single_def_stmt(T, stm["discr"], sbb, len(b.blocks[sbb]["stmts"]))
                if st and st["rv"]["k"] == "bin" and st["rv"]["op"] in ("Gt", "Ge", "Lt", "Le"):
                    guard = (sbb, st)
                    break
        where = ctx.where(b, tm["sp"])
        if guard is None or not saved:
            ctx.bad("R3", "truncation-guard:%s:not-found" % tag, where, "after pushing a record the length must be compared with the limit (guard %s, saved offset %s)" % (bool(guard), bool(saved)))
            continue
        sbb, st = guard
        t = norm(T.rvalue(st["rv"], st["_at"][0], st["_at"][1]))
        op = t[1]
        lhs, rhs = t[2], t[3]
        if op in ("Lt", "Le"):
            lhs, rhs = rhs, lhs
            op = {"Lt": "Gt", "Le": "Ge"}[op]
        from ..affine import affine
        lim = affine(rhs, lambda x: x == ("param", size_param))
        len_ok = lhs[0] == "call" and str(lhs[1]).endswith("Vec::<T, A>::len")
        # exactly "does not fit": len > size (or len >= size + 1).  A stricter test never sends too much but marks a reply that fits
        # exactly as truncated — TC is set iff something was left out
        lim_ok = lim is not None and lim[0] == {("param", size_param): 1} and (lim[1] == 0 if op == "Gt" else lim[1] == 1)
        ctx.check(len_ok and lim_ok, "R3", "truncation-guard:%s:len>limit" % tag, where,
                  "the guard must be exactly len(buffer) > size: %s %s %s" % (show(lhs)[:40], op, show(rhs)[:40]))
        te = [(sbb, tgt) for v, tgt in cfg.switch_edges(sbb) if v != 0]
        fe = [(sbb, tgt) for v, tgt in cfg.switch_edges(sbb) if v == 0]
        # true edge: truncate(ret, saved) and flag = true and leaves the loop
        tr = [(b2, t2) for b2, t2 in b.calls() if (callee_name(t2) or "").endswith("Vec::<T, A>::truncate") and on_ret(t2, b2) and edge_dominated(cfg, te, b2)]
        tr_ok = False
        for b2, t2 in tr:
            a = norm(T.call_args(b2)[1])
            tr_ok = a[0] == "call" and str(a[1]).endswith("Vec::<T, A>::len") and a[3] in saved
        flags = [(b2, s2) for b2, i2, s2 in b.stmts() if "rv" in s2 and s2["rv"]["k"] == "use" and s2["rv"]["op"].get("k", {}).get("bool") is True and
                 len(s2["p"]) == 1 and edge_dominated(cfg, te, b2)]
        if flags:
            trunc_local = cls(flags[0][1]["p"][0])
        leaves = all(_leaves_loop(cfg, tgt, loop) for _, tgt in te)
        ctx.check(tr_ok, "R3", "truncation:%s:truncate-to-saved-offset" % tag, where, "on overflow the buffer must be cut back to the length saved before this record was pushed")
        ctx.check(bool(flags), "R3", "truncation:%s:sets-flag" % tag, where, "")
        ctx.check(leaves, "R3", "truncation:%s:ends-the-loop" % tag, where, "")
        # false edge: counter increment
        cnt = None
        for b2, i2, s2 in b.stmts():
            if "rv" in s2 and s2["rv"]["k"] == "bin" and s2["rv"]["op"] == "AddWithOverflow" and edge_dominated(cfg, fe, b2) and b2 in loop:
                pl = op_place(s2["rv"]["a"])
                if pl and len(pl) == 1 and b.local_ty(pl[0]) == "u16" and s2["rv"]["b"].get("k", {}).get("int") == "1":
                    cnt = cls(pl[0])
        ctx.check(cnt is not None, "R3", "truncation:%s:counts-kept-records" % tag, where, "a record that fits increments the section's counter")
        sections.append((sect, cnt, loop, bb))
        te_of[bb] = list(te)
        n_ok += 1
    ctx.floor("R3", "section loops", n_ok, 3)
    # later loops are skipped once truncated
    if trunc_local is not None:
        def mtr(d):
            return False
        guarded = 0
        order = sorted(sections, key=lambda s: sum(1 for x in sections if cfg.dominates(x[3], s[3])))
        for sect, cnt, loop, bb in order[1:]:
            okk = False
            for sbb, stm in b.terms():
                if stm["k"] == "switch" and op_place(stm["discr"]) is not None:
                    st = single_def_stmt(T, stm["discr"], sbb, len(b.blocks[sbb]["stmts"]))
                    if st and st["rv"]["k"] == "use" and op_place(st["rv"]["op"]) and len(op_place(st["rv"]["op"])) == 1 and cls(op_place(st["rv"]["op"])[0]) == trunc_local:
                        fe = [(sbb, tgt) for v, tgt in cfg.switch_edges(sbb) if v == 0]
                        if edge_dominated(cfg, fe, bb):
                            okk = True
            if not okk:
                # the same thing without a flag: from the point where an earlier section dropped a record, this section's
                # push is out of reach
                earlier = [x for x in order if x[3] != bb and bb in cfg.reachable_from(x[3]) and x[3] not in cfg.reachable_from(bb)]
                okk = bool(earlier) and all(te_of.get(x[3]) and all(bb not in cfg.reachable_from(tgt) for _, tgt in te_of[x[3]]) for x in earlier)
            ctx.check(okk, "R3", "truncation:%s:skipped-after-truncation" % (sect or "section"), ctx.where(b), "once a record was dropped no later section may add records")
    # ---- R4: TC bit and R2: patches, under the flag
    flag_true = []
    if trunc_local is not None:
        for sbb, stm in b.terms():
            if stm["k"] == "switch" and op_place(stm["discr"]) is not None:
                st = single_def_stmt(T, stm["discr"], sbb, len(b.blocks[sbb]["stmts"]))
                if st and st["rv"]["k"] == "use" and op_place(st["rv"]["op"]) and len(op_place(st["rv"]["op"])) == 1 and cls(op_place(st["rv"]["op"])[0]) == trunc_local:
                    # the final test: dominated by all section loops' exits -> choose the one no loop block dominates... take all
                    flag_true.extend((sbb, tgt) for v, tgt in cfg.switch_edges(sbb) if v != 0)
    tc_ok = False
    all_te = [e for es in te_of.values() for e in es]
    for bb, tm in b.calls():
        n = callee_name(tm) or ""
        if n.endswith("IndexMut<I>>::index_mut") and on_ret(tm, bb):
            a = norm(T.call_args(bb)[1])
            if is_const(a, 2):
                # *_p = BitOr(*_p, 0x02) in the successor
                nb = tm["t"]
                for s2 in b.blocks[nb]["stmts"] if nb is not None else []:
                    if "rv" in s2 and s2["rv"]["k"] == "bin" and s2["rv"]["op"] == "BitOr" and s2["rv"]["b"].get("k", {}).get("int") == str(tables.DNS_FLAG1["tc"]):
                        tc_ok = edge_dominated(cfg, flag_true, bb) and not _later_section_flag_only(cfg, flag_true, bb, sections)
                        if not tc_ok and all_te:
                            # without a flag: the patch is out of reach unless a record was dropped, and cannot be avoided once one was
                            rets = set(cfg.return_blocks())
                            tc_ok = bb not in cfg.reachable_avoiding_edges(0, set(all_te) | set(flag_true)) and \
                                all(not (rets & cfg.reachable_from(tgt, blocked=(bb,))) for _, tgt in all_te)
    ctx.check(tc_ok, "R4", "tc-bit-set-under-truncation-flag", ctx.where(b), "TC (0x02 of octet 2) must be OR-ed into the header exactly when records were dropped")
    # patches
    counter_of = {s[0]: s[1] for s in sections}
    want_off = {"answer": 6, "nameserver": 8, "additional": 10}
    patches = []
    for bb, tm in b.calls():
        n = callee_name(tm) or ""
        if n.endswith("Vec::<T, A>::splice") and on_ret(tm, bb):
            r = norm(T.call_args(bb)[1])
            src = norm(T.call_args(bb)[2])
            if r[0] == "agg" and r[1].endswith("ops::Range"):
                f = dict(r[3])
                patches.append((bb, tm, norm(f["start"]), norm(f["end"]), src, "splice"))
        if n.endswith("copy_from_slice"):
            dst = norm(T.call_args(bb)[0])
            src = norm(T.call_args(bb)[1])
            for y in subterms(dst):
                if y[0] == "call" and str(y[1]).endswith("index_mut") and len(y[2]) == 2:
                    r = norm(y[2][1])
                    if r[0] == "agg" and r[1].endswith("ops::Range"):
                        f = dict(r[3])
                        # receiver must be the output buffer
                        tmi = b.blocks[y[3]]["term"]
                        if on_ret(tmi, y[3]):
                            patches.append((bb, tm, norm(f["start"]), norm(f["end"]), src, "copy_from_slice"))
    n = 0
    for bb, tm, st, en, src, how in patches:
        n += 1
        where = ctx.where(b, tm["sp"])
        a = st[1] if st[0] == "const" else None
        e = en[1] if en[0] == "const" else None
        # which counter supplies the bytes
        cl = None
        for y in subterms(src):
            if y[0] == "call" and str(y[1]).endswith("to_be_bytes"):
                pass
        cl = _counter_local_in(T, b, tm, bb)
        cl = cls(cl) if cl is not None else None
        sect = [s for s, c in counter_of.items() if c is not None and c == cl]
        sect = sect[0] if sect else None
        width_ok = a is not None and e is not None and e - a == 2
        ctx.check(width_ok, "R2", "patch@%s:width=%s" % (a, (e - a) if (a is not None and e is not None) else "?"), where,
                  "a 2-octet count must replace exactly 2 octets; %s replaces [%s..%s) with the 2 bytes of a u16: the message %s" % (
                      how, a, e, "grows by one octet per patch and every later field shifts" if (a is not None and e is not None and e - a == 1) else "is corrupted"))
        ctx.check(sect is not None and want_off.get(sect) == a, "R2", "patch@%s<-count(%s)" % (a, sect), where,
                  "the count of section `%s` belongs at offset %s" % (sect, want_off.get(sect)))
        ctx.check(edge_dominated(cfg, flag_true, bb) or (bool(all_te) and bb not in cfg.reachable_avoiding_edges(0, set(all_te) | set(flag_true))), "R2",
                  "patch@%s:only-when-truncated" % a, where, "")
    ctx.floor("R2", "header count patches", n, 3)


def _later_section_flag_only(cfg, flag_true, bb, sections):
    return False


def _counter_local_in(T, b, tm, bb):
    """the u16 local whose to_be_bytes feeds this patch: search backwards from the patch call for to_be_bytes(copy of counter)"""
    # walk blocks that dominate bb, nearest first
    cfg = cfg_of(b)
    cands = []
    for b2, t2 in b.calls():
        if (callee_name(t2) or "").endswith("::to_be_bytes") and cfg.dominates(b2, bb):
            cands.append((b2, t2))
    snapshot = list(cands)
    cands = sorted(snapshot, key=lambda x: -sum(1 for y in snapshot if cfg.dominates(y[0], x[0])))
    for b2, t2 in cands:
        st = single_def_stmt(T, t2["args"][0], b2, len(b.blocks[b2]["stmts"]))
        if st and st["rv"]["k"] == "use" and op_place(st["rv"]["op"]) and len(op_place(st["rv"]["op"])) == 1:
            return op_place(st["rv"]["op"])[0]
        pl = op_place(t2["args"][0])
        if pl and len(pl) == 1:
            return pl[0]
    return None


def _leaves_loop(cfg, tgt, loop):
    """from tgt no path re-enters the loop header region before leaving: tgt is outside the loop, or every path from it exits"""
    if tgt not in loop:
        return True
    # inside the loop: must not reach a back edge source that returns to the header
    seen = set()
    todo = [tgt]
    heads = {h for (u, h) in cfg.back_edges() if h in loop and u in loop}
    while todo:
        x = todo.pop()
        if x in seen:
            continue
        seen.add(x)
        if x in heads:
            return False
        for s in cfg.succ[x]:
            if s in loop:
                todo.append(s)
    return True


def _r5(ctx, cg, sws, fam):
    P = ctx.P
    tab, info = dnsflags.decode_table(P)
    if tab is None:
        ctx.bad("R5", "decoder-not-found", "", "")
        return
    db, sp = info
    ctx.saw(db)
    bs = tab.get("bufsize", {})
    ctx.check(bs.get("floor") == 512 and bs.get("default") == 512 and bs.get("from_opt_class"), "R5", "advertised-size=max(opt.class|512,512)", ctx.where(db, sp),
              "the advertised payload size is the OPT class (512 without OPT), never below 512: %s" % bs)
    # the serialiser refuses limits below 512 only by assertion: every family wrapper floors at 512 or passes a constant >= 512
    for fid in sorted(fam - {sws}):
        b = P.bodies[fid]
        T = terms(P, b)
        for bb, tm in b.calls():
            if callee_name(tm) == sws:
                a = norm(T.call_args(bb)[1])
                okk = (a[0] == "const" and a[1] >= 512) or (a[0] == "call" and str(a[1]).endswith("cmp::max") and any(is_const(norm(x), 512) for x in a[2]))
                ctx.check(okk, "R5", "limit-floor-512:%s" % fid.split("::")[-1], ctx.where(b, tm["sp"]),
                          "limits below 512 hit the serialiser's assertion and limits floored higher overrun small clients (is %s)" % show(a)[:80])
