"""C17 — router advertisements carry the configured values in RFC format (structural clauses)."""
from ..util import *
from ..prov import strip, norm, show, subterms
from ..cfg import cfg_of
from ..callgraph import callgraph
from ..spec import tables
from .c14 import _arm_blocks, _dom_sorted

EXPLANATION = ("provenance, clamp-before-cast, layout and table rules against RFC 4861 / 8106 / 8781 / 8910: every field of the "
               "advertisement and of each prefix comes from the same-named configuration field (top-level settings as fall-backs); "
               "every narrowing conversion of a lifetime/timer into its wire field is clamped to the field's maximum; the header "
               "and the fixed-size options (MTU, Prefix-Info, RDNSS header, PREF64) are written with the RFC types, widths, length "
               "codes and flag bits, reserved fields are literal zeros; the PREF64 prefix-length code equals the RFC 8781 table for "
               "the six legal lengths in the encoder and the decoder; the prefix octets written are masked to the prefix length")
ASSUMPTIONS = ["not decided: rfc_decode(serialise(build(c))) = expected(c) end to end; variable-length options (DNSSL, captive portal) "
               "are checked for their padding loops only",
               "the SourceLLAddr length is ceil(len/8) instead of ceil((len+2)/8): right only for 6-octet addresses (observed, DESIGN.md 7.1)"]
EXPLANATION += "; also: tri-state settings go through from_option; appends to a length-counted option buffer stand under buffer + addition <= 254*8; the loader's narrowing casts (C19.V6) are evaluated here too"
EXTRA_CONFIGS = ["radv"]

WIDTH = {"u8": 1, "u16": 2, "u32": 4, "&std::net::Ipv6Addr": 16}


def _cval(v):
    v = norm(v)
    if v[0] == "const" and isinstance(v[1], int) and not isinstance(v[1], bool):
        return v[1]
    if v[0] == "field" and norm(v[1])[0] == "const" and isinstance(norm(v[1])[1], int):
        return norm(v[1])[1]
    return None


_WTY = {1: "u8", 2: "u16", 4: "u32"}


def _regroup(w, widths):
    """re-chunk a sequence of writes (type, value, ...) to the expected widths where only constants have to be merged or split:
    `0_u8, 0_u8` and `0_u16` put the same octets on the wire (big-endian), so the layout rules must not tell them apart"""
    out, i = [], 0
    w = list(w)
    for want in widths:
        if i >= len(w):
            break
        have = WIDTH.get(w[i][0])
        if have == want or have is None or want not in _WTY:
            out.append(w[i])
            i += 1
            continue
        if have < want:
            # merge following constants
            tot, val, j = 0, 0, i
            while j < len(w) and tot < want and WIDTH.get(w[j][0]) is not None and _cval(w[j][1]) is not None:
                tot += WIDTH[w[j][0]]
                val = (val << (8 * WIDTH[w[j][0]])) | _cval(w[j][1])
                j += 1
            if tot == want:
                out.append((_WTY[want], ("const", val)) + tuple(w[i][2:]))
                i = j
                continue
            out.append(w[i])
            i += 1
            continue
        # have > want: split a constant
        c = _cval(w[i][1])
        if c is not None and have in _WTY:
            rest = have - want
            out.append((_WTY[want], ("const", c >> (8 * rest))) + tuple(w[i][2:]))
            w[i] = (_WTY.get(rest, "?"), ("const", c & ((1 << (8 * rest)) - 1))) + tuple(w[i][2:])
            if rest not in _WTY:
                i += 1
            continue
        out.append(w[i])
        i += 1
    out.extend(w[i:])
    return out


def _writes(P, b, T, cfg, blocks=None):
    out = []
    for bb, tm in b.calls():
        if blocks is not None and bb not in blocks:
            continue
        n = callee_name(tm) or ""
        if n.endswith("radv::icmppkt::Serialise::serialise"):
            g = (tm["callee"].get("gargs") or ["?"])[-1]
            v = norm(T.call_args(bb)[1])
            recv = borrowed_place(T, tm["args"][0], bb, len(b.blocks[bb]["stmts"]))
            out.append((bb, g, v, recv, tm))
    return _dom_sorted(cfg, out)


REORDERERS = ("sort", "sort_unstable", "sort_by", "sort_by_key", "sort_unstable_by", "sort_unstable_by_key", "sort_by_cached_key", "reverse",
              "dedup", "dedup_by", "dedup_by_key", "retain", "retain_mut", "truncate", "swap", "rotate_left", "rotate_right", "pop", "remove",
              "swap_remove", "drain", "clear", "split_off", "rev", "sorted", "unique")


def _r11_lists_as_configured(ctx):
    """R11 what is advertised as a list (recursive DNS servers, search domains, prefixes) is the configured list, element for element
    and in order: the function that builds the advertisement neither sorts, reverses, de-duplicates nor shortens a list, nor collects
    one through a set. Hosts try RDNSS addresses in the order given."""
    P = ctx.P
    roots = [f for f in P.bodies if f.endswith("radv::RaAdvService::build_announcement_pure")]
    if ctx.config in ("default", "radv"):
        ctx.floor("R11", "advertisement builder", len(roots), 1)
    for r in roots:
        bad = []
        for x in P.family(r):
            ctx.saw(x)
            for bb, tm in x.calls():
                nme = callee_name(tm) or ""
                last = nme.rsplit("::", 1)[-1]
                if last in REORDERERS and ("Vec" in nme or "vec::" in nme or "slice" in nme or "Iterator" in nme or "itertools" in nme.lower()):
                    bad.append("%s at %s" % (last, P.rel(tm["sp"])))
                if last == "collect" and any(("BTreeSet" in str(g) or "HashSet" in str(g)) for g in (tm["callee"].get("gargs") or [])):
                    bad.append("collect into a set at %s" % P.rel(tm["sp"]))
        ctx.check(not bad, "R11", "advertised-lists-are-the-configured-lists-in-order", ctx.where(P.bodies[r]),
                  "the advertisement builder reorders or shortens a list: %s" % (bad or "-"))


def _r13_prefix_defaults(ctx):
    """R13 a prefix entry that leaves a setting out gets RFC 4861 6.2.1's default whatever else the entry says: on-link and autonomous
    default to true (constants — not something computed from the prefix), valid and preferred lifetimes to 2592000 s and 604800 s."""
    P = ctx.P
    n = 0
    for b in P.bodies.values():
        if not b.id.endswith("radv::config::parse_prefix"):
            continue
        T = terms(P, b)
        for _, bb, idx, st in find_aggs(P, "radv::config::Prefix", [b]):
            t = norm(T.rvalue(st["rv"], bb, idx))
            f = dict(t[3])
            for name in ("onlink", "autonomous"):
                if name not in f:
                    continue
                n += 1
                ctx.saw(b)
                v = norm(f[name])
                okv = v[0] == "call" and str(v[1]).endswith("::unwrap_or") and len(v[2]) == 2 and is_const(norm(v[2][1]), True)
                ctx.check(okv, "R13", "prefix-default:%s=true" % name, ctx.where(b, st["sp"]),
                          "an omitted `%s` must default to true (is %s)" % (name, show(v)[:80]))
            for name, secs in (("valid", 2592000), ("preferred", 604800)):
                if name not in f:
                    continue
                n += 1
                v = norm(f[name])
                consts = set()
                for y in subterms(v):
                    if y[0] == "const" and isinstance(y[1], int) and not isinstance(y[1], bool):
                        consts.add(y[1])
                    if y[0] == "const" and isinstance(y[1], tuple) and y[1] and y[1][0] == "named":
                        # `const DEFAULT_VALID_LIFETIME: Duration = Duration::from_secs(n)`
                        from .c10 import _duration_const_secs
                        k = _duration_const_secs(P, y[1][1])
                        if isinstance(k, int):
                            consts.add(k)
                    if y[0] == "agg" and isinstance(y[1], str) and y[1].startswith("closure:") and y[1][8:] in P.bodies:
                        for _, k, _ in body_consts(P.bodies[y[1][8:]]):
                            if isinstance(k, dict) and const_int(k) is not None:
                                consts.add(const_int(k))
                ctx.check(secs in consts, "R13", "prefix-default:%s=%ds" % (name, secs), ctx.where(b, st["sp"]),
                          "an omitted `%s` lifetime must default to %d s (constants found: %s)" % (name, secs, sorted(consts)[:6]))
    if ctx.config in ("default", "radv"):
        ctx.floor("R13", "defaults of a configured prefix", n, 4)


def _r12_every_prefix_is_advertised(ctx):
    """R12 every configured prefix gets its Prefix Information option: in the loop over the interface's prefixes no path goes on to the next
    prefix without having added the option for this one (no `continue` for a prefix that another one "covers")."""
    P = ctx.P
    n = 0
    for b in P.bodies.values():
        if not b.id.endswith("radv::RaAdvService::build_announcement_pure"):
            continue
        T = terms(P, b)
        cfg = cfg_of(b)
        loops = cfg.loops_by_header()
        for bb, tm in b.calls():
            if not (callee_name(tm) or "").endswith("NDOptions::add_option"):
                continue
            a = norm(T.call_args(bb)[1])
            if not (a[0] == "agg" and a[2] == "Prefix"):
                continue
            mine = [l for l in loops if bb in l]
            if not mine:
                continue
            loop = min(mine, key=len)
            n += 1
            ctx.saw(b)
            heads = {h for (u, h) in cfg.back_edges() if h in loop and u in loop}
            skipping = []
            for sb, t2 in b.terms():
                if sb in loop and t2["k"] == "switch":
                    d = norm(T.at_term(t2["discr"], sb))
                    if d[0] == "discr" and norm(d[1])[0] == "call" and str(norm(d[1])[1]).endswith("::next") and any(
                            y[0] == "field" and y[2] == "prefixes" for y in subterms(norm(d[1]))):
                        for _, tgt in discr_edges(cfg, sb, 1):
                            if cfg.reachable_from(tgt, blocked=(bb,)) & heads:
                                skipping.append(sb)
            ctx.check(not skipping, "R12", "every-configured-prefix-is-advertised", ctx.where(b, tm["sp"]),
                      "the loop over the interface's prefixes can go on to the next prefix without adding the Prefix Information option for this one")
    if ctx.config in ("default", "radv"):
        ctx.floor("R12", "prefix options added in the prefix loop", n, 1)


def run(ctx):
    P = ctx.P
    _r1(ctx)
    _r11_lists_as_configured(ctx)
    _r12_every_prefix_is_advertised(ctx)
    _r13_prefix_defaults(ctx)
    enc = [f for f in P.bodies if f.endswith("radv::icmppkt::serialise_router_advertisement")]
    ctx.floor("R3", "RA encoder", len(enc), 1)
    if enc:
        _encoder(ctx, P.bodies[enc[0]])
    _r4_decoder(ctx)
    _r8_tristate(ctx)
    if enc:
        _r10_variable_option_fits_its_length_octet(ctx, P.bodies[enc[0]])
    # "never silently wrapped" starts where the numbers are read: the loader's narrowing casts (C19's rule V6, evaluated here too)
    from . import c19
    c19.narrowing_casts(ctx, callgraph(P))


def _tristate_ok(P, v, depth=0):
    """a tri-state setting (not given / null / value) stored by the loader is the untouched default or ConfigValue::from_option(parser(..)?)"""
    v = norm(v)
    if v[0] == "phi":
        return all(_tristate_ok(P, x, depth) for x in v[1])
    if v[0] == "agg" and v[1].endswith("config::ConfigValue") and v[2] == "NotSpecified":
        return True
    if v[0] == "call" and "ConfigValue" in str(v[1]) and str(v[1]).endswith("Default>::default"):
        return True
    if v[0] == "call" and str(v[1]).endswith("ConfigValue::<T>::from_option") and len(v[2]) == 1:
        a = norm(v[2][0])
        return a[0] == "payload" and norm(a[2])[0] == "call" and "::parse" in str(norm(a[2])[1])
    if v[0] == "field" and v[2].isdigit() and depth < 2:
        # an element of the tuple returned by a sub-parser: the same rule applies to what that parser returns
        src = norm(v[1])
        if src[0] == "payload" and norm(src[2])[0] == "call" and str(norm(src[2])[1]) in P.bodies:
            cb = P.bodies[str(norm(src[2])[1])]
            T = terms(P, cb)
            oks = []
            for bb, idx, st in cb.stmts():
                if st.get("rv") and st["rv"]["k"] == "agg" and st["rv"].get("variant") == "Ok" and st["p"] == (0,):
                    t = norm(T.rvalue(st["rv"], bb, idx))
                    tup = norm(t[3][0][1])
                    if tup[0] == "agg" and tup[1] == "tuple":
                        oks.append(dict(tup[3]).get(v[2]))
            return bool(oks) and all(o is not None and _tristate_ok(P, o, depth + 1) for o in oks)
    return False


def _r8_tristate(ctx):
    P = ctx.P
    adt = P.adts.get("erbium::radv::config::Interface")
    fns = [f for f in P.bodies if f.endswith("radv::config::parse_interface")]
    if adt is None or not fns:
        if ctx.config in ("default", "radv"):
            ctx.bad("R8", "anchor:parse_interface", "", "interface parser not found")
        return
    tri = [f["name"] for v in adt["variants"] for f in v["fields"] if "config::ConfigValue<" in f["ty"]]
    b = P.bodies[fns[0]]
    ctx.saw(b)
    T = terms(P, b)
    n = 0
    for _, bb, idx, s in find_aggs(P, "radv::config::Interface", [b]):
        t = norm(T.rvalue(s["rv"], bb, idx))
        fl = dict(t[3])
        for f in tri:
            n += 1
            ctx.check(_tristate_ok(P, fl[f]), "R8", "tri-state:%s<-from_option(parser)" % f, ctx.where(b, s["sp"]),
                      "`null` must suppress the option: the stored value has to be the untouched default or ConfigValue::from_option(<parser>(key, v)?), "
                      "which maps null to DontSet (is %s)" % show(norm(fl[f]))[:160])
    ctx.floor("R8", "tri-state interface settings", n, 8)
    # from_option itself: None -> DontSet, Some(x) -> Value(x)
    fo = [f for f in P.bodies if f.endswith("config::ConfigValue::<T>::from_option")]
    if fo:
        fb = P.bodies[fo[0]]
        cfg = cfg_of(fb)
        Tf = terms(P, fb)
        built = {}
        for bb, idx, st in fb.stmts():
            if st.get("rv") and st["rv"]["k"] == "agg" and str(st["rv"].get("adt", "")).endswith("config::ConfigValue"):
                built[st["rv"]["variant"]] = bb
        sw = [bb for bb, tm in fb.terms() if tm["k"] == "switch" and norm(Tf.at_term(tm["discr"], bb))[0] == "discr"]
        good = set(built) == {"DontSet", "Value"} and len(sw) == 1
        if good:
            none_e, some_e = discr_edges(cfg, sw[0], 0), discr_edges(cfg, sw[0], 1)
            good = edge_dominated(cfg, none_e, built["DontSet"]) and edge_dominated(cfg, some_e, built["Value"])
        ctx.check(good, "R8", "from_option:None->DontSet,Some->Value", ctx.where(fb), "")
    else:
        ctx.bad("R8", "anchor:from_option", "", "ConfigValue::from_option not found")


def _r1(ctx):
    P = ctx.P
    fns = [f for f in P.bodies if f.endswith("radv::RaAdvService::build_announcement_pure")]
    ctx.floor("R1", "advertisement builder", len(fns), 1)
    for f in fns:
        b = P.bodies[f]
        ctx.saw(b)
        T = terms(P, b)
        intf_param = [i for i in b.args() if b.local_ty(i).endswith("radv::config::Interface")]
        conf_param = [i for i in b.args() if b.local_ty(i).endswith("config::Config")]
        for _, bb, idx, s in find_aggs(P, "radv::icmppkt::RtrAdvertisement", [b]):
            t = norm(T.rvalue(s["rv"], bb, idx))
            fl = dict(t[3])
            where = ctx.where(b, s["sp"])
            want = {"hop_limit": "hoplimit", "flag_managed": "managed", "flag_other": "other", "reachable": "reachable", "retrans": "retrans"}
            for k, src in want.items():
                rp = resolve_path(P, b, fl[k])
                ctx.check(rp is not None and rp[1] in intf_param and rp[2] == (src,), "R1", "ra.%s<-interface.%s" % (k, src), where, "is %s" % show(fl[k])[:80])
            lt = norm(fl["lifetime"])
            good = lt[0] == "call" and str(lt[1]).endswith("always_unwrap_or") and any(y[0] == "field" and y[2] == "lifetime" for y in subterms(lt[2][0])) and norm(lt[2][1])[0] == "param"
            ctx.check(good, "R1", "ra.lifetime<-interface.lifetime|default", where, show(lt)[:100])
        n = 0
        for _, bb, idx, s in find_aggs(P, "radv::icmppkt::AdvPrefix", [b]):
            n += 1
            t = norm(T.rvalue(s["rv"], bb, idx))
            fl = dict(t[3])
            where = ctx.where(b, s["sp"])
            for k, src in (("prefixlen", "prefixlen"), ("onlink", "onlink"), ("autonomous", "autonomous"), ("valid", "valid"), ("preferred", "preferred"), ("prefix", "addr")):
                v = norm(fl[k])
                flds = [y[2] for y in subterms(v) if y[0] == "field"]
                from_iter = any(y[0] == "call" and str(y[1]).endswith("::next") for y in subterms(v)) and any(y[0] == "field" and y[2] == "prefixes" for y in subterms(v))
                ok_src = bool(flds) and flds[0] == src and from_iter
                if k == "prefix" and not ok_src:
                    # masked form: network() of the configured prefix
                    ok_src = from_iter and any(y[0] == "call" and str(y[1]).endswith("::network") for y in subterms(v))
                ctx.check(ok_src, "R1", "prefix.%s<-config.%s" % (k, src), where, "is %s" % show(v)[:80])
        ctx.floor("R1", "prefix option constructions", n, 1)
        # option fall-backs
        opts = {}
        for bb, tm in b.calls():
            if (callee_name(tm) or "").endswith("NDOptions::add_option"):
                a = norm(T.call_args(bb)[1])
                if a[0] == "agg":
                    opts[a[2]] = (a, tm)
        for var, intf_f, conf_f in (("RecursiveDnsServers", "rdnss", "dns_servers"), ("DnsSearchList", "dnssl", "dns_search"), ("CaptivePortal", "captive_portal", "captive_portal")):
            if var not in opts:
                ctx.bad("R1", "option:%s:absent" % var, ctx.where(b), "the builder never adds %s" % var)
                continue
            a, tm = opts[var]
            # the guarding Option: interface value, falling back to the top-level one
            srcs_i = srcs_c = False
            for b2, t2 in b.calls():
                n2 = callee_name(t2) or ""
                if n2.rsplit("::", 1)[-1] in ("unwrap_or", "or", "unwrap_or_else", "or_else"):
                    xs = [norm(x) for x in T.call_args(b2)]
                    if any(y[0] == "field" and y[2] == intf_f for y in subterms(xs[0])) and any(
                            (y[0] == "field" and y[2] == conf_f) or (y[0] == "agg" and y[1].startswith("closure:")) or
                            (y[0] == "call" and str(y[1]).endswith("Vec::<T>::new")) for x in xs[1:] for y in subterms(x)):
                        srcs_i = True
                        inner = xs[1:]
                        srcs_c = any(y[0] == "field" and y[2] == conf_f for x in inner for y in subterms(x))
            if srcs_i and not srcs_c:
                # the default list filled by hand: `let mut v = Vec::new(); for x in &config.<list> { .. v.push(..) }`
                for x in inner:
                    x = norm(x)
                    if x[0] == "call" and str(x[1]).endswith("Vec::<T>::new") and len(x) > 3:
                        made = x[3]
                        vl = b.blocks[made]["term"]["dest"][0] if b.blocks[made]["term"] and b.blocks[made]["term"]["k"] == "call" else None
                        holders = {vl}
                        for _ in range(3):
                            for _, _, st2 in b.stmts():
                                rv2 = st2.get("rv")
                                if rv2 and rv2["k"] == "use" and op_place(rv2["op"]) and len(op_place(rv2["op"])) == 1 and len(st2["p"]) == 1:
                                    if st2["p"][0] in holders:
                                        holders.add(op_place(rv2["op"])[0])
                                    if op_place(rv2["op"])[0] in holders:
                                        holders.add(st2["p"][0])
                        for b3, t3 in b.calls():
                            if (callee_name(t3) or "").endswith("::push") and t3["args"]:
                                bp = borrowed_place(T, t3["args"][0], b3, len(b.blocks[b3]["stmts"]))
                                if bp is not None and bp[0] in holders:
                                    pv = norm(T.call_args(b3)[1])
                                    if any(y[0] == "field" and y[2] == conf_f for y in subterms(pv)):
                                        srcs_c = True
            ctx.check(srcs_i and srcs_c, "R1", "option:%s<-interface.%s|config.%s" % (var, intf_f, conf_f), ctx.where(b, tm["sp"]),
                      "the interface setting, else the top-level default")
        # each list option carries its own lifetime setting: RDNSS the dns-servers lifetime, DNSSL the dns-search lifetime
        for var, lf in (("RecursiveDnsServers", "rdnss_lifetime"), ("DnsSearchList", "dnssl_lifetime")):
            if var in opts:
                a, tm = opts[var]
                tup = norm(a[3][0][1])
                first = norm(tup[3][0][1]) if tup[0] == "agg" and tup[3] else ("unknown",)
                flds = sorted({y[2] for y in subterms(first) if y[0] == "field" and str(y[2]).endswith("_lifetime")})
                ctx.check(flds == [lf], "R1", "option:%s:lifetime<-interface.%s" % (var, lf), ctx.where(b, tm["sp"]),
                          "the lifetime of %s is computed from %s" % (var, flds or show(first)[:60]))
        for var in ("Mtu", "Pref64", "SourceLLAddr", "Prefix"):
            ctx.check(var in opts, "R1", "option:%s:added" % var, ctx.where(b), "")
        if "Pref64" in opts:
            a, tm = opts["Pref64"]
            tup = norm(a[3][0][1])
            names = []
            if tup[0] == "agg":
                for _, x in tup[3]:
                    fs = [y[2] for y in subterms(norm(x)) if y[0] == "field"]
                    names.append(fs[0] if fs else "?")
            ctx.check(names == ["lifetime", "prefixlen", "prefix"], "R1", "pref64=(lifetime,prefixlen,prefix)", ctx.where(b, tm["sp"]), str(names))
        # $self6: the unspecified address in dns-servers is replaced by the interface address parameter
        okk = False
        for c in P.family(f):
            if c.kind != "closure":
                continue
            Tc = terms(P, c)
            cc = cfg_of(c)

            def m(d):
                return d[0] == "call" and (str(d[1]).endswith("Ipv6Addr::is_unspecified") or (str(d[1]).endswith("::eq") and any(
                    y[0] == "const" and len(y) > 2 and str(y[2]).endswith("Ipv6Addr::UNSPECIFIED") for a in d[2] for y in subterms(a))))
            for sbb, d, te, fe in bool_switches(P, c, m):
                for bb, idx, s in c.stmts():
                    if s["p"] == (0,) and "rv" in s:
                        t = norm(Tc.rvalue(s["rv"], bb, idx))
                        if t[0] == "agg" and t[2] == "Some":
                            rp = resolve_path(P, c, t[3][0][1])
                            if rp is not None and param_ty(rp[0], rp[1]) == "std::net::Ipv6Addr" and rp[2] == () and edge_dominated(cc, te, bb):
                                okk = True
        if not okk:
            # the same replacement in a hand-written loop: on the edge where the entry is the unspecified address, what is pushed is the
            # interface address parameter
            for c in P.family(f):
                Tc = terms(P, c)
                cc = cfg_of(c)

                def m2(d):
                    return d[0] == "call" and (str(d[1]).endswith("Ipv6Addr::is_unspecified") or (str(d[1]).endswith("::eq") and any(
                        y[0] == "const" and len(y) > 2 and str(y[2]).endswith("Ipv6Addr::UNSPECIFIED") for a in d[2] for y in subterms(a))))
                for sbb, d, te, fe in bool_switches(P, c, m2):
                    for b3, t3 in c.calls():
                        if (callee_name(t3) or "").endswith("::push") and len(t3["args"]) == 2 and edge_dominated(cc, te, b3):
                            rp = resolve_path(P, c, norm(Tc.call_args(b3)[1]))
                            if rp is not None and param_ty(rp[0], rp[1]) == "std::net::Ipv6Addr" and rp[2] == ():
                                okk = True
        ctx.check(okk, "R1", "rdnss:$self6<-interface-address", ctx.where(b), "the :: placeholder in dns-servers is replaced by the interface's own address")


def _encoder(ctx, b):
    P = ctx.P
    ctx.saw(b)
    T = terms(P, b)
    cfg = cfg_of(b)
    # ---- header
    allw = _writes(P, b, T, cfg)
    out_local = allw[0][3] if allw else None
    hdr = []
    loops = [cfg.natural_loop(e) for e in cfg.back_edges()]
    for bb, g, v, recv, tm in allw:
        if any(bb in l for l in loops):
            break
        hdr.append((g, v, tm))
    hdr = _regroup(hdr, [1, 1, 2, 1, 1, 2, 4, 4])
    widths = [WIDTH.get(g) for g, _, _ in hdr]
    ctx.check(widths == [1, 1, 2, 1, 1, 2, 4, 4], "R3", "header:type1+code1+cksum2+hop1+flags1+lifetime2+reachable4+retrans4", ctx.where(b), "found %s" % widths)
    if len(hdr) == 8:
        t0 = hdr[0][1]
        ctx.check(t0[0] == "const" and t0[1] == tables.RA_TYPE or (t0[0] == "field" and norm(t0[1])[0] == "const" and norm(t0[1])[1] == tables.RA_TYPE), "R3", "header:type=134", ctx.where(b), show(t0))
        ctx.check(is_const(hdr[1][1], 0) and is_const(hdr[2][1], 0), "R6", "header:code=0,checksum=0", ctx.where(b), "")
        hop = hdr[3][1]
        ctx.check(hop[0] == "field" and hop[2] == "hop_limit", "R3", "header:hop-limit@4", ctx.where(b), show(hop))
        names = []
        for g, v, tm in hdr[5:]:
            fs = [y[2] for y in subterms(v) if y[0] == "field" and y[2] != "0"]
            names.append(fs[0] if fs else "?")
        ctx.check(names == ["lifetime", "reachable", "retrans"], "R3", "header:lifetime@6,reachable@8,retrans@12", ctx.where(b), str(names))
        units = [[str(y[1]).rsplit("::", 1)[-1] for y in subterms(v) if y[0] == "call" and "Duration" in str(y[1])] for g, v, tm in hdr[5:]]
        ctx.check([u[:1] for u in units] == [["as_secs"], ["as_millis"], ["as_millis"]], "R3", "header:units=s,ms,ms", ctx.where(b), str(units))
    _flag_bits(ctx, b, T, cfg, {"flag_managed": tables.RA_FLAG_M, "flag_other": tables.RA_FLAG_O}, "ra-flags")
    _flag_bits(ctx, b, T, cfg, {"onlink": tables.PREFIX_FLAG_L, "autonomous": tables.PREFIX_FLAG_A}, "prefix-flags")
    # ---- locate the option arms first (used for stable keys)
    _ARMS[b.id] = _option_arms(P, b, T, cfg, loops)
    # ---- R2: clamp before cast
    n = 0
    for bb, idx, s in b.stmts():
        rv = s.get("rv")
        if rv and rv["k"] == "cast" and rv["kind"] == "IntToInt" and rv["to"] in ("u16", "u32", "u8") and rv["from"] in ("u64", "u128", "usize"):
            t = norm(T.operand(rv["op"], bb, idx))
            if not any(y[0] == "call" and str(y[1]).rsplit("::", 1)[-1] in ("as_secs", "as_millis") for y in subterms(t)):
                continue
            n += 1
            fs = [y[2] for y in subterms(t) if y[0] == "field" and y[2] not in ("0", "1", "2", "options")]
            what = fs[0] if fs else "lifetime"
            mx = {"u16": 0xFFFF, "u32": 0xFFFFFFFF, "u8": 0xFF}[rv["to"]]
            if _arm_name(b, cfg, T, bb) == "Pref64":
                mx = tables.PREF64_MAX_SCALED_LIFETIME
            clamped = False
            if t[0] == "call" and str(t[1]).endswith("cmp::min"):
                cs = [norm(x)[1] for x in t[2] if norm(x)[0] == "const"]
                clamped = bool(cs) and cs[0] <= mx
            if t[0] == "call" and str(t[1]).rsplit("::", 1)[-1] in ("min",) and len(t[2]) == 2:
                cs = [norm(x)[1] for x in t[2] if norm(x)[0] == "const"]
                clamped = clamped or (bool(cs) and cs[0] <= mx)
            key = "cast:%s->%s:%s" % (what, rv["to"], "clamped" if clamped else "unclamped")
            ctx.check(clamped, "R2", key + ":" + P.rel(s["sp"]).split(":")[-1] if False else key + "@" + _arm_name(b, cfg, T, bb), ctx.where(b, s["sp"]),
                      "a configured %s that does not fit the %d-bit wire field must be rejected or clamped, never wrapped: `%s as %s` keeps only the "
                      "low bits (e.g. a lifetime of 65536 s is advertised as 0)" % (what, {"u8": 8, "u16": 16, "u32": 32}[rv["to"]], show(t)[:60], rv["to"]))
    # conversions done with try_from(..).unwrap_or(MAX) / saturating forms are fine by construction and are counted too
    tf = 0
    for bb, tm in b.calls():
        n2 = callee_name(tm) or ""
        if n2.rsplit("::", 1)[-1] == "unwrap_or":
            a = norm(T.call_args(bb)[0])
            if any(y[0] == "call" and "try_from" in str(y[1]) for y in subterms(a)) and any(
                    y[0] == "call" and str(y[1]).rsplit("::", 1)[-1] in ("as_secs", "as_millis") for y in subterms(a)):
                tf += 1
                ctx.ok("R2", "conversion:checked-with-saturation@" + _arm_name(b, cfg, T, bb), ctx.where(b, tm["sp"]))
    # ... and so is a try_from whose result is taken apart by hand (`match u32::try_from(secs) { Ok(s) => s, Err(_) => u32::MAX }`): a
    # checked conversion cannot wrap, whatever is done with the failure
    seen_tf = {bb for bb, tm in b.calls() if (callee_name(tm) or "").rsplit("::", 1)[-1] == "unwrap_or"}
    for bb, tm in b.calls():
        n2 = callee_name(tm) or ""
        if "try_from" in n2.rsplit("::", 1)[-1] and tm["args"]:
            a = norm(T.call_args(bb)[0])
            used_by_unwrap_or = any(any(y[0] == "call" and len(y) > 3 and y[3] == bb for y in subterms(norm(T.call_args(ub)[0]))) for ub in seen_tf)
            if not used_by_unwrap_or and any(y[0] == "call" and str(y[1]).rsplit("::", 1)[-1] in ("as_secs", "as_millis") for y in subterms(a)):
                tf += 1
                ctx.ok("R2", "conversion:checked@" + _arm_name(b, cfg, T, bb), ctx.where(b, tm["sp"]))
    ctx.floor("R2", "lifetime/timer conversions", n + tf, 8)

    # ---- per option arms
    osw = None
    for bb, tm in b.terms():
        if tm["k"] == "switch":
            d = norm(T.at_term(tm["discr"], bb))
            if d[0] == "discr" and len(tm["targets"]) >= 6:
                osw = (bb, tm)
    if osw is None:
        ctx.bad("R3", "option-switch-not-found", ctx.where(b), "")
        return
    adt = P.adt("erbium::radv::icmppkt::NDOptionValue")
    vn = [v["name"] for v in adt["variants"]]
    targets = {}
    for i, name in enumerate(vn):
        es = discr_edges(cfg, osw[0], i)
        if es:
            targets[name] = es[0][1]
    encl = [l for l in loops if osw[0] in l]
    heads = set()
    if encl:
        lp = max(encl, key=len)
        heads = {h for (u, h) in cfg.back_edges() if h in lp and u in lp and cfg.natural_loop((u, h)) == lp}
    arms = _arm_blocks(cfg, targets, stop=heads)
    typeconst = {"Mtu": "mtu", "Prefix": "prefix", "RecursiveDnsServers": "rdnss", "DnsSearchList": "dnssl", "Pref64": "pref64", "CaptivePortal": "captive_portal", "SourceLLAddr": "source_ll"}

    def arm_writes(name):
        return [(g, v, tm, bb) for bb, g, v, recv, tm in _writes(P, b, T, cfg, arms.get(name, set())) if recv == out_local]

    def cv(v):
        v = norm(v)
        if v[0] == "const":
            return v[1]
        if v[0] == "field" and norm(v[1])[0] == "const":
            return norm(v[1])[1]
        return None
    for name, key in typeconst.items():
        w = arm_writes(name)
        ctx.check(bool(w) and cv(w[0][1]) == tables.ND_OPT[key] and WIDTH.get(w[0][0]) == 1, "R3", "option:%s:type=%d" % (name, tables.ND_OPT[key]), ctx.where(b),
                  "first octet written in the %s arm: %s" % (name, show(w[0][1]) if w else None))
    # MTU: type len=1 reserved(2)=0 mtu(4)
    w = _regroup(arm_writes("Mtu"), [1, 1, 2, 4])
    ctx.check([WIDTH.get(x[0]) for x in w] == [1, 1, 2, 4] and cv(w[1][1]) == 1, "R3", "option:Mtu:layout=1+1+2+4,len=1", ctx.where(b), str([x[0] for x in w]))
    if len(w) == 4:
        ctx.check(is_const(w[2][1], 0), "R6", "option:Mtu:reserved=0", ctx.where(b), "")
    # Prefix: type len=4 plen flags valid preferred reserved(4)=0 prefix(16)
    w = _regroup(arm_writes("Prefix"), [1, 1, 1, 1, 4, 4, 4, 16])
    ctx.check([WIDTH.get(x[0]) for x in w] == [1, 1, 1, 1, 4, 4, 4, 16] and cv(w[1][1]) == 4, "R3", "option:Prefix:layout=1+1+1+1+4+4+4+16,len=4", ctx.where(b), str([x[0] for x in w]))
    if len(w) == 8:
        ctx.check(is_const(w[6][1], 0), "R6", "option:Prefix:reserved2=0", ctx.where(b), "")
        names = []
        for g, v, tm, bb in (w[2], w[4], w[5], w[7]):
            fs = [y[2] for y in subterms(v) if y[0] == "field" and y[2] != "0"]
            names.append(fs[0] if fs else "?")
        ctx.check(names[:3] == ["prefixlen", "valid", "preferred"], "R3", "option:Prefix:field-order", ctx.where(b), str(names))
        # R5: the prefix octets are masked to prefixlen
        pv = w[7][1]
        masked = any(y[0] == "bin" and y[1] == "BitAnd" for y in subterms(pv)) or any(y[0] == "call" and str(y[1]).rsplit("::", 1)[-1] in ("network", "mask", "masked", "trunc") for y in subterms(pv))
        if not masked:
            masked = _builder_masks(P)
        ctx.check(masked, "R5", "prefix-octets-masked-to-prefix-length" if masked else "prefix-octets-unmasked", ctx.where(b, w[7][2]["sp"]),
                  "RFC 4861 4.6.2: bits of the Prefix field beyond the prefix length must be zero; the encoder writes the configured address "
                  "as is, so `prefix: 2001:db8::1/64` puts host bits on the wire")
    # RDNSS: type len=1+2n reserved(2)=0 lifetime(4) then servers
    w = _regroup(arm_writes("RecursiveDnsServers"), [1, 1, 2, 4])
    ctx.check([WIDTH.get(x[0]) for x in w[:4]] == [1, 1, 2, 4], "R3", "option:Rdnss:header=1+1+2+4", ctx.where(b), str([x[0] for x in w]))
    if len(w) >= 4:
        ctx.check(is_const(w[2][1], 0), "R6", "option:Rdnss:reserved=0", ctx.where(b), "")
        from ..affine import affine
        ln = w[1][1]
        a = None
        def is_len(x):
            return x[0] == "call" and str(x[1]).endswith("::len")

        def is_count(x):
            # n = number of servers, or min(number of servers, k) with k <= 127 (what one option can carry)
            if is_len(x):
                return True
            if x[0] == "call" and str(x[1]).endswith("cmp::min") and len(x[2]) == 2:
                p, q = norm(x[2][0]), norm(x[2][1])
                return any(is_len(u) and const_value(v) is not None and 0 < const_value(v) <= 127 for u, v in ((p, q), (q, p)))
            return False
        for y in subterms(ln):
            a = a or affine(y, is_count)
        okk = a is not None and list(a[0].values()) == [2] and a[1] == 1
        if okk and not is_len(list(a[0])[0]):
            # a capped count: exactly that many servers must be written
            cap = list(a[0])[0]
            takes = [norm(x) for bb, tm in b.calls() if (callee_name(tm) or "").endswith("::take") and "Iterator" in (callee_name(tm) or "") for x in T.call_args(bb)[1:2]]
            okk = cap in takes
        ctx.check(okk, "R3", "option:Rdnss:len=1+2n", ctx.where(b), show(ln)[:80])
    # DNSSL / captive portal: zero padding loops to a multiple of 8
    for name, k in (("DnsSearchList", 8), ("CaptivePortal", 8)):
        blocks = arms.get(name, set())
        rem = [s for bb, idx, s in b.stmts() if bb in blocks and s.get("rv") and s["rv"]["k"] == "bin" and s["rv"]["op"] == "Rem" and s["rv"]["b"].get("k", {}).get("int") == "8"]
        inloop = any(bb in l for l in loops for bb in blocks)
        ctx.check(bool(rem) and inloop, "R3", "option:%s:padded-to-multiple-of-8" % name, ctx.where(b), "")
    for name in ("DnsSearchList", "CaptivePortal"):
        _padded_length(ctx, b, T, cfg, loops, arms.get(name, set()), name, out_local)
    w = _regroup(arm_writes("DnsSearchList"), [1, 1, 2, 4])
    if len(w) >= 3:
        ctx.check(is_const(w[2][1], 0), "R6", "option:Dnssl:reserved=0", ctx.where(b), "")
    # PREF64: type len=2 scaled|plc(2) prefix 12 octets
    w = _regroup(arm_writes("Pref64"), [1, 1, 2])
    ctx.check(len(w) >= 3 and [WIDTH.get(x[0]) for x in w[:3]] == [1, 1, 2] and cv(w[1][1]) == 2, "R3", "option:Pref64:header=1+1+2,len=2", ctx.where(b), str([x[0] for x in w]))
    if len(w) >= 3:
        _plc(ctx, b, T, cfg, w[2], arms.get("Pref64", set()), "encode")


_ARMS = {}


def _arm_name(b, cfg, T, bb):
    for name, blocks in _ARMS.get(b.id, {}).items():
        if bb in blocks:
            return name
    return "header"


def _builder_masks(P):
    """when the encoder writes the prefix as given, every producer of a prefix must have cleared the host bits: either every
    AdvPrefix handed to the encoder, or every radv::config::Prefix the advertisement is built from (the loader's AND the one
    synthesised from an interface address) — one masked producer is not enough"""
    def masked(v):
        return any(y[0] == "call" and str(y[1]).rsplit("::", 1)[-1] in ("network",) for y in subterms(v)) or any(
            y[0] == "bin" and y[1] == "BitAnd" for y in subterms(v))

    def production(b):
        return "::test" not in b.id and "/test" not in b.file and not b.file.endswith("test.rs")
    for adt, fld in (("radv::icmppkt::AdvPrefix", "prefix"), ("radv::config::Prefix", "addr")):
        sites = []
        for b, bb, idx, s in find_aggs(P, adt):
            if not production(b) or not s["rv"].get("adt", "").endswith(adt):
                continue
            T = terms(P, b)
            t = norm(T.rvalue(s["rv"], bb, idx))
            sites.append(masked(dict(t[3])[fld]))
        if sites and all(sites):
            return True
    return False


def _flag_bits(ctx, b, T, cfg, want, tag):
    P = ctx.P
    got = {}
    for sbb, tm in b.terms():
        if tm["k"] != "switch":
            continue
        d = norm(T.at_term(tm["discr"], sbb))
        if d[0] == "field" and d[2] in want:
            te = [(sbb, tgt) for v, tgt in cfg.switch_edges(sbb) if v != 0]
            for bb, idx, s in b.stmts():
                rv = s.get("rv")
                if rv and rv["k"] == "use" and "int" in rv["op"].get("k", {}) and int(rv["op"]["k"]["int"]) != 0 and edge_dominated(cfg, te, bb) and \
                        all(not cfg.dominates(s2, bb) or s2 == sbb or not cfg.dominates(sbb, s2) for s2, t2 in b.terms() if t2["k"] == "switch" and s2 != sbb and False):
                    # innermost: the constant assigned in the block immediately selected by this switch
                    if bb in [tgt for _, tgt in te] or any(cfg.succ[tgt] == [bb] for _, tgt in te):
                        got[d[2]] = int(rv["op"]["k"]["int"])
    for f, m in want.items():
        ctx.check(got.get(f) == m, "R3", "%s:%s=0x%02x" % (tag, f, got.get(f) or 0), ctx.where(b), "RFC 4861: %s is bit 0x%02x" % (f, m))


def _plc(ctx, b, T, cfg, write, blocks, side):
    """the 3-bit prefix-length code combined into the 16-bit field: evaluate it for the six legal lengths"""
    P = ctx.P
    g, v, tm, wbb = write
    table = _plc_table_from_switch(P, b, T, cfg, blocks)
    how = "match table"
    if table is None:
        # formula: find the sub-term or-ed into the low bits and evaluate it with prefixlen := L
        low = None
        for y in subterms(v):
            if y[0] == "bin" and y[1] == "BitOr":
                low = norm(y[3])
        if low is not None:
            table = {}
            for L in tables.PREF64_PLC:
                table[L] = _eval(low, L)
            how = "formula %s" % show(low)[:60]
    if table is None:
        ctx.bad("R4", "pref64-plc:%s:unrecognised" % side, ctx.where(b, tm["sp"]), "cannot extract how the prefix length code is computed; cannot decide")
        return
    wrong = {L: table.get(L) for L, c in tables.PREF64_PLC.items() if table.get(L) != c}
    ctx.check(not wrong, "R4", "pref64-plc:%s:%s" % (side, "=rfc8781" if not wrong else "wrong-for-" + "/".join(str(k) for k in sorted(wrong))), ctx.where(b, tm["sp"]),
              "RFC 8781 4: PLC 0=/96 1=/64 2=/56 3=/48 4=/40 5=/32; the %s (%s) gives %s" % (side, how, {k: table.get(k) for k in sorted(tables.PREF64_PLC)}))


def _eval(t, L):
    t = norm(t)
    k = t[0]
    if k == "const" and isinstance(t[1], int):
        return t[1]
    if k == "cast":
        return _eval(t[3], L)
    if k == "field" and t[2] == "0" and t[1][0] == "bin":
        return _eval(t[1], L)
    if k == "bin":
        a, c = _eval(t[2], L), _eval(t[3], L)
        if a is None or c is None:
            return None
        op = t[1].replace("WithOverflow", "").replace("Unchecked", "")
        try:
            return {"Add": a + c, "Sub": a - c, "Mul": a * c, "Div": a // c if c else None, "Shr": a >> c, "Shl": a << c, "BitAnd": a & c,
                    "BitOr": a | c, "Rem": a % c if c else None}.get(op)
        except Exception:
            return None
    # anything else is taken to be the prefix length variable
    return L


def _plc_table_from_switch(P, b, T, cfg, blocks):
    for sbb, tm in b.terms():
        if tm["k"] == "switch" and sbb in blocks and {v for v, _ in tm["targets"]} >= set(tables.PREF64_PLC):
            tab = {}
            for v, tgt in tm["targets"]:
                # constant assigned in the arm
                seen = set()
                x = tgt
                for _ in range(4):
                    for s in b.blocks[x]["stmts"]:
                        rv = s.get("rv")
                        if rv and rv["k"] == "use" and "int" in rv["op"].get("k", {}) and v not in tab:
                            tab[v] = int(rv["op"]["k"]["int"])
                    nx = cfg.succ[x]
                    if len(nx) != 1 or v in tab:
                        break
                    x = nx[0]
            return tab
    return None


def _r4_decoder(ctx):
    P = ctx.P
    dec = [f for f in P.bodies if f.endswith("radv::icmppkt::parse_nd_rtr_options")]
    for f in dec:
        b = P.bodies[f]
        ctx.saw(b)
        T = terms(P, b)
        cfg = cfg_of(b)
        # the Pref64 aggregate's prefix length
        for _, bb, idx, s in find_aggs(P, "radv::icmppkt::NDOptionValue", [b], variant="Pref64"):
            t = norm(T.rvalue(s["rv"], bb, idx))
            tup = norm(t[3][0][1])
            if tup[0] != "agg":
                continue
            pl = norm(tup[3][1][1])
            # decoder maps PLC -> length: invert the RFC table
            inv = {c: L for L, c in tables.PREF64_PLC.items()}
            table = None
            # match table: switch on the plc value
            for sbb, tm in b.terms():
                if tm["k"] == "switch" and {v for v, _ in tm["targets"]} >= set(inv) and cfg.dominates(sbb, bb):
                    table = {}
                    for v, tgt in tm["targets"]:
                        x = tgt
                        for _ in range(4):
                            for st in b.blocks[x]["stmts"]:
                                rv = st.get("rv")
                                if rv and rv["k"] == "use" and "int" in rv["op"].get("k", {}) and v not in table:
                                    table[v] = int(rv["op"]["k"]["int"])
                            nx = cfg.succ[x]
                            if len(nx) != 1 or v in table:
                                break
                            x = nx[0]
            how = "match table"
            if table is None:
                table = {c: _eval(pl, c) for c in inv}
                how = "formula %s" % show(pl)[:60]
            wrong = {c: table.get(c) for c, L in inv.items() if table.get(c) != L}
            ctx.check(not wrong, "R4", "pref64-plc:decode:%s" % ("=rfc8781" if not wrong else "wrong-for-plc-" + "/".join(str(k) for k in sorted(wrong))), ctx.where(b, s["sp"]),
                      "RFC 8781 4: PLC 0=/96 1=/64 2=/56 3=/48 4=/40 5=/32; the decoder (%s) gives %s" % (how, {k: table.get(k) for k in sorted(inv)}))


def _ev(t, env):
    """value of an integer term for a given size of the variable-length item (env: length atom -> int); None when not evaluable"""
    t = norm(t)
    k = t[0]
    if k == "const":
        return t[1] if isinstance(t[1], int) and not isinstance(t[1], bool) else None
    if k == "field" and t[2] == "0" and norm(t[1])[0] == "bin":
        return _ev(t[1], env)
    if k == "field" and norm(t[1])[0] == "const" and isinstance(norm(t[1])[1], int):
        return norm(t[1])[1]
    if k == "cast" and t[1] == "IntToInt":
        v = _ev(t[3], env)
        bits = {"u8": 8, "u16": 16, "u32": 32, "u64": 64, "usize": 64}.get(t[2])
        return None if v is None or bits is None else v & ((1 << bits) - 1)
    if k == "bin":
        op = t[1].replace("WithOverflow", "").replace("Unchecked", "")
        a, c = _ev(t[2], env), _ev(t[3], env)
        if a is None or c is None:
            return None
        try:
            return {"Add": a + c, "Sub": a - c, "Mul": a * c, "Div": a // c if c else None, "Rem": a % c if c else None,
                    "Shl": a << c, "Shr": a >> c, "BitAnd": a & c, "BitOr": a | c}.get(op)
        except (ValueError, TypeError):
            return None
    if k == "call" and isinstance(t[1], str):
        last = t[1].rsplit("::", 1)[-1]
        if last == "len" and len(t[2]) == 1:
            return env.get(_atom(t[2][0]))
        if last in ("unwrap", "expect", "unwrap_or", "branch") and t[2]:
            return _ev(t[2][0], env)
        if last in ("try_from", "try_into", "from", "into") and t[2]:
            return _ev(t[2][-1], env)
        if last == "div_ceil" and len(t[2]) == 2:
            a, c = _ev(t[2][0], env), _ev(t[2][1], env)
            return None if a is None or not c else -(-a // c)
        if last in ("min", "max") and len(t[2]) == 2:
            a, c = _ev(t[2][0], env), _ev(t[2][1], env)
            return None if a is None or c is None else (min(a, c) if last == "min" else max(a, c))
    if k == "payload":
        return _ev(t[2], env)
    return None


def _atom(x):
    """identity of a variable-length byte container: the term it originates from, views removed"""
    x = norm(x)
    while x[0] == "call" and isinstance(x[1], str) and x[1].rsplit("::", 1)[-1] in ("as_str", "as_bytes", "as_slice", "deref", "as_ref", "clone", "into_bytes", "borrow") and x[2]:
        x = norm(x[2][0])
    return x


def _len_atoms(t):
    return {_atom(y[2][0]) for y in subterms(norm(t)) if y[0] == "call" and isinstance(y[1], str) and y[1].rsplit("::", 1)[-1] == "len" and len(y[2]) == 1}


def _padded_length(ctx, b, T, cfg, loops, blocks, name, out_local):
    """a zero-padded option: the length octet times 8 is the number of octets the arm appends, for every size of the padded item.
    The length expression, the padding loop's exit condition and the sizes of the items written are read off the code and the
    expression is evaluated over the whole range of sizes (0..2048)."""
    P = ctx.P
    where = ctx.where(b)
    key = "option:%s:length-octet*8=octets-written" % name
    ws = [(bb, g, v, recv, tm) for bb, g, v, recv, tm in _writes(P, b, T, cfg, blocks)]
    mine = [w for w in ws if w[3] == out_local]
    # the padding loop: a loop inside the arm whose exit test is Rem(E, 8) != 0
    pad = None
    for bb, tm in b.terms():
        if bb in blocks and tm["k"] == "switch":
            d = norm(T.at_term(tm["discr"], bb))
            for y in subterms(d):
                if y[0] == "bin" and y[1] == "Rem" and is_const(norm(y[3]), 8) and any(bb in l and l <= blocks | {bb} for l in loops):
                    pad = (bb, norm(y[2]), min((l for l in loops if bb in l), key=len))
    if pad is None or len(mine) < 2:
        ctx.bad("R9", key + ":unrecognised", where, "no padding loop of the form `while E % 8 != 0` / fewer than two writes found in the arm; cannot decide")
        return
    pbb, E, ploop = pad
    L = mine[1][2]
    pads_main = any(w[0] in ploop for w in mine)
    atoms = _len_atoms(E) | _len_atoms(L)
    sized = [w for w in mine if WIDTH.get(w[1]) is None]     # variable-size items appended to the packet
    fixed = sum(WIDTH[w[1]] for w in mine if WIDTH.get(w[1]) is not None and w[0] not in ploop)
    bad = None
    checked = 0
    if not pads_main:
        # pad a scratch buffer X, then append it: E and L are functions of len(X); the arm appends `fixed + len(X)` octets
        xs = {_atom(w[2]) for w in sized}
        if len(xs) != 1 or not (_len_atoms(E) <= xs) or not (_len_atoms(L) <= xs):
            ctx.bad("R9", key + ":unrecognised", where, "cannot relate the padded buffer, the padding condition and the length octet (E=%s, L=%s)" % (show(E)[:80], show(L)[:80]))
            return
        x = list(xs)[0]
        for n in range(0, 2049):
            env = {x: n}
            e = _ev(E, env)
            if e is None:
                bad = "padding condition not evaluable"
                break
            if e % 8:
                continue
            l = _ev(L, env)
            tot = fixed + n
            checked += 1
            if tot // 8 > 255:
                continue
            if l is None or tot % 8 or l != tot // 8:
                bad = "with a padded size of %d the arm appends %d octets but the length octet is %s" % (n, tot, l)
                break
    else:
        # append the item, then pad the packet itself: the arm appends roundup8(fixed + len(item)) octets (options start 8-aligned)
        xs = {_atom(w[2]) for w in sized}
        if len(xs) != 1 or not (_len_atoms(L) <= xs):
            ctx.bad("R9", key + ":unrecognised", where, "cannot relate the item written and the length octet (L=%s)" % show(L)[:80])
            return
        x = list(xs)[0]
        for n in range(0, 2049):
            tot = -(-(fixed + n) // 8) * 8
            l = _ev(L, {x: n})
            checked += 1
            if tot // 8 > 255:
                continue
            if l is None or l != tot // 8:
                bad = "with an item of %d octets the arm appends %d octets but the length octet is %s" % (n, tot, l)
                break
    ctx.check(bad is None and checked > 0, "R9", key, ctx.where(b, mine[1][4]["sp"]),
              "RFC 4861 4.6: the Length field counts units of 8 octets including type and length; %s" % (bad or "holds for every size 0..2048 (%d sizes)" % checked))


def _option_arms(P, b, T, cfg, loops):
    osw = None
    for bb, tm in b.terms():
        if tm["k"] == "switch":
            d = norm(T.at_term(tm["discr"], bb))
            if d[0] == "discr" and len(tm["targets"]) >= 6:
                osw = (bb, tm)
    if osw is None:
        return {}
    adt = P.adt("erbium::radv::icmppkt::NDOptionValue")
    vn = [v["name"] for v in adt["variants"]]
    targets = {}
    for i, name in enumerate(vn):
        es = discr_edges(cfg, osw[0], i)
        if es:
            targets[name] = es[0][1]
    encl = [l for l in loops if osw[0] in l]
    heads = set()
    if encl:
        lp = max(encl, key=len)
        heads = {h for (u, h) in cfg.back_edges() if h in lp and u in lp and cfg.natural_loop((u, h)) == lp}
    return _arm_blocks(cfg, targets, stop=heads)


def _r10_variable_option_fits_its_length_octet(ctx, b):
    """the length octet of an option counts units of 8 octets: `1 + (buf.len() / 8) as u8` is what was written only while
    buf.len() <= 254 * 8.  Every append of a name to the scratch buffer of such an option stands on the not-too-long edge of a
    test of the buffer's length plus what is about to be appended (padding zero octets one at a time to a multiple of 8 keeps the bound)"""
    P = ctx.P
    T = terms(P, b)
    cfg = cfg_of(b)
    LIMIT = 254 * 8
    n = 0
    # scratch buffers whose length, divided by 8, is narrowed to the length octet: `len` calls on (L.v) feeding a Div by 8
    # feeding a cast to u8
    len_calls = {}
    for cbb, tm in b.calls():
        if (callee_name(tm) or "").endswith("::len") and tm["args"] and len(tm["dest"]) == 1:
            bp = borrowed_place(T, tm["args"][0], cbb, len(b.blocks[cbb]["stmts"]))
            if bp is not None and len(bp) == 2 and bp[1] == ".v" and "Serialise" in b.local_ty(bp[0]) and bp[0] > b.arg_count:
                len_calls[tm["dest"][0]] = bp[0]
    seen_bufs = set()
    for bb, idx, st in b.stmts():
        rv = st.get("rv")
        if not (rv and rv["k"] == "bin" and rv["op"] == "Div" and op_place(rv["a"]) and const_int(rv["b"].get("k")) == 8):
            continue
        src = op_place(rv["a"])[0]
        if src not in len_calls or len(st["p"]) != 1:
            continue
        # the quotient reaches the length octet: narrowed to u8 itself, or after adding the header's unit
        carriers = {st["p"][0]}
        for _ in range(3):
            for _, _, s2 in b.stmts():
                r2 = s2.get("rv")
                if not r2 or len(s2["p"]) < 1:
                    continue
                if r2["k"] == "bin" and r2["op"] in ("Add", "AddWithOverflow") and any(op_place(o) and op_place(o)[0] in carriers for o in (r2["a"], r2["b"])):
                    carriers.add(s2["p"][0])
                elif r2["k"] == "use" and op_place(r2["op"]) and op_place(r2["op"])[0] in carriers:
                    carriers.add(s2["p"][0])
        narrowed = any(s2.get("rv") and s2["rv"]["k"] == "cast" and op_place(s2["rv"]["op"]) and op_place(s2["rv"]["op"])[0] in carriers and b.local_ty(s2["p"][0]) == "u8"
                       for _, _, s2 in b.stmts())
        if not narrowed or len_calls[src] in seen_bufs:
            continue
        seen_bufs.add(len_calls[src])
        bufs = [len_calls[src]]

        def sum_only(term, depth=0):
            t = norm(term)
            if depth > 12:
                return False
            if t[0] == "cast":
                return sum_only(t[3], depth + 1)
            if t[0] == "field" and t[2] == "0" and norm(t[1])[0] == "bin" and norm(t[1])[1] == "AddWithOverflow":
                t = norm(t[1])
                return sum_only(t[2], depth + 1) and sum_only(t[3], depth + 1)
            if t[0] == "bin" and t[1] in ("Add", "AddUnchecked"):
                return sum_only(t[2], depth + 1) and sum_only(t[3], depth + 1)
            if t[0] == "const":
                return isinstance(t[1], int) and t[1] >= 0
            return t[0] == "call" and str(t[1]).endswith("::len")

        def measures(term, L):
            return any(y[0] == "call" and str(y[1]).endswith("::len") and y[2] and _root_is(T, y[2][0], L) for y in subterms(norm(term)))
        for L in bufs:
            appends = []
            for cbb, tm in b.calls():
                if not tm["args"]:
                    continue
                bp = borrowed_place(T, tm["args"][0], cbb, len(b.blocks[cbb]["stmts"]))
                if bp is None or bp[0] != L or len(tm["args"]) < 2:
                    continue
                a1 = norm(T.call_args(cbb)[1])
                if is_const(a1, 0):
                    continue          # one padding octet
                appends.append((cbb, tm))
            guards = []
            for sbb, d, te, fe in bool_switches(P, b, lambda d, L=L: d[0] == "bin" and d[1] in ("Gt", "Ge") and measures(d[2], L) and sum_only(d[2]) and
                                                const_value(d[3]) is not None and const_value(d[3]) <= LIMIT + (1 if d[1] == "Ge" else 0)):
                guards.extend(fe)
            for cbb, tm in appends:
                n += 1
                ctx.check(edge_dominated(cfg, guards, cbb), "R10", "variable-option-append-within-what-the-length-octet-can-say", ctx.where(b, tm["sp"]),
                          "an append to the option's scratch buffer must stand on the edge of a test `buffer length + addition > K` (a plain sum of "
                          "lengths, K <= 254 * 8 octets) where it is false "
                          "(%d such guard edge(s) found); beyond that `1 + (len / 8) as u8` wraps and the option's length is a lie" % len(guards))
    ctx.floor("R10", "guarded appends to length-counted option buffers", n, 1)


def _root_is(T, t, L):
    """the term denotes (a part of) what local L was initialised with"""
    body = T.body
    t = norm(t)
    while t[0] in ("ref", "deref", "field", "index"):
        t = norm(t[1])
    for bb, idx, st in body.stmts():
        if st["p"] == (L,) and "rv" in st:
            if norm(T.rvalue(st["rv"], bb, idx)) == t:
                return True
    for bb, tm in body.calls():
        if tuple(tm["dest"]) == (L,):
            if t[0] == "call" and len(t) > 3 and t[3] == bb:
                return True
    return False
