"""C01 — one address, one client (structural case analysis over the lease pool)."""
from ..util import *
from ..prov import strip, norm, show, subterms
from ..cfg import cfg_of
from ..callgraph import callgraph
from ..poolmodel import *
from ..sql import conjuncts

EXPLANATION = ("SQL-shape + return-site analysis: every SQL statement reaching rusqlite is parsed; who-may-write on table "
               "`leases`; INSERT OR REPLACE on a PRIMARY KEY(address) table; every construction of a Lease is classified as "
               "own-row (address column of a SELECT constrained to the asking client), free-checked candidate (dominated by "
               "the no-row edge of `SELECT .. WHERE expiry >= now AND address = candidate`) or pass-through of a checked "
               "function; the write binds the returned lease's address and the same client parameter; every non-test path "
               "to the packet handler takes the pool mutex")
ASSUMPTIONS = [
    "not decided: behaviour over concrete histories; SQLite implements the statements as documented (trusted)",
    "not decided: wall-clock monotonicity; `as u32` truncation of the timestamp in 2106",
    "trusted: rustc MIR construction/trait resolution; rusqlite binds ?n to the n-th params![] element",
]
EXPLANATION += '; also: the client identity is the client-id option verbatim (else chaddr); no second uniqueness constraint (UNIQUE column or index) on the lease table; SQL batches, CREATE TABLE AS and RENAME are parsed'
EXTRA_CONFIGS = ["dhcp"]


def _is_lease_result(ty):
    return ty.startswith("std::result::Result<") and ty[len("std::result::Result<"):].split(",")[0].endswith("dhcp::pool::Lease")


def own_row_info(ctx, M, body, ipterm):
    """if ipterm is derived from a row of a SELECT in this body: (site, column name or None, why)"""
    t = norm(ipterm)
    qs = query_call_in(t)
    if not qs:
        return None
    site = M.site_of_call_term(body, qs[0])
    if site is None or site.stmt is None:
        return (None, None, "query not analysable")
    sp = spine(t)
    # tuple index: the last ('field', k) before reaching the query call
    idx = None
    for st in sp:
        if st[0] == "call" and "rusqlite::Connection" in st[1]:
            break
        if st[0] == "field":
            idx = st[1]
    cdef = closure_def_of(qs[0][2][3]) if len(qs[0][2]) > 3 else None
    info = closure_row_columns(ctx.P, cdef, site.stmt) if cdef else None
    col = None
    if info and idx is not None and idx in info[1]:
        ci = info[1][idx]
        if site.stmt["kind"] == "select" and ci < len(site.stmt["items"]):
            e = site.stmt["items"][ci][0]
            if e[0] == "col":
                col = e[1]
    return (site, col, "")


def _r6_identity(ctx):
    """two different clients must never be keyed alike: the identity handed to the pool is the client-identifier option exactly as
    the client sent it, or the chaddr when there is none — no stripping, truncating or rewriting of either"""
    P = ctx.P
    fns = [f for f in P.bodies if f.endswith("dhcppkt::Dhcp::get_client_id")]
    ctx.floor("R6", "client identity function", len(fns), 1)
    for f in fns:
        b = P.bodies[f]
        ctx.saw(b)
        T = terms(P, b)
        rets = []
        for bb, idx, st in b.stmts():
            if st["p"] == (0,) and "rv" in st:
                rets.append(norm(T.rvalue(st["rv"], bb, idx)))
        for bb, tm in b.calls():
            if tuple(tm["dest"]) == (0,):
                rets.append(norm(T.call_term(tm, bb)))

        def verbatim(t, depth=0):
            t = norm(t)
            if depth > 8:
                return False
            if t[0] == "phi":
                return all(verbatim(x, depth + 1) for x in t[1])
            if t[0] == "field" and t[2] == "chaddr" and norm(t[1]) == ("param", 1):
                return True
            if t[0] == "payload" and t[1] in ("Some", "?"):
                return verbatim(t[2], depth + 1) if norm(t[2])[0] != "call" else str(norm(t[2])[1]).endswith("DhcpOptions::get_clientid")
            if t[0] == "call" and str(t[1]).endswith("DhcpOptions::get_clientid"):
                return True
            if t[0] == "call" and str(t[1]).rsplit("::", 1)[-1] in ("unwrap_or_else", "unwrap_or", "unwrap_or_default"):
                first = norm(t[2][0])
                if not (first[0] == "call" and str(first[1]).endswith("DhcpOptions::get_clientid")):
                    return False
                if len(t[2]) == 1:
                    return True
                alt = norm(t[2][1])
                cid = closure_def_of_term(alt)
                if cid and cid in P.bodies:
                    cb = P.bodies[cid]
                    Tc = terms(P, cb)
                    outs = [norm(Tc.call_term(tm2, b2)) for b2, tm2 in cb.calls() if tuple(tm2["dest"]) == (0,)] + \
                           [norm(Tc.rvalue(s2["rv"], b2, i2)) for b2, i2, s2 in cb.stmts() if s2["p"] == (0,) and "rv" in s2]
                    return bool(outs) and all(any(y[0] == "field" and y[2] == "chaddr" for y in subterms(lift(P, cb, o)[1])) and not any(
                        y[0] == "call" and INDEXY.search(str(y[1])) for y in subterms(o)) for o in outs)
                return verbatim(alt, depth + 1)
            return False
        ctx.check(bool(rets) and all(verbatim(r) for r in rets), "R6", "client-identity=client-id-option-verbatim-else-chaddr", ctx.where(b),
                  "get_client_id must return options.get_clientid() unchanged, or chaddr when absent (returns %s): any normalisation makes "
                  "distinct clients share a pool key" % [show(r)[:80] for r in rets][:3])


import re as _re
INDEXY = _re.compile(r"(::index$)|(::get$)|(::split)|(::truncate)|(::drain)")


def _r7_uniqueness(ctx, M):
    """INSERT OR REPLACE deletes every row that conflicts on *any* uniqueness constraint: the lease table must have none besides its
    primary key (a UNIQUE index on clientid would make a client's second lease silently delete its first)"""
    n = 0
    for s in M.sites:
        st = s.stmt
        if not st:
            continue
        if st["kind"] == "create_index" and st.get("table") == "leases":
            n += 1
            ctx.check(not st.get("unique"), "R7", "no-second-uniqueness-constraint:index:%s" % ",".join(st.get("columns", [])), ctx.where(s.body, s.term["sp"]),
                      "a UNIQUE index on leases(%s): the allocator's INSERT OR REPLACE then also deletes the rows that collide on it" % ",".join(st.get("columns", [])))
        if st["kind"] == "create" and st.get("table") == "leases":
            n += 1
            txt = st.get("text", "").upper()
            ctx.check(txt.count("UNIQUE") == 0, "R7", "no-second-uniqueness-constraint:table", ctx.where(s.body, s.term["sp"]),
                      "the lease table declares a UNIQUE constraint besides its primary key")
    ctx.floor("R7", "schema statements for the lease table", n, 1)


def run(ctx):
    # "the address a client is told" is the other half of "one address, one client": the reply names the recorded lease (C13.R6)
    ctx.include("C13", rules=("R6",))
    ctx.include("C18", rules=("R5",))      # "across restarts": the store is the file, never a database in memory
    from . import c19
    c19.lease_bounds(ctx)      # a lease time beyond 2^32 - now wraps the stored expiry into the past
    P = ctx.P
    cg = callgraph(P)
    M = PoolModel(P, cg)

    # ---- R0: every SQL statement is a constant the parser understands (unknown SQL fails closed)
    for s in M.sites:
        ctx.saw(s.body)
        ctx.check(s.err is None, "R0", "sql-parses:%s:%s" % (s.body.id.split("::")[-1], (s.stmt or {}).get("kind", "?") + ":" + str((s.stmt or {}).get("table"))),
                  ctx.where(s.body, s.term["sp"]), s.err or (s.stmt["text"][:100] if s.stmt else ""))
    ctx.floor("R0", "SQL statements", len(M.sites), 12)

    # ---- R6: who counts as one client: the pool key is the client-identifier option as sent, else the hardware address
    _r6_identity(ctx)
    # ---- R7: the address is the only uniqueness constraint of the lease table
    _r7_uniqueness(ctx, M)
    # ---- R1: who may write `leases`
    lsql = M.lease_sql()
    inserts = [s for s in lsql if s.stmt["kind"] == "insert"]
    for s in lsql:
        k = s.stmt["kind"]
        if k in ("update", "delete", "drop"):
            ctx.bad("R1", "writer:%s:%s" % (k, s.body.id.split("::")[-1]), ctx.where(s.body, s.term["sp"]),
                    "only the single INSERT OR REPLACE may change rows of `leases`; found %s" % s.stmt["text"][:80])
        elif k == "alter":
            ctx.check(s.stmt["action"] == "add_column", "R1", "ddl:alter:%s" % s.stmt.get("column"), ctx.where(s.body, s.term["sp"]), s.stmt["text"])
        elif k == "create":
            ctx.ok("R1", "ddl:create", ctx.where(s.body, s.term["sp"]), s.stmt["text"][:80])
    ctx.check(len(inserts) == 1, "R1", "single-writer", "", "exactly one statement inserts into `leases` (found %d: %s)" % (
        len(inserts), ", ".join(s.body.id for s in inserts)))
    if len(inserts) != 1:
        return
    W = inserts[0]
    wbody = W.body

    # ---- R2: one row per address
    conflict = W.stmt["conflict"]
    replaces_all = conflict == "REPLACE"
    detail = "conflict clause is %s" % conflict
    if conflict == "UPSERT" and W.stmt.get("upsert"):
        up = W.stmt["upsert"]
        setcols = {c for c, e in up["set"] if e == ("col", c) or (e[0] == "col")}
        need = {"clientid", "start", "expiry"}
        replaces_all = up["target"] == ["address"] and need <= {c for c, _ in up["set"]} and all(
            e == ("col", c) for c, e in up["set"] if c in need) and up.get("where") is None
        detail = "ON CONFLICT(%s) DO UPDATE SET %s — an existing row for the address must take over the new client id, start and expiry (missing: %s)" % (
            ",".join(up["target"]), ",".join(c for c, _ in up["set"]) + (" WHERE ..(conditional)" if up.get("where") is not None else ""),
            sorted(need - {c for c, _ in up["set"]}))
    ctx.check(replaces_all, "R2", "insert-or-replace" if replaces_all else "conflict=%s:row-not-fully-replaced" % conflict, ctx.where(wbody, W.term["sp"]),
              "the lease write must replace the whole row for the address (INSERT OR REPLACE, or an upsert that sets clientid, start, expiry): %s" % detail)
    creates = [s for s in lsql if s.stmt["kind"] == "create"]
    for s in creates:
        ctx.check(s.stmt["primary_key"] == ["address"], "R2", "primary-key(address)", ctx.where(s.body, s.term["sp"]),
                  "CREATE TABLE leases must declare PRIMARY KEY (address); found %s" % s.stmt["primary_key"])
    ctx.floor("R2", "CREATE TABLE leases", len(creates), 1)
    cols = W.stmt["cols"]
    ctx.check(all(c in cols for c in ("address", "clientid", "start", "expiry")), "R2", "insert-columns", ctx.where(wbody, W.term["sp"]), str(cols))

    # ---- R3: every Lease that can be returned is own-row, free-checked, or passed through from a checked fn
    producers = {fid for fid, sig in P.sigs.items() if _is_lease_result(sig_output(sig)) and fid in P.bodies}
    n_sites = 0
    clientid_params = {}   # body id -> set of param locals used as `clientid = ?k`
    for fid in sorted(producers):
        body = P.bodies[fid]
        ctx.saw(body)
        T = terms(P, body)
        cfg = cfg_of(body)
        # (i) what flows into the return place
        for bb, idx, s in body.stmts():
            if s["p"] != (0,) or "rv" not in s:
                continue
            t = norm(T.rvalue(s["rv"], bb, idx))
            for alt in flatten_phi(t):
                where = ctx.where(body, s["sp"])
                if alt[0] == "agg" and alt[2] == "Err":
                    continue
                if alt[0] == "agg" and alt[2] == "Ok":
                    inner = alt[3][0][1]
                    for a2 in flatten_phi(inner):
                        if a2[0] == "agg" and a2[1].endswith("dhcp::pool::Lease"):
                            continue  # the aggregate itself is checked below
                        ctx.bad("R3", "return:unrecognised-lease-value:%s" % fid.split("::")[-1], where,
                                "a returned lease is neither built here nor the result of a checked function: %s" % show(a2)[:200])
                    continue
                if alt[0] == "call" and alt[1] in producers:
                    ctx.ok("R3", "return:pass-through:%s<-%s" % (fid.split("::")[-1], alt[1].split("::")[-1]), where)
                    continue
                ctx.bad("R3", "return:unrecognised:%s" % fid.split("::")[-1], where, "return value %s" % show(alt)[:200])
        for bb, tm in body.calls():
            if tm["dest"] == (0,):
                n = callee_name(tm)
                where = ctx.where(body, tm["sp"])
                if n in producers:
                    ctx.ok("R3", "return:pass-through:%s<-%s" % (fid.split("::")[-1], n.split("::")[-1]), where)
                elif n and "from_residual" in n:
                    pass
                else:
                    ctx.bad("R3", "return:unrecognised-call:%s" % fid.split("::")[-1], where, "returns the result of %s" % n)
        # (ii) every Lease built in this function
        for b, bb, idx, s in find_aggs(P, "dhcp::pool::Lease", [body]):
            n_sites += 1
            t = T.rvalue(s["rv"], bb, idx)
            fields = dict(t[3])
            ip = norm(fields["ip"])
            where = ctx.where(body, s["sp"])
            tag = fid.split("::")[-1]
            # pass-through: `..lease` of a checked function's result
            if ip[0] == "field" and ip[2] == "ip" and ip[1][0] == "payload" and ip[1][2][0] == "call" and ip[1][2][1] in producers:
                ctx.ok("R3", "lease-site:%s:pass-through<-%s" % (tag, ip[1][2][1].split("::")[-1]), where)
                continue
            own = own_row_info(ctx, M, body, ip)
            if own is not None:
                site, col, why = own
                key = "lease-site:%s:own-row" % tag
                if site is None:
                    ctx.bad("R3", key, where, why)
                    continue
                st = site.stmt
                okk = st["kind"] == "select" and st["table"] == "leases" and col == "address"
                cj = conjuncts(st.get("where"))
                bound = None
                for c in cj:
                    if c[0] == "cmp" and c[1] == "=" and ("col", "clientid") in (c[2], c[3]):
                        p = c[3] if c[2] == ("col", "clientid") else c[2]
                        if p[0] == "param":
                            bound = site.param(p[1])
                # a disjunction anywhere in WHERE could let another client's row through
                has_or = any(x[0] == "or" for c in cj for x in _walk(c))
                okk = okk and bound is not None and bound[0] == "param" and not has_or
                key = "lease-site:%s:own-row:%s" % (tag, "clientid=param" if okk else "unconstrained")
                ctx.check(okk, "R3", key, where,
                          "lease taken from a row of `%s`: the address must be column `address` (is %s) of a SELECT on leases whose "
                          "WHERE has the conjunct clientid = <the asking client parameter> (bound: %s)" % (
                              st["text"][:90], col, show(bound) if bound else None))
                if okk:
                    clientid_params.setdefault(body.id, set()).add(bound[1])
                continue
            # candidate: needs a dominating free check
            _check_candidate(ctx, M, cg, body, T, cfg, bb, ip, where, tag)
    ctx.floor("R3", "Lease construction sites", n_sites, 5)

    # ---- R4: the write stores the returned lease's address under the asking client's id
    Tw = terms(P, wbody)
    pa = W.stmt["values"][cols.index("address")]
    pc = W.stmt["values"][cols.index("clientid")]
    addr = W.param(pa[1]) if pa[0] == "param" else None
    cid = W.param(pc[1]) if pc[0] == "param" else None
    ret_ips = []
    for bb, idx, s in wbody.stmts():
        if s["p"] == (0,) and "rv" in s:
            t = norm(Tw.rvalue(s["rv"], bb, idx))
            for alt in flatten_phi(t):
                if alt[0] == "agg" and alt[2] == "Ok":
                    for a2 in flatten_phi(alt[3][0][1]):
                        if a2[0] == "agg" and a2[1].endswith("dhcp::pool::Lease"):
                            ret_ips.append(dict(a2[3])["ip"])
                        else:
                            ret_ips.append(("field", a2, "ip"))
    where = ctx.where(wbody, W.term["sp"])
    good = addr is not None and addr[0] == "call" and addr[1].endswith("to_string") and ret_ips and all(norm(addr[2][0]) == norm(r) for r in ret_ips)
    ctx.check(good, "R4", "write:address=returned-lease.ip", where,
              "INSERT binds address to %s; the function returns lease ip %s" % (show(addr) if addr else None, [show(r)[:80] for r in ret_ips]))
    good = cid is not None and cid[0] == "param"
    ctx.check(good, "R4", "write:clientid=param", where, "INSERT binds clientid to %s" % (show(cid) if cid else None))
    if good:
        # the selection call receives the same parameter, and the callee's own-row queries use it
        chain_ok = False
        detail = []
        for bb, tm in wbody.calls():
            n = callee_name(tm)
            if n in producers:
                args = [norm(Tw.at_term(a, bb)) for a in tm["args"]]
                for j, a in enumerate(args):
                    if a == cid:
                        want = j + 1
                        got = clientid_params.get(n, set())
                        detail.append("%s uses param %s as clientid, receives writer's client id as param %d" % (n.split("::")[-1], sorted(got), want))
                        if got == {want}:
                            chain_ok = True
        ctx.check(chain_ok, "R4", "write:clientid=same-client-as-selection", where, "; ".join(detail) or "no selection call receives the client id")

    # ---- R5: serialisation — every non-test path to the packet handler holds the pool mutex
    _r5(ctx, cg)


def _walk(e):
    if isinstance(e, tuple):
        yield e
        for x in e[1:]:
            if isinstance(x, tuple):
                yield from _walk(x)


def _check_candidate(ctx, M, cg, body, T, cfg, bb, ip, where, tag):
    P = ctx.P
    found = False
    for site in M.sites:
        if site.body.id != body.id or site.stmt is None or site.stmt["kind"] != "select" or site.stmt["table"] != "leases":
            continue
        cj = conjuncts(site.stmt.get("where"))
        a_param = t_param = None
        t_op = None
        extra = []
        for c in cj:
            if c[0] == "cmp" and c[1] == "=" and ("col", "address") in (c[2], c[3]):
                p = c[3] if c[2] == ("col", "address") else c[2]
                if p[0] == "param":
                    a_param = p[1]
                    continue
            if c[0] == "cmp" and c[1] in (">=", ">", "<=", "<") and ("col", "expiry") in (c[2], c[3]):
                if c[2] == ("col", "expiry") and c[3][0] == "param":
                    t_param, t_op = c[3][1], c[1]
                    continue
                if c[3] == ("col", "expiry") and c[2][0] == "param":
                    t_param, t_op = c[2][1], {"<=": ">=", "<": ">", ">=": "<=", ">": "<"}[c[1]]
                    continue
            extra.append(c)
        if a_param is None:
            continue
        a = site.param(a_param)
        if a is None or not (a[0] == "call" and a[1].endswith("to_string") and norm(a[2][0]) == ip):
            continue
        found = True
        key = "lease-site:%s:free-check" % tag
        # (1) shape of the check
        shape_ok = t_param is not None and t_op in (">=", ">") and not extra
        ctx.check(shape_ok, "R3", key + ":where=expiry%saddr%s" % (t_op or "?", "" if not extra else "+extra"), where,
                  "free check must be exactly `expiry >= ?now AND address = ?candidate` (or >); found %s" % site.stmt["text"][:120])
        # (2) the timestamp is the current time with no offset
        if t_param is not None:
            tt = site.param(t_param)
            alts = resolve_params(P, cg, body, tt)
            for alt, via in alts:
                okk, why = is_now_seconds(alt)
                ctx.check(okk, "R3", key + ":time=now" + ("" if okk else ":" + why.split(" ")[0]), where,
                          "the free check's time bound must be the current time in seconds, unshifted (%s via %s): %s" % (
                              show(alt)[:120], via.id.split("::")[-1], why))
        # (3) the Lease is built only on the no-row edge, with no redefinition of the candidate in between
        edges = M.norow_edges(body, site)
        dom = [e for e, how in edges if cfg.edge_dominates(e, bb)]
        ctx.check(bool(dom), "R3", key + ":dominated-by-no-row-edge", where,
                  "the lease must be built only on the edge where the free check returned no row (no-row edges: %s)" % (
                      [how for _, how in edges] or "none recognised"))
        if dom:
            defblocks = {s[3] for s in subterms(ip) if s[0] == "call"}
            for (sb, tgt) in dom:
                fwd = cfg.reachable_from(tgt)
                # blocks that can reach bb
                rev = set()
                todo = [bb]
                while todo:
                    x = todo.pop()
                    if x in rev:
                        continue
                    rev.add(x)
                    todo.extend(cfg.pred[x])
                onpath = fwd & rev
                ctx.check(not (defblocks & onpath), "R3", key + ":candidate-not-redefined", where,
                          "the candidate address must not be recomputed between the free check and the lease")
    if not found:
        ctx.bad("R3", "lease-site:%s:unchecked-candidate" % tag, where,
                "lease address %s is neither the asking client's own row nor covered by a free check "
                "(SELECT .. FROM leases WHERE expiry >= now AND address = <this address>)" % show(ip)[:160])


def _r5(ctx, cg):
    P = ctx.P
    # anchor: the fn taking (&mut Pool, ...) and returning Result<Dhcp, _> (the packet handler)
    handlers = [fid for fid, sig in P.sigs.items()
                if sig["inputs"] and sig["inputs"][0].endswith("dhcp::pool::Pool") and sig["inputs"][0].startswith("&mut")
                and "dhcp::dhcppkt::Dhcp" in sig_output(sig) and "DHCPRequest" in " ".join(sig["inputs"])]
    # the outermost one: not called by another handler
    top = [h for h in handlers if not any(cb.id in handlers or (cb.parent in handlers) for cb, _, _ in cg.callers(h))]
    n = 0
    for h in top:
        for cb, bb, tm in cg.callers(h):
            n += 1
            ctx.saw(cb)
            T = terms(P, cb)
            a0 = norm(T.at_term(tm["args"][0], bb))
            # expect: deref_mut(MutexGuard from tokio::sync::Mutex::lock(..).await)
            locked = any(s[0] == "call" and isinstance(s[1], str) and s[1].startswith("tokio::sync::Mutex") and s[1].endswith("::lock")
                         for s in subterms(a0))
            ctx.check(locked, "R5", "handler-call-under-pool-mutex:%s" % cb.id.split("::")[-2 if cb.kind != "fn" else -1],
                      ctx.where(cb, tm["sp"]),
                      "the &mut Pool handed to the packet handler must come from tokio::sync::Mutex<Pool>::lock (is %s)" % show(a0)[:200])
    ctx.floor("R5", "call sites of the packet handler", n, 1)
    # the pool type itself must not be shareable without the mutex: Pool holds a rusqlite::Connection (not Sync)
    adt = P.adt("erbium::dhcp::pool::Pool")
    if adt is not None:
        tys = [f["ty"] for f in adt["variants"][0]["fields"]]
        ctx.check(tys == ["rusqlite::Connection"], "R5", "pool-state-is-the-connection", "crates/erbium-core/src/dhcp/pool.rs",
                  "Pool must hold no lease state besides the database connection (fields: %s)" % tys)
