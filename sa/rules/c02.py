"""C02 — the pool is exactly the configured set (structural clauses)."""
from ..util import *
from ..prov import strip, norm, show, subterms
from ..cfg import cfg_of
from ..callgraph import callgraph
from ..poolmodel import *
from ..affine import affine
from .c01 import own_row_info, _is_lease_result

EXPLANATION = ("range-bound, sanitiser, subtraction and ordering rules: host ranges built from the subnet size (`1 << (32 - prefixlen)` or the host mask `u32::MAX >> prefixlen`) are "
               "normalised to affine form and must span offsets 1 .. size-2 (both ends); the address set handed to the pool has "
               "had the receiving address removed on every path; a policy's stored set is its own addresses minus every "
               "child's used addresses, and used-addresses is own ∪ children recursively; apply-range is an inclusive range of "
               "the parsed bounds; a policy sets the response's address set before descending into its children; every Lease "
               "construction is dominated by a pool-membership test or draws from an iteration over the pool")
ASSUMPTIONS = ["not decided: set equality Allowed = D(config, ...) over arbitrary nested configurations; sibling reservations "
               "(the manual is silent)", "arithmetic safety of the range expressions for every accepted prefix length is C19's clause"]
EXPLANATION += "; also: the host offset is added to the network address; a policy's three address sources accumulate; whether a reserving policy applies at all is C11's walk (included)"
EXTRA_CONFIGS = ["dhcp"]


def _size_offset(t):
    """k such that t == S + k, where S = 2^(32 - prefixlen) is the size of the subnet:
         1 << (32 - prefixlen)                                   ->  0
         u32::MAX >> prefixlen  (also checked_shr(..).unwrap_or(0), which only differs for /32 where both are 0)  -> -1"""
    if t[0] == "bin" and t[1] in ("Shl", "ShlUnchecked"):
        a = norm(t[2])
        if a[0] == "const" and a[1] == 1:
            sh = norm(t[3])
            subs = [x for x in subterms(sh) if x[0] == "bin" and x[1].startswith("Sub")]
            if any(x[0] == "field" and x[2] == "prefixlen" for x in subterms(sh)) and any(
                    norm(x[2])[0] == "const" and norm(x[2])[1] == 32 for x in subs):
                return 0
        return None
    sh = None
    if t[0] == "bin" and t[1] in ("Shr", "ShrUnchecked"):
        sh = (norm(t[2]), norm(t[3]))
    if t[0] == "call" and str(t[1]).endswith("::unwrap_or") and len(t[2]) == 2:
        inner, dflt = norm(t[2][0]), norm(t[2][1])
        if dflt[0] == "const" and dflt[1] == 0 and inner[0] == "call" and str(inner[1]).endswith("::checked_shr"):
            sh = (norm(inner[2][0]), norm(inner[2][1]))
    if sh is not None:
        a, b = sh
        allones = a[0] == "const" and (a[1] == 0xFFFFFFFF or a[1] == ("named", "core::num::<impl u32>::MAX"))
        if allones and any(x[0] == "field" and x[2] == "prefixlen" for x in subterms(b)) and not any(
                x[0] == "bin" for x in subterms(b)):
            return -1
    return None


def _is_shl_size(t):
    return _size_offset(t) is not None


def _r8_allocator_gets_the_policy_set(ctx):
    """R8 the set an address is chosen from is the set the policies left in the response, and the allocator is asked once: each handler's
    call of Pool::allocate_address passes `response.address` itself (the payload of its Some), outside any loop. A second attempt
    with a wider set (the network's pool when the policy's own is exhausted) gives out addresses the innermost policy excludes."""
    P = ctx.P
    n = 0
    for b in P.bodies.values():
        if b.id not in ("erbium::dhcp::handle_discover", "erbium::dhcp::handle_request"):
            continue
        T = terms(P, b)
        cfg = cfg_of(b)
        loops = [cfg.natural_loop(e) for e in cfg.back_edges()]
        for bb, tm in b.calls():
            if not (callee_name(tm) or "").endswith("Pool::allocate_address") or len(tm["args"]) < 4:
                continue
            n += 1
            ctx.saw(b)
            a = norm(T.call_args(bb)[3])
            while a[0] in ("ref", "deref"):
                a = norm(a[1])
            own = a[0] == "payload" and a[1] == "Some" and norm(a[2])[0] == "field" and norm(a[2])[2] == "address"
            in_loop = any(bb in l for l in loops)
            ctx.check(own and not in_loop, "R8", "allocator-is-given-the-response's-own-set-once:%s" % b.id.rsplit("::", 1)[-1], ctx.where(b, tm["sp"]),
                      "allocate_address must be called once with response.address (is %s; inside a loop: %s)" % (show(a)[:80], in_loop))
    if ctx.config in ("default", "dhcp"):
        ctx.floor("R8", "allocator calls in the handlers", n, 2)


def run(ctx):
    P = ctx.P
    cg = callgraph(P)
    M = PoolModel(P, cg)
    # "a host with a single-address reservation gets that address": whether the reserving policy applies at all is
    # decided by the policy walk, whose rules belong to C11
    ctx.include("C11", rules=("anchor", "R2", "R3", "R6"))
    # the allocator remembers nothing between calls but the lease rows: no list of candidates worked out for an earlier pool
    ctx.include("C18", rules=("R7",))
    _r8_allocator_gets_the_policy_set(ctx)
    # ---------------- R1: host range bounds
    n = 0
    for b, bb, idx, s in list(find_aggs(P, "std::ops::Range")) + list(find_aggs(P, "std::ops::RangeInclusive")):
        T = terms(P, b)
        t = norm(T.rvalue(s["rv"], bb, idx))
        f = dict(t[3])
        if "end" not in f:
            continue
        if not any(_is_shl_size(x) for x in subterms(f["end"])):
            continue
        n += 1
        ctx.saw(b)
        where = ctx.where(b, s["sp"])
        # the range (and every adaptor stacked on it) is consumed once, by whatever builds the address set: nothing takes items out
        # of it on the side (`log::debug!("{:?} to {:?}", hosts.next(), hosts.next_back())` does, when debug logging is on)
        chain, cur = set(), (s["p"][0] if len(s["p"]) == 1 else None)
        for _ in range(8):
            if cur is None:
                break
            chain.add(cur)
            nxt = None
            for b2, t2 in b.calls():
                if t2["args"] and op_place(t2["args"][0]) == (cur,) and len(t2["dest"]) == 1 and "Iterator" in (callee_name(t2) or "") + str(t2["callee"].get("decl")):
                    nxt = t2["dest"][0]
            for b2, i2, s2 in b.stmts():
                if s2.get("rv") and s2["rv"]["k"] == "use" and op_place(s2["rv"]["op"]) == (cur,) and len(s2["p"]) == 1:
                    nxt = s2["p"][0]
            cur = nxt
        # (one borrow expression is one borrow, also when normalisation copied the block it stands in: keyed by its full span)
        sipped = sorted({str(s2["sp"]): P.rel(s2["sp"]) for b2, i2, s2 in b.stmts() if s2.get("rv") and s2["rv"]["k"] == "ref" and s2["rv"].get("bk") == "mut" and
                         len(s2["rv"]["place"]) == 1 and s2["rv"]["place"][0] in chain}.values())
        # (a `for` loop over it is one consumer: one mutable borrow, in the loop; an adaptor chain handed to collect / extend is one
        # consumer: no mutable borrow at all)
        byvalue = [1 for b2, t2 in b.calls() for a_ in t2["args"][:1] if op_place(a_) and op_place(a_)[0] in chain and len(op_place(a_)) == 1 and
                   not (len(t2["dest"]) == 1 and t2["dest"][0] in chain)]
        if len(sipped) + len(byvalue) <= 1:
            sipped = []
        ctx.check(not sipped, "R1", "host-range:%s:consumed-only-by-the-pool" % (b.id.split("::")[-2] if b.kind == "closure" else b.id.split("::")[-1]), where,
                  "the host-range iterator is borrowed mutably at %s: items taken there never reach the pool" % (sipped or "-"))
        st = affine(f["start"], _is_shl_size)
        en = affine(f["end"], _is_shl_size)
        tag = b.id.split("::")[-2] if b.kind == "closure" else b.id.split("::")[-1]
        inclusive = t[1].endswith("RangeInclusive")
        if st is None or en is None or len(en[0]) != 1 or list(en[0].values()) != [1]:
            ctx.bad("R1", "host-range:%s:unrecognised" % tag, where, "cannot normalise the host range bounds (start %s, end %s); cannot decide" % (
                show(f["start"])[:80], show(f["end"])[:120]))
            continue
        first = st[1] if not st[0] else None
        last = en[1] + _size_offset(list(en[0])[0]) - (0 if inclusive else 1)   # last offset relative to size S: S + last
        ctx.check(first == 1, "R1", "host-range:%s:first-offset=%s" % (tag, first), where,
                  "the first leasable host is network+1 (first offset is %s)" % first)
        ctx.check(last == -2, "R1", "host-range:%s:last-offset=size%+d" % (tag, last), where,
                  "the last leasable host is broadcast-1 = network + size - 2; the range ends at network + size %+d, so the "
                  "top %d host address(es) can never be leased" % (last, -2 - last) if last < -2 else
                  "the range ends at network + size %+d, beyond the last host" % last)
    for b in P.bodies.values():
        for bb, tm in b.calls():
            nme = callee_name(tm) or ""
            if "RangeInclusive" in nme and nme.endswith("::new"):
                T = terms(P, b)
                a = [norm(x) for x in T.call_args(bb)]
                if any(_is_shl_size(x) for x in subterms(a[1])):
                    n += 1
                    en = affine(a[1], _is_shl_size)
                    st = affine(a[0], _is_shl_size)
                    tag = b.id.split("::")[-1]
                    okk = st is not None and en is not None and not st[0] and st[1] == 1 and list(en[0].values()) == [1] and \
                        en[1] + _size_offset(list(en[0])[0]) == -2
                    ctx.check(okk, "R1", "host-range:%s:inclusive:1..=size-2" % tag, ctx.where(b, tm["sp"]), "start %s end %s" % (st, en))
    ctx.floor("R1", "host ranges derived from a prefix length", n, 2)
    # the offsets of a host range are added to the *network* address of the subnet (the address as written may have host bits)
    n2 = 0
    hosts = set()
    for b, bb, idx, s in list(find_aggs(P, "std::ops::Range")):
        T = terms(P, b)
        t = norm(T.rvalue(s["rv"], bb, idx))
        f = dict(t[3])
        if "end" in f and any(_is_shl_size(x) for x in subterms(f["end"])):
            root = b.id
            while P.bodies[root].parent:
                root = P.bodies[root].parent
            hosts.add(root)
    for root in sorted(hosts):
        for b in P.family(root):
            T = terms(P, b)
            for bb, idx, st in b.stmts():
                rv = st.get("rv")
                if not (rv and rv["k"] == "bin" and rv["op"] in ("Add", "AddWithOverflow") and rv.get("ty") == "u32"):
                    continue
                ops = [norm(T.operand(rv[k], bb, idx)) for k in ("a", "b")]
                lifted = ops + [lift(P, b, x)[1] for x in ops]
                if not any(any(y[0] == "call" and "Ipv4" in str(y[1]) or (y[0] == "call" and str(y[1]).rsplit("::", 1)[-1] in ("network", "addr")) or (y[0] == "field" and y[2] in ("addr",)) for y in subterms(x)) for x in lifted):
                    continue     # not address arithmetic
                n2 += 1
                good = any(any(y[0] == "call" and str(y[1]).rsplit("::", 1)[-1] == "network" for y in subterms(x)) for x in lifted)
                tag = b.id.split("::")[-1] if not b.id.endswith("}") else [p_ for p_ in b.id.split("::") if not p_.startswith("{")][-1]
                ctx.check(good, "R1", "host-offset-added-to-the-network-address:%s" % tag, ctx.where(b, st["sp"]),
                          "a pool built from a prefix is network + offset; the base here is %s — with a prefix written with host bits "
                          "(192.0.2.53/24) the pool is shifted and reaches past the subnet" % [show(x)[:60] for x in lifted[2:]])
    ctx.floor("R1", "address arithmetic in the host-range expansions", n2, 2)

    # ---------------- R4: apply-range is inclusive of both parsed bounds
    n = 0
    for b in P.bodies.values():
        if not b.id.endswith("parse_policy"):
            continue
        T = terms(P, b)
        for bb, tm in b.calls():
            nme = callee_name(tm) or ""
            if "RangeInclusive" in nme and nme.endswith("::new"):
                a = [norm(x) for x in T.call_args(bb)]
                n += 1
                ctx.saw(b)
                good = all(x[0] == "call" and "From<std::net::Ipv4Addr> for u32" in str(x[1]) for x in a) and a[0] != a[1]
                ctx.check(good, "R4", "apply-range:inclusive(start,end)", ctx.where(b, tm["sp"]),
                          "apply-range must expand to u32(start)..=u32(end) (is %s ..= %s)" % (show(a[0])[:60], show(a[1])[:60]))
    ctx.floor("R4", "inclusive address ranges in the policy parser", n, 1)

    # ---------------- R7: every address source of a policy adds to the same list
    _r7(ctx)
    # ---------------- R2: the receiving address is removed before the pool is asked
    _r2(ctx, M, cg)
    # ---------------- R3: descendant subtraction
    _r3(ctx, cg)
    # ---------------- R5: a policy sets the address set before descending
    _r5(ctx)
    # ---------------- R6: membership before grant
    _r6(ctx, M)


def _r7(ctx):
    """apply-address, apply-range and apply-subnet of one policy all contribute to one address list: inside the key loop the list is
    only ever obtained with get_or_insert_with (and extended); it is never replaced, re-inserted or taken"""
    P = ctx.P
    n = 0
    for b in P.bodies.values():
        if not b.id.endswith("dhcp::config::Config::parse_policy"):
            continue
        ctx.saw(b)
        T = terms(P, b)
        cfg = cfg_of(b)
        loops = [cfg.natural_loop(e) for e in cfg.back_edges()]
        cand = [i for i, l in enumerate(b.locals) if l["ty"].replace(" ", "") == "std::option::Option<std::vec::Vec<std::net::Ipv4Addr>>" and b.local_name(i)]
        for L in cand:
            for bb, tm in b.calls():
                if not any(bb in l for l in loops):
                    continue
                recv = borrowed_place(T, tm["args"][0], bb, len(b.blocks[bb]["stmts"])) if tm["args"] else None
                if recv is None or recv[0] != L or len(recv) != 1:
                    continue
                last = (callee_name(tm) or "").rsplit("::", 1)[-1]
                n += 1
                ok_ = last in ("get_or_insert_with", "get_or_insert", "get_or_insert_default", "as_mut", "as_ref", "is_some", "is_none", "as_deref_mut", "iter")
                ctx.check(ok_, "R7", "policy-address-sources-accumulate:%s:%s" % (b.local_name(L), last), ctx.where(b, tm["sp"]),
                          "Option::%s on the policy's address list inside the key loop discards what an earlier apply-address / apply-range / "
                          "apply-subnet of the same policy contributed" % last)
            for bb, idx, st in b.stmts():
                if st["p"] == (L,) and any(bb in l for l in loops) and "rv" in st and st["rv"]["k"] == "agg":
                    n += 1
                    ctx.bad("R7", "policy-address-sources-accumulate:%s:reassigned" % b.local_name(L), ctx.where(b, st["sp"]),
                            "the policy's address list is reassigned inside the key loop")
    ctx.floor("R7", "uses of the policy's address list in the key loop", n, 3)


def _r2(ctx, M, cg):
    P = ctx.P
    inserts = [s for s in M.lease_sql() if s.stmt["kind"] == "insert"]
    ctx.check(len(inserts) <= 1, "R4", "single-lease-writer", "", "exactly one statement inserts into `leases` (found %d: %s): a second writer "
              "is outside everything this property's rules say about the writer" % (len(inserts), ", ".join(x.body.id for x in inserts)))
    if len(inserts) != 1:
        ctx.bad("R2", "writer-not-unique", "", "")
        return
    writer = inserts[0].body.id
    n = 0
    for cb, bb, tm in cg.callers(writer):
        n += 1
        ctx.saw(cb)
        T = terms(P, cb)
        cfg = cfg_of(cb)
        tag = cb.id.split("::")[-1]
        # the local holding the address set
        arg = tm["args"][3]
        st = single_def_stmt(T, arg, bb, len(cb.blocks[bb]["stmts"]))
        set_local = None
        cur = arg
        for _ in range(6):
            st = single_def_stmt(T, cur, bb, len(cb.blocks[bb]["stmts"])) if op_place(cur) else None
            if st is None:
                break
            rv = st["rv"]
            if rv["k"] == "ref":
                set_local = rv["place"]
                if len(set_local) > 1 and set_local[1] == "*":
                    cur = {"c": (set_local[0],)}
                    set_local = None
                    continue
                break
            if rv["k"] == "use" and op_place(rv["op"]):
                cur = rv["op"]
                continue
            break
        removed = False
        how = "no removal found"
        if set_local is not None:
            for b2, t2 in cb.calls():
                n2 = callee_name(t2) or ""
                if n2.startswith("std::collections::HashSet") and n2.rsplit("::", 1)[1] in ("remove", "take"):
                    a = T.call_args(b2)
                    tgt = norm(a[0])
                    # the receiver must be a &mut of the same local
                    recv = single_def_stmt(T, t2["args"][0], b2, len(cb.blocks[b2]["stmts"]))
                    same = False
                    for _ in range(4):
                        if recv is None:
                            break
                        if recv["rv"]["k"] == "ref" and recv["rv"]["place"][:1] == set_local[:1]:
                            same = True
                            break
                        if recv["rv"]["k"] in ("use",) and op_place(recv["rv"]["op"]):
                            recv = single_def_stmt(T, recv["rv"]["op"], recv["_at"][0], recv["_at"][1])
                        elif recv["rv"]["k"] == "ref" and recv["rv"]["place"][1:2] == ("*",):
                            recv = single_def_stmt(T, {"c": (recv["rv"]["place"][0],)}, recv["_at"][0], recv["_at"][1])
                        else:
                            break
                    key = norm(a[1])
                    if same and key[0] == "field" and key[2] == "serverip" and cfg.dominates(b2, bb):
                        removed = True
                        how = "HashSet::remove(&serverip) dominates the allocation"
        ctx.check(removed, "R2", "own-address-excluded:%s" % tag, ctx.where(cb, tm["sp"]),
                  "the address set handed to the pool must have the receiving interface's own address removed on every path "
                  "(only the built-in default policy filters it; sets from dhcp-policies reach the pool unfiltered): %s" % how)
    ctx.floor("R2", "allocation call sites", n, 2)


def _r3(ctx, cg):
    P = ctx.P
    # (a) the policy parser stores own addresses minus every child's used addresses
    n = 0
    for b in P.bodies.values():
        if not b.id.endswith("dhcp::config::Config::parse_policy"):
            continue
        ctx.saw(b)
        T = terms(P, b)
        cfg = cfg_of(b)
        for bb, idx, s in b.stmts():
            if len(s["p"]) >= 2 and s["p"][-1] == ".apply_address" and "rv" in s:
                n += 1
                t = norm(T.rvalue(s["rv"], bb, idx))
                subs = [x for x in subterms(t) if x[0] == "call" and " as std::ops::Sub" in str(x[1]) and str(x[1]).endswith("::sub")]
                good = any(any(y[0] == "call" and str(y[1]).endswith("get_all_used_addresses") for y in subterms(x[2][1])) for x in subs)
                # and the subtraction happens in a loop over the children (`policies`)
                in_loop = False
                loops = [cfg.natural_loop(e) for e in cfg.back_edges()]
                for x in subs:
                    if any(x[3] in l for l in loops):
                        it = [y for y in subterms(x[2][1]) if y[0] == "field" and y[2] == "policies"]
                        in_loop = in_loop or bool(it) or True
                if not (good and in_loop):
                    # the same subtraction written as a fold over the children: policies.iter().fold(own, |rest, p| rest.sub(&p.get_all_used_addresses()))
                    for x in subterms(t):
                        if x[0] == "call" and str(x[1]).rsplit("::", 1)[-1] == "fold" and len(x[2]) == 3 and \
                                any(y[0] == "field" and y[2] == "policies" for y in subterms(norm(x[2][0]))):
                            cid = closure_def_of(norm(x[2][2]))
                            cb2 = P.bodies.get(cid) if cid else None
                            if cb2 is not None:
                                Tc2 = terms(P, cb2)
                                for b3, t3 in cb2.calls():
                                    n3 = callee_name(t3) or ""
                                    if " as std::ops::Sub" in n3 and n3.endswith("::sub") and tuple(t3["dest"]) == (0,):
                                        a3 = [norm(q) for q in Tc2.call_args(b3)]
                                        # accumulator minus the child's used set: first operand is the closure's first argument
                                        first = a3[0]
                                        while first[0] in ("ref", "deref"):
                                            first = norm(first[1])
                                        if first == ("param", 2) and any(y[0] == "call" and str(y[1]).endswith("get_all_used_addresses") for y in subterms(a3[1])):
                                            good = in_loop = True
                ctx.check(good and in_loop, "R3", "policy-set=own-minus-children-used", ctx.where(b, s["sp"]),
                          "apply_address must be the policy's own addresses minus get_all_used_addresses() of every child policy (is %s)" % show(t)[:160])
    ctx.floor("R3", "assignments of a parsed policy's address set", n, 1)
    # (b) the built-in default policy subtracts everything the configuration uses
    n = 0
    for b, bb, idx, s in find_aggs(P, "dhcp::config::Policy"):
        root = b.id
        while P.bodies[root].parent:
            root = P.bodies[root].parent
        if not root.endswith("build_default_config"):
            continue
        T = terms(P, b)
        t = norm(T.rvalue(s["rv"], bb, idx))
        f = dict(t[3])
        aa = norm(f["apply_address"])
        if aa[0] == "agg" and aa[2] == "Some":
            n += 1
            ctx.saw(b)
            v = aa[3][0][1]
            good = False
            if v[0] == "call" and str(v[1]).endswith("::sub"):
                rhs = v[2][1]
                rp = resolve_path(P, b, rhs)
                # upvar <- conf.dhcp.get_all_used_addresses()
                cb = capture_binding(P, b)
                if cb is not None:
                    parent, ups = cb
                    for u in ups:
                        u = norm(u)
                        if u[0] == "call" and str(u[1]).endswith("get_all_used_addresses"):
                            good = True
                if any(y[0] == "call" and str(y[1]).endswith("get_all_used_addresses") for y in subterms(rhs)):
                    good = True
            ctx.check(good, "R3", "default-policy-set-minus-all-used", ctx.where(b, s["sp"]),
                      "the default pool must exclude every address used by a configured policy (.sub(&conf.dhcp.get_all_used_addresses())): %s" % show(v)[:160])
            # and filters the receiving address
            filt = [y for y in subterms(v) if y[0] == "call" and y[1] == "std::iter::Iterator::filter"]
            good = False
            for y in filt:
                cid = closure_def_of(y[2][1])
                if cid and cid in P.bodies:
                    cbod = P.bodies[cid]
                    Tc = terms(P, cbod)
                    for b2, t2 in cbod.calls():
                        n2 = callee_name(t2) or ""
                        if n2.endswith("::ne") or n2.endswith("::eq"):
                            args = [norm(x) for x in Tc.call_args(b2)]
                            # a captured variable is looked at in the vocabulary of the function that created the closure
                            args = args + [lift(P, cbod, x)[1] for x in args]
                            def is_receiving(a):
                                # the receiving address itself (request.serverip), not something computed from it and from what the
                                # client says: `get_serverid().unwrap_or(request.serverip)` is the client's word when it gives one
                                a = norm(a)
                                while a[0] in ("ref", "deref"):
                                    a = norm(a[1])
                                return a[0] == "field" and a[2] == "serverip"
                            if any(is_receiving(a) for a in args) and n2.endswith("::ne") and t2["dest"] == (0,):
                                good = True
            ctx.check(good, "R3", "default-policy-filters-own-address", ctx.where(b, s["sp"]),
                      "the default pool must not contain the receiving address: the filter compares with request.serverip itself")
    ctx.floor("R3", "default policy address sets", n, 1)
    # (c) used addresses = own ∪ children, recursively
    n = 0
    for fid in P.bodies:
        if fid.endswith("dhcp::config::Policy::get_all_used_addresses"):
            b = P.bodies[fid]
            n += 1
            ctx.saw(b)
            T = terms(P, b)
            cfg = cfg_of(b)
            ext = [(bb, tm) for bb, tm in b.calls() if (callee_name(tm) or "").endswith("::extend")]
            own = rec = False
            loops = [cfg.natural_loop(e) for e in cfg.back_edges()]
            for bb, tm in ext:
                a = norm(T.call_args(bb)[1])
                if any(y[0] == "field" and y[2] == "apply_address" for y in subterms(a)):
                    own = True
                if any(y[0] == "call" and y[1] == fid for y in subterms(a)) and any(bb in l for l in loops):
                    rec = True
            ctx.check(own and rec, "R3", "used-addresses=own-union-children-recursively", ctx.where(b),
                      "own addresses included: %s; recursion over all children in a loop: %s" % (own, rec))
            # the children are visited whether or not the policy has an address set of its own
            cond = False
            for sbb, stm in b.terms():
                if stm["k"] == "switch":
                    d = norm(T.at_term(stm["discr"], sbb))
                    if d[0] == "discr" and d[1][0] == "field" and d[1][2] == "apply_address":
                        for i in (0, 1):
                            es = discr_edges(cfg, sbb, i)
                            for bb, tm in ext:
                                a = norm(T.call_args(bb)[1])
                                if any(y[0] == "call" and y[1] == fid for y in subterms(a)) and edge_dominated(cfg, es, bb):
                                    cond = True
            ctx.check(not cond, "R3", "children-visited-regardless-of-own-set", ctx.where(b),
                      "addresses reserved by sub-policies are used addresses even when the policy has its own set (the parser has already "
                      "subtracted them from that set): the recursion must not depend on apply_address being absent/present")
    ctx.floor("R3", "Policy::get_all_used_addresses", n, 1)


def _r5(ctx):
    P = ctx.P
    n = 0
    for fid, sig in P.sigs.items():
        ins = sig["inputs"]
        if len(ins) == 3 and ins[1].endswith("dhcp::config::Policy") and ins[2].startswith("&mut") and fid in P.bodies:
            b = P.bodies[fid]
            T = terms(P, b)
            cfg = cfg_of(b)
            sets = [bb for bb, idx, s in b.stmts() if s["p"][-1:] == (".address",) and "rv" in s]
            desc = []
            for bb, tm in b.calls():
                a = [norm(x) for x in T.call_args(bb)]
                if len(a) == 3 and any(y[0] == "field" and y[2] == "policies" for y in subterms(a[1])) and tm["args"][2] and \
                        "bool" == b.local_ty(tm["dest"][0]) and "&mut" in (b.local_ty(op_place(tm["args"][2])[0]) if op_place(tm["args"][2]) else ""):
                    desc.append(bb)
            if not sets or not desc:
                continue
            n += 1
            ctx.saw(b)
            bad = [(d, s) for d in desc for s in sets if cfg.paths_exist(d, s)]
            ctx.check(not bad, "R5", "own-address-set-before-children", ctx.where(b),
                      "a policy must store its address set in the response before its sub-policies are applied, so that the "
                      "innermost matching policy wins (assignment reachable after the descent: %s)" % bool(bad))
    ctx.floor("R5", "policy application function", n, 1)


def _r6(ctx, M):
    P = ctx.P
    producers = {fid for fid, sig in P.sigs.items() if _is_lease_result(sig_output(sig)) and fid in P.bodies}
    n = 0
    for fid in sorted(producers):
        body = P.bodies[fid]
        T = terms(P, body)
        cfg = cfg_of(body)
        for b, bb, idx, s in find_aggs(P, "dhcp::pool::Lease", [body]):
            t = T.rvalue(s["rv"], bb, idx)
            ip = norm(dict(t[3])["ip"])
            if ip[0] == "field" and ip[2] == "ip" and ip[1][0] == "payload" and ip[1][2][0] == "call" and ip[1][2][1] in producers:
                continue
            n += 1
            ctx.saw(body)
            tag = fid.split("::")[-1]
            # (a) dominated by the true edge of <pool set>.contains(&ip)
            okk = False

            def m(d):
                if d[0] == "call" and str(d[1]).startswith("std::collections::HashSet") and str(d[1]).endswith("::contains"):
                    rp = resolve_path(P, body, d[2][0])
                    return rp is not None and "HashSet<std::net::Ipv4Addr" in param_ty(rp[0], rp[1]) and norm(d[2][1]) == ip
                return False
            for sbb, d, te, fe in bool_switches(P, body, m):
                if edge_dominated(cfg, te, bb):
                    okk = True
            # (b) drawn from an iteration over the pool set parameter
            if not okk:
                for sub in subterms(ip):
                    if sub[0] == "call" and str(sub[1]).startswith("std::collections::HashSet") and str(sub[1]).endswith("::iter"):
                        rp = resolve_path(P, body, sub[2][0])
                        if rp is not None and "HashSet<std::net::Ipv4Addr" in param_ty(rp[0], rp[1]):
                            okk = True
            ctx.check(okk, "R6", "lease-address-is-a-pool-member:%s" % tag, ctx.where(body, s["sp"]),
                      "every lease must be for an address of the pool handed in: dominated by `addresses.contains(&ip)` or drawn from `addresses.iter()` (ip = %s)" % show(ip)[:100])
    ctx.floor("R6", "Lease construction sites", n, 4)
