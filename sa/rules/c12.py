"""C12 — DHCP replies on the wire: header codec agreement, option length, frame layout, broadcast bit (structural clauses)."""
import re
from ..util import *
from ..prov import strip, norm, show, subterms
from ..cfg import cfg_of
from ..callgraph import callgraph
from ..spec import tables

EXPLANATION = ("codec-agreement, layout and constant rules against RFC 2131 / 791 / 768 tables: the ordered typed reads of the BOOTP "
               "decoder and the ordered typed writes of the encoder both equal the RFC 2131 field table (names via the struct "
               "aggregate, widths via the helper called); the broadcast test masks 0x8000; the option encoder's one-octet length "
               "is applied only to chunks of at most 255 octets (RFC 3396 splitting, the decoder concatenates repeats); the "
               "Ethernet/IPv4/UDP builders write fields at the RFC offsets with the RFC constants, length fields are header + "
               "tail length, checksum patches land on the checksum placeholders, the pseudo-header is 12 octets in RFC order; the "
               "IPv4 destination is the limited broadcast on the true edge of the broadcast test and yiaddr on the false edge; "
               "the one's-complement sum has the RFC 1071 shape")
ASSUMPTIONS = ["not decided: decode(encode(m)) = m for all m; numerical correctness of the checksum beyond its shape",
               "a computed UDP checksum of 0 is not mapped to 0xFFFF (observed, outside the clauses checked; DESIGN.md 7.1)"]
EXPLANATION += "; also: the checksum folds all carries; a fixed field of width l carries l octets; the decoder's option map is only filled, never edited, and the encoder writes every entry from the entry itself"
EXTRA_CONFIGS = ["dhcp"]

READ_WIDTH = {"get_u8": 1, "get_be16": 2, "get_be32": 4, "get_ipv4": 4, "get_u16": 2, "get_u32": 4}
WRITE_WIDTH = {"u8": 1, "u16": 2, "u32": 4, "std::net::Ipv4Addr": 4}


def _dom_sorted(cfg, items, key=lambda x: x[0]):
    snap = list(items)
    return sorted(snap, key=lambda w: sum(1 for x in snap if cfg.dominates(key(x), key(w))))


def run(ctx):
    P = ctx.P
    _r3(ctx)
    _r1(ctx)
    _r2(ctx)
    _r4(ctx)
    _r5(ctx)
    _r7(ctx)
    _r8(ctx)
    _r9_options_kept_as_read_and_all_written(ctx)
    _r10_fixed_text_fields_keep_their_octets(ctx)


def _r8(ctx):
    """the fixed-width field writer (chaddr 16, sname 64, file 128): the width it is given is the only size that limits what it
    copies — every size-limiting call takes the width parameter itself (or output length + width), never width +- k"""
    P = ctx.P
    fns = [f for f, sg in P.sigs.items() if f in P.bodies and "dhcp::dhcppkt" in f and sg["inputs"] == ["&[u8]", "usize", "&mut std::vec::Vec<u8>"]]
    ctx.floor("R8", "fixed-width field writer", len(fns), 1)
    LIMIT = ("take", "resize", "resize_with", "truncate", "split_at", "chunks", "set_len")
    for f in fns:
        b = P.bodies[f]
        ctx.saw(b)
        T = terms(P, b)
        n = 0
        for bb, tm in b.calls():
            nme = callee_name(tm) or ""
            last = nme.rsplit("::", 1)[-1]
            args = [norm(x) for x in T.call_args(bb)]
            sizes = []
            if last in LIMIT and len(args) >= 2:
                sizes.append(args[1])
            if oblig_index(nme) and len(args) == 2:
                sizes.extend(v for _, v in (args[1][3] if args[1][0] == "agg" else ()))
            for sz in sizes:
                n += 1
                exact = sz == ("param", 2)
                if not exact and sz[0] == "field" and sz[2] == "0":
                    sz = norm(sz[1])
                if not exact and sz[0] == "bin" and sz[1].startswith("Add"):
                    x, y = norm(sz[2]), norm(sz[3])
                    exact = (x == ("param", 2) and y[0] == "call" and str(y[1]).endswith("::len")) or (y == ("param", 2) and x[0] == "call" and str(x[1]).endswith("::len"))
                # min(len(value), l): the part of the value that fits;  l - min(len(value), l): the padding that completes the field
                def is_fit(z):
                    z = norm(z)
                    if z[0] == "call" and str(z[1]).rsplit("::", 1)[-1] == "min" and len(z[2]) == 2:
                        p_, q_ = norm(z[2][0]), norm(z[2][1])
                        return any(u == ("param", 2) and v[0] == "call" and str(v[1]).endswith("::len") and norm(v[2][0]) == ("param", 1) for u, v in ((p_, q_), (q_, p_)))
                    return False
                if not exact and is_fit(sz):
                    exact = True
                if not exact and sz[0] == "bin" and sz[1].startswith("Sub") and norm(sz[2]) == ("param", 2) and is_fit(sz[3]):
                    exact = True
                ctx.check(exact, "R8", "fixed-field:size-limit-is-the-width:%s" % last, ctx.where(b, tm["sp"]),
                          "a fixed BOOTP field of width l carries up to l octets of the value: the count given to %s must be l itself (is %s); "
                          "with l - 1 a value that fills the field loses its last octet" % (last, show(sz)[:80]))
        ctx.floor("R8", "size-limiting calls in the fixed-width writer", n, 1)


def oblig_index(name):
    from ..oblig import INDEX_FNS
    return bool(INDEX_FNS.search(name))


def _r3(ctx):
    P = ctx.P
    spec = tables.BOOTP_HEADER
    # ---- decoder
    dec = [f for f, s in P.sigs.items() if f in P.bodies and len(s["inputs"]) == 1 and s["inputs"][0] == "&[u8]" and "dhcppkt::Dhcp," in sig_output(s)]
    ctx.floor("R3", "BOOTP decoder", len(dec), 1)
    for f in dec:
        b = P.bodies[f]
        ctx.saw(b)
        T = terms(P, b)
        cfg = cfg_of(b)
        reads = []
        for bb, tm in b.calls():
            n = callee_name(tm) or ""
            if "pktparser::Buffer" in n:
                m = n.rsplit("::", 1)[-1]
                if m in READ_WIDTH:
                    reads.append((bb, READ_WIDTH[m]))
                elif m in ("get_vec", "get_bytes"):
                    a = norm(T.call_args(bb)[1])
                    reads.append((bb, a[1] if a[0] == "const" else None))
        reads = _dom_sorted(cfg, reads)
        # read k -> struct field via the Ok(Dhcp{..}) aggregate
        fld_of = {}
        for _, bb, idx, s in find_aggs(P, "dhcppkt::Dhcp", [b]):
            t = norm(T.rvalue(s["rv"], bb, idx))
            for fname, v in t[3]:
                for y in subterms(v):
                    if y[0] == "call" and "pktparser::Buffer" in str(y[1]) and y[3] in [r[0] for r in reads]:
                        fld_of.setdefault(y[3], fname)
        # a header field is the octets read for it: nothing is masked, shifted or added on the way into the struct.  (Reserved bits of
        # `flags`, `secs`, `hops` mean nothing to this server, but a reply echoes some of these fields and a relay expects them back.)
        VERBATIM = ("htype", "hlen", "hops", "xid", "secs", "flags")
        for _, bb, idx, s in find_aggs(P, "dhcppkt::Dhcp", [b]):
            t = norm(T.rvalue(s["rv"], bb, idx))
            for fname, v in t[3]:
                if fname not in VERBATIM:
                    continue
                ops = sorted({y[1] for y in subterms(v) if y[0] in ("bin", "un")})
                ctx.check(not ops, "R3", "decoded-field-is-the-octets-read:%s" % fname, ctx.where(b, s["sp"]),
                          "the decoder computes `%s` from what it read (%s): the field must be stored as read" % (fname, ", ".join(map(str, ops)) or "-"))
        # `sname` and `file` are the two fixed text fields, always: null_terminated(<the 64 / 128 octets read>), whatever the options say.
        # (RFC 2131's option overload would have them carry options; the encoder never writes them that way, so a decoder that reads
        # them that way does not give back what was encoded.)
        for _, bb, idx, s in find_aggs(P, "dhcppkt::Dhcp", [b]):
            t = norm(T.rvalue(s["rv"], bb, idx))
            for fname, v in t[3]:
                if fname not in ("sname", "file"):
                    continue
                v = norm(v)
                okv = v[0] == "call" and str(v[1]).endswith("null_terminated") and len(v[2]) == 1 and any(
                    y[0] == "call" and "pktparser::Buffer" in str(y[1]) and str(y[1]).rsplit("::", 1)[-1] in ("get_vec", "get_bytes") for y in subterms(norm(v[2][0])))
                ctx.check(okv, "R3", "text-field-is-the-octets-read:%s" % fname, ctx.where(b, s["sp"]),
                          "`%s` must be null_terminated(the field as read) on every path (is %s)" % (fname, show(v)[:100]))
        # hlen may be anything up to the width of chaddr, that width included: the test that refuses a message compares hlen with the 16
        # octets read and refuses only hlen > 16
        def m_hlen(d):
            if d[0] == "bin" and d[1] in ("Gt", "Ge", "Lt", "Le"):
                xs = [norm(d[2]), norm(d[3])]
                is_len = lambda x: (x[0] == "call" and str(x[1]).endswith("::len")) or (x[0] == "const" and x[1] in (16, 17, 15))
                is_hl = lambda x: any(y[0] == "call" and "pktparser::Buffer" in str(y[1]) and str(y[1]).endswith("get_u8") for y in subterms(x)) and not is_len(x)
                return (is_hl(xs[0]) and is_len(xs[1])) or (is_len(xs[0]) and is_hl(xs[1]))
            return False
        for sbb, d, te, fe in bool_switches(P, b, m_hlen):
            xs = [norm(d[2]), norm(d[3])]
            hl_first = not ((xs[0][0] == "call" and str(xs[0][1]).endswith("::len")) or xs[0][0] == "const")
            width = 16
            other = xs[1] if hl_first else xs[0]
            k = other[1] if other[0] == "const" else width
            op = d[1] if hl_first else {"Gt": "Lt", "Ge": "Le", "Lt": "Gt", "Le": "Ge"}[d[1]]          # hlen op k
            # the edge on which decoding goes on, and the largest hlen it admits
            errs = {bb for bb, idx, st in b.stmts() if st["p"] == (0,) and st.get("rv") and st["rv"]["k"] == "agg" and st["rv"].get("variant") == "Err"}
            t_err = all(tgt in errs or (cfg.reachable_from(tgt) & errs and not any(True for _ in ())) for _, tgt in te) and any(tgt in errs for _, tgt in te)
            f_err = any(tgt in errs for _, tgt in fe)
            if t_err == f_err:
                continue
            if t_err:      # refused when `hlen op k` holds: admitted values satisfy the negation
                largest = {"Gt": k, "Ge": k - 1}.get(op)
            else:          # refused when it does not hold
                largest = {"Le": k, "Lt": k - 1}.get(op)
            ctx.check(largest == width, "R8", "hlen-up-to-the-width-of-chaddr", ctx.where(b),
                      "the decoder admits hardware address lengths up to %s; the field holds %d octets and all of them may be in use" % (largest, width))
        # magic: the read compared with the constant
        for bb, idx, s in b.stmts():
            if "rv" in s and s["rv"]["k"] == "bin" and s["rv"]["op"] in ("Ne", "Eq"):
                t = norm(T.rvalue(s["rv"], bb, idx))
                cs = [x for x in (norm(t[2]), norm(t[3])) if x[0] == "const" and x[1] == tables.DHCP_MAGIC]
                if cs:
                    for y in subterms(t):
                        if y[0] == "call" and "pktparser::Buffer" in str(y[1]):
                            fld_of[y[3]] = "magic"
        got = [(fld_of.get(bb, "?"), w) for bb, w in reads[:len(spec)]]
        for k, ((sf, sw), (gf, gw)) in enumerate(zip(spec, got)):
            ctx.check(sf == gf and sw == gw, "R3", "decode[%d]:%s:%s" % (k, sf, sw), ctx.where(b),
                      "RFC 2131 field %d is %s (%d octets); the decoder reads %s (%s octets) there" % (k, sf, sw, gf, gw))
        ctx.check(len(got) == len(spec), "R3", "decode:field-count=%d" % len(got), ctx.where(b), "")
        # hlen guard: chaddr[0..hlen] under hlen <= 16
        ctx.check(any((callee_name(tm) or "").endswith("::parse_options") for _, tm in b.calls()), "R3", "decode:options-follow-magic", ctx.where(b), "")
    # ---- encoder
    enc = [f for f, s in P.sigs.items() if f in P.bodies and len(s["inputs"]) == 1 and s["inputs"][0].endswith("dhcppkt::Dhcp") and sig_output(s).endswith("Vec<u8>") and "serialise" in f]
    ctx.floor("R3", "BOOTP encoder", len(enc), 1)
    for f in enc:
        b = P.bodies[f]
        ctx.saw(b)
        T = terms(P, b)
        cfg = cfg_of(b)
        writes = []
        for bb, tm in b.calls():
            n = callee_name(tm) or ""
            if n.endswith("dhcppkt::Serialise>::serialise"):
                m = re.match(r"<(.+) as erbium::dhcp::dhcppkt::Serialise>::serialise", n)
                ty = m.group(1) if m else "?"
                if ty in WRITE_WIDTH:
                    v = norm(T.call_args(bb)[0])
                    writes.append((bb, WRITE_WIDTH[ty], v))
                elif ty.endswith("DhcpOptions"):
                    writes.append((bb, "options", None))
            elif n.endswith("::serialise_fixed"):
                a = [norm(x) for x in T.call_args(bb)]
                writes.append((bb, a[1][1] if a[1][0] == "const" else None, a[0]))
        writes = _dom_sorted(cfg, writes)
        got = []
        for bb, w, v in writes:
            if w == "options":
                break
            name = "?"
            if v is not None:
                if v[0] == "const" and v[1] == tables.DHCP_MAGIC:
                    name = "magic"
                else:
                    fl = [y[2] for y in subterms(v) if y[0] == "field" and y[2] != "0"]
                    name = fl[-1] if fl else "?"
            got.append((name, w))
        for k, ((sf, sw), (gf, gw)) in enumerate(zip(spec, got)):
            ctx.check(sf == gf and sw == gw, "R3", "encode[%d]:%s:%s" % (k, sf, sw), ctx.where(b),
                      "RFC 2131 field %d is %s (%d octets); the encoder writes %s (%s octets) there" % (k, sf, sw, gf, gw))
        ctx.check(len(got) == len(spec), "R3", "encode:field-count=%d" % len(got), ctx.where(b), "")
        ctx.check(bool(writes) and writes[-1][1] == "options", "R3", "encode:options-last", ctx.where(b), "")


def _r1(ctx):
    P = ctx.P
    n = 0
    for fid, b in P.bodies.items():
        if fid.endswith("dhcppkt::Dhcp::get_broadcast_flag"):
            n += 1
            ctx.saw(b)
            T = terms(P, b)
            mask = None
            for bb, idx, s in b.stmts():
                if s["p"] == (0,) and "rv" in s:
                    t = norm(T.rvalue(s["rv"], bb, idx))
                    for y in subterms(t):
                        if y[0] == "bin" and y[1] == "BitAnd":
                            c = [norm(x)[1] for x in (y[2], y[3]) if norm(x)[0] == "const"]
                            f = [1 for x in (y[2], y[3]) if norm(x)[0] == "field" and norm(x)[2] == "flags"]
                            if c and f:
                                mask = c[0]
            ctx.check(mask == tables.BOOTP_BROADCAST_FLAG, "R1", "broadcast-mask=0x%04x" % (mask or 0), ctx.where(b),
                      "RFC 2131 2: the BROADCAST bit is the most significant bit of the 16-bit flags field (0x8000); the test masks 0x%04x, so "
                      "clients that cannot receive unicast before configuration are answered by unicast" % (mask or 0))
    ctx.floor("R1", "broadcast flag accessor", n, 1)


def _r2(ctx):
    P = ctx.P
    n = 0
    for fid, sig in P.sigs.items():
        if fid not in P.bodies or not fid.endswith("dhcppkt::serialise_option"):
            continue
        b = P.bodies[fid]
        ctx.saw(b)
        T = terms(P, b)
        cfg = cfg_of(b)
        for bb, idx, s in b.stmts():
            rv = s.get("rv")
            if rv and rv["k"] == "cast" and rv["kind"] == "IntToInt" and rv["to"] == "u8" and rv["from"] == "usize":
                n += 1
                t = norm(T.operand(rv["op"], bb, idx))
                good = False
                why = "the length is %s" % show(t)[:100]
                if t[0] == "call" and str(t[1]).endswith("::len"):
                    src = norm(t[2][0])
                    for y in subterms(src):
                        if y[0] == "call" and str(y[1]).rsplit("::", 1)[-1] in ("chunks", "chunks_exact", "rchunks"):
                            c = norm(y[2][1])
                            if c[0] == "const" and 0 < c[1] <= 255:
                                good = True
                                why = "length of a chunk of at most %d" % c[1]
                if not good:
                    # a dominating guard len <= 255
                    def m(d):
                        return d[0] == "bin" and d[1] in ("Le", "Lt", "Gt", "Ge") and any(norm(x)[0] == "const" and norm(x)[1] in (255, 256) for x in (d[2], d[3]))
                    for sbb, d, te, fe in bool_switches(P, b, m):
                        small = te if d[1] in ("Le", "Lt") else fe
                        if edge_dominated(cfg, small, bb):
                            good = True
                            why = "guarded by a comparison with 255"
                ctx.check(good, "R2", "option-length-octet:%s" % ("bounded" if good else "unbounded-len-as-u8"), ctx.where(b, s["sp"]),
                          "the option length is one octet: `len as u8` of a value longer than 255 octets wraps and the option stream is "
                          "corrupted; long values must be split over consecutive options with the same code (RFC 3396), which the decoder "
                          "already concatenates (%s)" % why)
    ctx.floor("R2", "option length casts", n, 1)
    # decoder concatenates repeats
    for fid, b in P.bodies.items():
        if fid.endswith("dhcppkt::parse_options"):
            ctx.saw(b)
            okk = any((callee_name(tm) or "").endswith("::or_default") for _, tm in b.calls()) and any((callee_name(tm) or "").endswith("::extend") for _, tm in b.calls())
            ctx.check(okk, "R2", "decoder-concatenates-repeated-options", ctx.where(b), "entry(code).or_default().extend(bytes)")
            # ... every instance: once the value octets of an option were read, no path returns to the loop's head without having
            # appended them (a fragment equal to what was collected so far is still a fragment)
            cfg = cfg_of(b)
            ext = [bb for bb, tm in b.calls() if (callee_name(tm) or "").endswith("::extend") or (callee_name(tm) or "").endswith("::extend_from_slice")]
            heads = {h for (_, h) in cfg.back_edges()}
            n_reads = 0
            for bb, tm in b.calls():
                nme = callee_name(tm) or ""
                if "pktparser::Buffer" in nme and nme.rsplit("::", 1)[-1] in ("get_bytes", "get_vec") and any(bb in cfg.natural_loop(e) for e in cfg.back_edges()):
                    n_reads += 1
                    back = cfg.reachable_from(tm["t"], blocked=tuple(ext)) & heads if isinstance(tm.get("t"), int) else {"?"}
                    ctx.check(not back, "R2", "every-option-instance-is-appended", ctx.where(b, tm["sp"]),
                              "after reading an option's value the decoder can go on to the next option without appending what it read")
            ctx.floor("R2", "option value reads in the decoder's loop", n_reads, 1)


def _push_seq(P, b, local):
    """ordered (bb, width, value term, term) of push_* calls whose receiver is `local`"""
    T = terms(P, b)
    cfg = cfg_of(b)
    out = []
    for bb, tm in b.calls():
        n = callee_name(tm) or ""
        m = n.rsplit("::", 1)[-1]
        if "packet::Fragment" not in n or m not in ("push_u8", "push_be16", "push_bytes"):
            continue
        recv = borrowed_place(T, tm["args"][0], bb, len(b.blocks[bb]["stmts"]))
        if recv != (local,):
            continue
        v = norm(T.call_args(bb)[1])
        if m == "push_u8":
            w = 1
        elif m == "push_be16":
            w = 2
        else:
            w = None
            pl = op_place(tm["args"][1])
            ty = b.local_ty(pl[0]) if pl else ""
            if v[0] == "param":
                ty = b.local_ty(v[1])
            mm = re.search(r"\[u8; (\d+)\]", ty)
            if mm:
                w = int(mm.group(1))
            else:
                # &octets(): look at the referenced temporary's type
                bp = borrowed_place(T, tm["args"][1], bb, len(b.blocks[bb]["stmts"]))
                if bp is not None:
                    mm = re.search(r"\[u8; (\d+)\]", b.local_ty(bp[0]))
                    if mm:
                        w = int(mm.group(1))
        out.append((bb, w, v, tm))
    return _dom_sorted(cfg, out)


def _patches(P, b, local):
    """constant-index byte stores into <local>.buffer: {index: value term}"""
    T = terms(P, b)
    out = {}
    for bb, tm in b.calls():
        n = callee_name(tm) or ""
        if n.endswith("IndexMut<I>>::index_mut"):
            recv = borrowed_place(T, tm["args"][0], bb, len(b.blocks[bb]["stmts"]))
            if recv is None or recv[0] != local:
                continue
            i = norm(T.call_args(bb)[1])
            nb = tm["t"]
            iv = const_value(i)
            if iv is not None and nb is not None:
                for k, s2 in enumerate(b.blocks[nb]["stmts"]):
                    if s2["p"] == (tm["dest"][0], "*") and "rv" in s2:
                        v = norm(T.rvalue(s2["rv"], nb, k))
                        # v.to_be_bytes()[0] / [1] of a 16-bit value are v >> 8 and v & 0xff
                        if v[0] == "index" and norm(v[1])[0] == "call" and str(norm(v[1])[1]).endswith("u16>::to_be_bytes"):
                            which = {"[0]": 0, "[1]": 1}.get(v[2]) if len(v) > 2 and isinstance(v[2], str) else None
                            inner = norm(norm(v[1])[2][0])
                            if which == 0:
                                v = ("bin", "Shr", inner, ("const", 8))
                            elif which == 1:
                                v = ("bin", "BitAnd", inner, ("const", 255))
                        out[iv] = (v, tm)
    # buffer[c..c+2].copy_from_slice(&v.to_be_bytes()) stores the same two octets as buffer[c] = v >> 8; buffer[c+1] = v & 0xff
    for bb, tm in b.calls():
        n = callee_name(tm) or ""
        if not n.endswith("::copy_from_slice"):
            continue
        dst, src = [norm(x) for x in T.call_args(bb)]
        if not (dst[0] == "call" and str(dst[1]).endswith("index_mut") and src[0] == "call" and str(src[1]).endswith("::to_be_bytes")):
            continue
        rng = norm(dst[2][1])
        if rng[0] != "agg" or not rng[1].endswith("ops::Range"):
            continue
        f = dict(rng[3])
        st = norm(f.get("start"))
        if st[0] != "const" or not isinstance(st[1], int):
            continue
        from ..affine import affine
        en = affine(f.get("end"), lambda x: False)
        root = dst[2][0]
        onbuf = any(y[0] == "field" and y[2] == "buffer" for y in subterms(root))
        if en is not None and not en[0] and en[1] == st[1] + 2 and onbuf and "u16" in str(src[1]):
            v = norm(src[2][0])
            out[st[1]] = (("bin", "Shr", v, ("const", 8)), tm)
            out[st[1] + 1] = (("bin", "BitAnd", v, ("const", 255)), tm)
    return out


def _frag_local(P, b, which=0):
    """locals initialised by Fragment::from_tail in dominance order"""
    cfg = cfg_of(b)
    ls = []
    for bb, tm in b.calls():
        if (callee_name(tm) or "").endswith("Fragment::<'a>::from_tail") and len(tm["dest"]) == 1:
            ls.append((bb, tm["dest"][0]))
    ls = _dom_sorted(cfg, ls)
    return [l for _, l in ls]


def _r4(ctx):
    P = ctx.P
    fns = {f.rsplit("::", 1)[-1]: f for f in P.bodies if "erbium_net::packet::Fragment" in f and f.rsplit("::", 1)[-1] in ("new_ethernet", "new_ipv4", "new_udp4")}
    ctx.floor("R4", "frame builders", len(fns), 3)
    # ---- ethernet
    if "new_ethernet" in fns:
        b = P.bodies[fns["new_ethernet"]]
        ctx.saw(b)
        fl = _frag_local(P, b)
        seq = _push_seq(P, b, fl[0]) if fl else []
        widths = [w for _, w, _, _ in seq]
        ctx.check(widths == [6, 6, 2], "R4", "ethernet:layout=dst6+src6+type2", ctx.where(b), "found widths %s" % widths)
        if len(seq) == 3:
            names = [b.local_name(v[1]) if v[0] == "param" else None for _, _, v, _ in seq]
            ctx.check(seq[0][2][0] == "param" and seq[1][2][0] == "param" and seq[0][2][1] < seq[1][2][1], "R4", "ethernet:dst-before-src", ctx.where(b),
                      "destination MAC is the first parameter and is written first (%s)" % names)
    # ---- ipv4
    if "new_ipv4" in fns:
        b = P.bodies[fns["new_ipv4"]]
        ctx.saw(b)
        T = terms(P, b)
        fl = _frag_local(P, b)
        seq = _push_seq(P, b, fl[0]) if fl else []
        off = 0
        at = {}
        for bb, w, v, tm in seq:
            if w is None:
                break
            at[off] = (w, v, tm)
            off += w
        ctx.check(off == tables.IPV4_HEADER_LEN, "R4", "ipv4:header=20-octets", ctx.where(b), "fixed writes total %d" % off)

        def cval(o):
            x = at.get(o)
            return x[1][1] if x and x[1][0] == "const" else None
        ctx.check(cval(0) == 0x45 and at.get(0, (0,))[0] == 1, "R4", "ipv4:version-ihl=0x45@0", ctx.where(b), "")
        tl = at.get(tables.IPV4_OFFSETS["total_length"])
        okk = False
        if tl and tl[0] == 2:
            from ..affine import affine
            a = affine(tl[1], lambda x: x[0] == "call" and str(x[1]).endswith("Tail::<'a>::len"))
            okk = a is not None and list(a[0].values()) == [1] and a[1] == tables.IPV4_HEADER_LEN
        ctx.check(okk, "R4", "ipv4:total-length=20+tail@2", ctx.where(b), "value %s" % (show(tl[1])[:80] if tl else None))
        pr = at.get(tables.IPV4_OFFSETS["protocol"])
        ctx.check(bool(pr) and pr[0] == 1 and pr[1][0] == "param", "R4", "ipv4:protocol@9", ctx.where(b), "")
        ck = at.get(tables.IPV4_OFFSETS["checksum"])
        ctx.check(bool(ck) and ck[0] == 2 and is_const(ck[1], 0), "R4", "ipv4:checksum-placeholder@10", ctx.where(b), "")
        s_ = at.get(tables.IPV4_OFFSETS["src"])
        d_ = at.get(tables.IPV4_OFFSETS["dst"])
        okk = bool(s_) and bool(d_) and s_[0] == 4 and d_[0] == 4
        if okk:
            ps = [y[1] for y in subterms(s_[1]) if y[0] == "param"]
            pd = [y[1] for y in subterms(d_[1]) if y[0] == "param"]
            okk = bool(ps) and bool(pd) and ps[0] < pd[0]
        ctx.check(okk, "R4", "ipv4:src@12,dst@16", ctx.where(b), "")
        pt = _patches(P, b, fl[0]) if fl else {}
        good = set(pt) == {10, 11}
        if good:
            hi, lo = pt[10][0], pt[11][0]
            good = any(y[0] == "bin" and y[1].startswith("Shr") and is_const(norm(y[3]), 8) for y in subterms(hi)) and \
                any(y[0] == "bin" and y[1] == "BitAnd" and is_const(norm(y[3]), 255) for y in subterms(lo))
            # the sum covers the header buffer
            good = good and any(y[0] == "call" and str(y[1]).endswith("finish_netsum") for y in subterms(hi))
        ctx.check(good, "R4", "ipv4:checksum-patched@%s" % sorted(pt), ctx.where(b), "the header checksum (hi, lo) must be stored at offsets 10 and 11")
        # ethertype passed to the ethernet builder
        for bb, tm in b.calls():
            if callee_name(tm) == fns.get("new_ethernet"):
                a = norm(T.call_args(bb)[2])
                ctx.check(is_const(a, tables.ETHERTYPE_IPV4), "R4", "ipv4:ethertype=0x0800", ctx.where(b, tm["sp"]), show(a))
    # ---- udp
    if "new_udp4" in fns:
        b = P.bodies[fns["new_udp4"]]
        ctx.saw(b)
        T = terms(P, b)
        fl = _frag_local(P, b)
        seq = _push_seq(P, b, fl[0]) if fl else []
        widths = [w for _, w, _, _ in seq]
        ctx.check(widths == [2, 2, 2, 2], "R4", "udp:layout=sport2+dport2+len2+cksum2", ctx.where(b), "found %s" % widths)
        if len(seq) == 4:
            sp, dp, ln, ck = [x[2] for x in seq]
            ps = [y[1] for y in subterms(sp) if y[0] == "param"]
            pd = [y[1] for y in subterms(dp) if y[0] == "param"]
            ctx.check(bool(ps) and bool(pd) and ps[0] < pd[0] and all(any(y[0] == "call" and str(y[1]).endswith("::port") for y in subterms(x)) for x in (sp, dp)),
                      "R4", "udp:sport@0,dport@2", ctx.where(b), "")
            from ..affine import affine
            a = affine(ln, lambda x: x[0] == "call" and str(x[1]).endswith("Tail::<'a>::len"))
            ctx.check(a is not None and list(a[0].values()) == [1] and a[1] == tables.UDP_HEADER_LEN, "R4", "udp:length=8+tail@4", ctx.where(b), show(ln)[:80])
            ctx.check(is_const(ck, 0), "R4", "udp:checksum-placeholder@6", ctx.where(b), "")
        pt = _patches(P, b, fl[0]) if fl else {}
        good = set(pt) == {6, 7}
        if good:
            hi, lo = pt[6][0], pt[7][0]
            good = any(y[0] == "bin" and y[1].startswith("Shr") and is_const(norm(y[3]), 8) for y in subterms(hi)) and \
                any(y[0] == "bin" and y[1] == "BitAnd" and is_const(norm(y[3]), 255) for y in subterms(lo))
        ctx.check(good, "R4", "udp:checksum-patched@%s" % sorted(pt), ctx.where(b), "the UDP checksum (hi, lo) must be stored at offsets 6 and 7")
        # pseudo header
        if len(fl) >= 2:
            ps = _push_seq(P, b, fl[1])
            widths = [w for _, w, _, _ in ps]
            ctx.check(widths == [4, 4, 1, 1, 2], "R4", "udp:pseudo-header=src4+dst4+zero1+proto1+len2", ctx.where(b), "found %s" % widths)
            if len(ps) == 5:
                ctx.check(is_const(ps[2][2], 0) and is_const(ps[3][2], tables.IPPROTO_UDP), "R4", "udp:pseudo-header:zero,protocol=17", ctx.where(b),
                          "%s %s" % (show(ps[2][2]), show(ps[3][2])))
                ln = ps[4][2]
                ctx.check(any(y[0] == "call" and str(y[1]).endswith("Fragment::<'a>::len") for y in subterms(ln)), "R4", "udp:pseudo-header:length=udp-length", ctx.where(b), show(ln)[:60])
        for bb, tm in b.calls():
            if callee_name(tm) == fns.get("new_ipv4"):
                a = norm(T.call_args(bb)[4])
                ctx.check(is_const(a, tables.IPPROTO_UDP), "R4", "udp:ip-protocol=17", ctx.where(b, tm["sp"]), show(a))


def _r5(ctx):
    P = ctx.P
    n = 0
    for b in P.bodies.values():
        calls = [(bb, tm) for bb, tm in b.calls() if (callee_name(tm) or "").endswith("Fragment::<'a>::new_udp4")]
        if not calls or b.crate != "erbium":
            continue
        ctx.saw(b)
        T = terms(P, b)
        cfg = cfg_of(b)
        for bb, tm in calls:
            n += 1
            def m(d):
                return d[0] == "call" and str(d[1]).endswith("get_broadcast_flag")
            te_all, fe_all = [], []
            req_ok = False
            for sbb, d, te, fe in bool_switches(P, b, m):
                te_all.extend(te)
                fe_all.extend(fe)
                rp = norm(d[2][0])
                req_ok = any(y[0] == "call" and str(y[1]).endswith("dhcppkt::parse") for y in subterms(rp)) or \
                    any(y[0] == "field" and y[2] == "pkt" for y in subterms(rp))
            bc = []
            yi = []
            for b2, t2 in b.calls():
                if (callee_name(t2) or "").endswith("::with_port"):
                    a = norm(T.call_args(b2)[0])
                    if a[0] == "const" and len(a) > 2 and str(a[2]).endswith("Ipv4Addr::BROADCAST"):
                        bc.append(b2)
                    elif a[0] == "field" and a[2] == "yiaddr":
                        yi.append(b2)
            okk = bool(bc) and bool(yi) and all(edge_dominated(cfg, te_all, x) for x in bc) and all(edge_dominated(cfg, fe_all, x) for x in yi)
            ctx.check(okk and req_ok, "R5", "destination:broadcast-iff-flag-else-yiaddr", ctx.where(b, tm["sp"]),
                      "255.255.255.255 on the true edge of the request's broadcast flag (%d site(s)), reply.yiaddr on the false edge (%d site(s))" % (len(bc), len(yi)))
            dst = norm(T.call_args(bb)[2])
            ctx.check(dst[0] == "phi" or any(y[0] == "call" and str(y[1]).endswith("::with_port") for y in subterms(dst)), "R5", "frame-destination<-that-choice", ctx.where(b, tm["sp"]), show(dst)[:100])
            pay = norm(T.call_args(bb)[4])
            ctx.check(any(y[0] == "call" and str(y[1]).endswith("dhcppkt::Dhcp::serialise") for y in subterms(pay)), "R5", "frame-payload<-serialised-reply", ctx.where(b, tm["sp"]), "")
    ctx.floor("R5", "DHCP frame constructions", n, 1)


def _r7(ctx):
    P = ctx.P
    for fid, b in P.bodies.items():
        if fid.endswith("erbium_net::packet::partial_netsum"):
            ctx.saw(b)
            T = terms(P, b)
            word = odd = False
            for bb, idx, s in b.stmts():
                rv = s.get("rv")
                if rv and rv["k"] == "bin" and rv["op"] == "BitOr":
                    t = norm(T.rvalue(rv, bb, idx))
                    a, c = norm(t[2]), norm(t[3])
                    if a[0] == "bin" and a[1].startswith("Shl") and is_const(norm(a[3]), 8) and not any(y[0] == "bin" and y[1].startswith("Shl") for y in subterms(c)):
                        word = True
            shl8 = [1 for bb, idx, s in b.stmts() if s.get("rv") and s["rv"]["k"] == "bin" and s["rv"]["op"].startswith("Shl") and s["rv"]["b"].get("k", {}).get("int") == "8"]
            odd = len(shl8) >= 2
            ctx.check(word and odd, "R7", "checksum:word=(hi<<8)|lo,odd-tail=hi<<8", ctx.where(b), "big-endian 16-bit words, an odd final octet padded on the right")
            # what is added into the 32-bit running sum is at most a 16-bit word: 65536 additions of 16-bit words fit in 32 bits, and the
            # carries are folded at the end.  An addend of 32 bits (summing four octets at a time) needs its own end-around carry on
            # *every* addition that follows, the leftover ones included.
            def width(t, depth=0):
                t = norm(t)
                if depth > 10:
                    return 32
                if t[0] == "const":
                    return max(1, int(t[1]).bit_length()) if isinstance(t[1], int) and t[1] >= 0 else 32
                if t[0] == "cast":
                    src = str(t[1]) if len(t) > 1 else ""
                    inner = width(t[3], depth + 1)
                    for name, w in (("u8", 8), ("u16", 16), ("bool", 1)):
                        if src == name or str(t[2]) == name:
                            inner = min(inner, w) if src == name else inner
                    return inner
                if t[0] == "index":
                    return 8        # an octet of the buffer
                if t[0] == "bin":
                    a, c = width(t[2], depth + 1), width(t[3], depth + 1)
                    if t[1].startswith("Shl"):
                        k = const_value(t[3])
                        return min(32, a + k) if k is not None else 32
                    if t[1] in ("BitOr", "BitXor"):
                        return max(a, c)
                    if t[1] == "BitAnd":
                        return min(a, c)
                    if t[1].startswith("Shr"):
                        k = const_value(t[3])
                        return max(0, a - k) if k is not None else a
                    return 32
                if t[0] == "field" and norm(t[1])[0] == "bin":
                    return width(t[1], depth + 1)
                return 32
            wide = []
            n_add = 0
            for bb, idx, st in b.stmts():
                rv = st.get("rv")
                if rv and rv["k"] == "bin" and rv["op"] in ("Add", "AddWithOverflow", "AddUnchecked") and "u32" in str(rv.get("ty", b.local_ty(st["p"][0]))):
                    t = norm(T.rvalue(rv, bb, idx))
                    ws = sorted((width(t[2]), width(t[3])))
                    # index arithmetic (usize) is typed usize, not u32; additions of two narrow values are not the accumulator's
                    if ws[1] == 32:
                        n_add += 1
                        if ws[0] > 16:
                            wide.append(P.rel(st["sp"]))
            for bb, tm in b.calls():
                nme = (callee_name(tm) or "").rsplit("::", 1)[-1]
                if nme in ("overflowing_add", "wrapping_add", "carrying_add", "checked_add", "saturating_add", "unchecked_add"):
                    a = [norm(x) for x in T.call_args(bb)]
                    ws = sorted(width(x) for x in a[:2])
                    if ws and ws[-1] == 32:
                        n_add += 1
                        if ws[0] > 16:
                            wide.append(P.rel(tm["sp"]))
            ctx.check(n_add >= 2 and not wide, "R7", "checksum:addends-are-16-bit-words", ctx.where(b),
                      "an addend wider than 16 bits is added into the 32-bit running sum at %s" % (wide or "-"))
        if fid.endswith("erbium_net::packet::finish_netsum"):
            ctx.saw(b)
            T = terms(P, b)
            cfg = cfg_of(b)
            neg = any(s["p"] == (0,) and s.get("rv") and s["rv"]["k"] == "un" and s["rv"]["op"] == "Not" for _, _, s in b.stmts())
            guard = False
            for bb, idx, s in b.stmts():
                rv = s.get("rv")
                if rv and rv["k"] == "bin":
                    ka, kb = rv["a"].get("k", {}).get("int"), rv["b"].get("k", {}).get("int")
                    # sum > 0xffff, sum >= 0x10000, and the same with the operands the other way round
                    if (rv["op"], kb) in (("Gt", "65535"), ("Ge", "65536")) or (rv["op"], ka) in (("Lt", "65535"), ("Le", "65536")):
                        guard = True
            fold = any(s.get("rv") and s["rv"]["k"] == "bin" and s["rv"]["op"].startswith("Shr") and s["rv"]["b"].get("k", {}).get("int") == "16" for _, _, s in b.stmts()) and \
                any(s.get("rv") and s["rv"]["k"] == "bin" and s["rv"]["op"] == "BitAnd" and "65535" in (s["rv"]["a"].get("k", {}).get("int"), s["rv"]["b"].get("k", {}).get("int"))
                    for _, _, s in b.stmts())
            ctx.check(neg and guard and fold and bool(cfg.back_edges()), "R7", "checksum:fold-carries-then-complement", ctx.where(b),
                      "while sum > 0xffff { sum = (sum >> 16) + (sum & 0xffff) }; !sum")


MAP_FILL = ("entry", "or_default", "or_insert", "or_insert_with", "or_insert_with_key", "extend", "extend_from_slice", "insert", "append", "push",
            "get", "contains_key", "len", "is_empty", "iter", "into_iter", "next", "deref", "as_slice", "as_ref", "clone", "reserve", "with_capacity")
ITEM_DROPPERS = ("filter", "filter_map", "take", "skip", "step_by", "take_while", "skip_while", "find", "find_map", "nth", "last", "peekable", "zip")


def _r9_options_kept_as_read_and_all_written(ctx):
    """decode(encode(m)) = m for the option map: the decoder stores what it read (the map is only filled, never edited afterwards),
    and the encoder writes every stored entry, code and value taken from the entry itself"""
    P = ctx.P
    # ---- decoder
    decs = [b for fid, b in P.bodies.items() if fid.endswith("dhcppkt::parse_options")]
    n = 0
    for b in decs:
        fam = P.family(b.id)
        for x in fam:
            ctx.saw(x)
        T = terms(P, b)
        maps = [norm(dict(T.rvalue(st["rv"], bb, idx)[3]).get("other", ("unknown",))) for _, bb, idx, st in find_aggs(P, "dhcppkt::DhcpOptions", [b])]
        maps = [m_ for m_ in maps if m_[0] == "call"]
        n += len(maps)
        edits = []
        for x in fam:
            Tx = T if x is b else terms(P, x)
            for bb, tm in x.calls():
                nme = callee_name(tm) or ""
                last = nme.rsplit("::", 1)[-1].split("<")[0]
                args = Tx.call_args(bb)
                if not args:
                    continue
                a0 = norm(args[0])
                touches = any(y in maps for y in subterms(a0)) and ("HashMap" in nme or "hash_map" in nme or "BTreeMap" in nme or "Vec" in nme or "slice" in nme or "Iterator" in nme)
                if touches and last not in MAP_FILL:
                    edits.append("%s at %s" % (last, P.rel(tm["sp"])))
        ctx.check(bool(maps) and not edits, "R9", "decoded-options-are-stored-as-read", ctx.where(b),
                  "between reading an option and returning the map nothing may edit the stored values (calls on the map besides filling it: %s)" % (edits or "-"))
    ctx.floor("R9", "option maps returned by the decoder", n, 1)
    # ---- encoder
    encs = [b for fid, b in P.bodies.items() if "DhcpOptions as" in fid and fid.endswith("Serialise>::serialise")]
    m = 0
    for b in encs:
        fam = P.family(b.id)
        T = terms(P, b)
        drops = []
        for x in fam:
            ctx.saw(x)
            for bb, tm in x.calls():
                nme = callee_name(tm) or ""
                if "Iterator" in nme and nme.rsplit("::", 1)[-1] in ITEM_DROPPERS:
                    drops.append("%s at %s" % (nme.rsplit("::", 1)[-1], P.rel(tm["sp"])))
        ctx.check(not drops, "R9", "encoder-visits-every-stored-option", ctx.where(b), "adaptors that skip entries: %s" % (drops or "-"))
        for bb, tm in b.calls():
            if not (callee_name(tm) or "").endswith("dhcppkt::serialise_option"):
                continue
            m += 1
            args = [norm(a) for a in T.call_args(bb)]

            def from_entry(a, k):
                return any(y[0] == "field" and y[2] == k and norm(y[1])[0] == "payload" and norm(norm(y[1])[2])[0] == "call" and
                           str(norm(norm(y[1])[2])[1]).endswith("::next") and any(z[0] == "field" and z[2] == "other" for z in subterms(y)) for y in subterms(a))
            good = len(args) >= 2 and from_entry(args[0], "0") and from_entry(args[1], "1")
            ctx.check(good, "R9", "option-written-from-its-own-map-entry", ctx.where(b, tm["sp"]),
                      "code and value handed to serialise_option must be the key and the value of the entry being visited (are %s, %s)" % (
                          show(args[0])[:70], show(args[1])[:70] if len(args) > 1 else None))
    ctx.floor("R9", "option writes in the encoder", m, 1)


def _r10_fixed_text_fields_keep_their_octets(ctx):
    """sname / file are decoded by cutting the field at its first NUL — and a field with no NUL at all (completely full) is the
    whole field.  Whatever the helper returns is its argument, possibly shortened: no path yields something made up (an empty
    default on the "no terminator" path loses a full-length name)."""
    P = ctx.P
    fns = [b for fid, b in P.bodies.items() if fid.endswith("dhcppkt::null_terminated")]
    for b in fns:
        ctx.saw(b)
        T = terms(P, b)
        rets = [norm(T.rvalue(st["rv"], bb, idx)) for bb, idx, st in b.stmts() if st["p"] == (0,) and "rv" in st]
        rets += [norm(("call", callee_name(tm), tuple(T.call_args(bb)), bb)) for bb, tm in b.calls() if tuple(tm["dest"]) == (0,)]

        def from_arg(t, depth=0):
            t = norm(t)
            if depth > 10:
                return False
            if t == ("param", 1):
                return True
            if t[0] == "phi":
                return all(from_arg(x, depth + 1) for x in t[1])
            if t[0] in ("ref", "deref", "payload", "field", "index"):
                return from_arg(t[2] if t[0] == "payload" else t[1], depth + 1)
            if t[0] == "call":
                last = str(t[1]).rsplit("::", 1)[-1]
                if last in ("unwrap_or_default", "default", "new", "with_capacity", "from_bytes_until_nul"):
                    return False
                if last in ("unwrap_or", "or") and len(t[2]) == 2:
                    return from_arg(t[2][0], depth + 1) and from_arg(t[2][1], depth + 1)
                if last in ("to_vec", "to_owned", "into", "from", "clone", "index", "get", "split_at", "to_bytes", "map", "unwrap", "expect", "take",
                            "collect", "copied", "cloned", "iter", "take_while", "into_iter", "split", "next", "position", "truncate"):
                    return any(from_arg(a, depth + 1) for a in t[2]) and not any(
                        y[0] == "call" and str(y[1]).rsplit("::", 1)[-1] in ("unwrap_or_default", "default", "from_bytes_until_nul") for a in t[2] for y in subterms(norm(a)))
                return False
            return False
        good = bool(rets) and all(from_arg(r) for r in rets)
        ctx.check(good, "R10", "fixed-text-field-is-its-octets-up-to-the-first-NUL", ctx.where(b),
                  "null_terminated must return its argument (cut at the first NUL, or whole when there is none); it returns %s" % [show(r)[:90] for r in rets])
    ctx.floor("R10", "NUL-terminated field helper", len(fns), 1)
