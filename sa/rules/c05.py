"""C05 — no input crashes a handler: obligation engine over the network-facing scope."""
from ..util import *
from ..prov import norm, show, subterms
from ..cfg import cfg_of
from ..callgraph import callgraph
from .. import oblig
from ..spec import reviewed as RV
from ..spec import patterns as PAT

EXPLANATION = ("obligation engine over built MIR: every panic-capable construct (overflow/bounds/division Assert terminators, calls of "
               "std APIs documented to panic such as unwrap/expect/indexing by range/copy_from_slice, explicit panic!/assert!/"
               "unreachable!/unimplemented!) in every function reachable from the four service loops and the public decoders is "
               "enumerated; each must be discharged — by constants, value ranges (types, masks, shifts, known producers, caller "
               "argument ranges), comparison facts on dominating branch edges (with mutation through &mut modelled as kills), "
               "verified struct-field invariants and callee length summaries — or be covered by a reviewed entry that names the "
               "non-local reason, whose structural side-conditions are re-checked on every run; decoder loops must consume input "
               "or iterate finite iterators and recursion must carry bounded fuel or shrink its argument")
ASSUMPTIONS = ["not decided: panics inside external crates; allocation failure; the liveness half beyond containment",
               "reviewed entries (sa/spec/reviewed.py) are trusted reasons written by hand, each for one construct shape; sites that depend "
               "only on the environment (kernel packet metadata, clock, sockets) are outside the quantifier (byte strings) and listed as `env`",
               "the engine is incomplete: a new arithmetic/indexing construct that is safe for a non-local reason is reported until reviewed"]
EXPLANATION += '; also: side rules S1-S4 carry the premises of reviewed reasons that are about other code (S4: oneshot receivers and every future above them are awaited without a deadline); String char-boundary sites'
EXTRA_CONFIGS = ["dns", "dhcp", "radv"]

ENTRY_SUFFIXES = ("Service::run", "Service::run::{closure#0}")
DECODER_ENTRIES = ("erbium::dhcp::dhcppkt::parse", "erbium::dns::parse::PktParser::<'l>::get_dns", "erbium::radv::icmppkt::parse",
                   "<erbium::lldp::lldppkt::LldpPacket as erbium::pktparser::Deserialise>::from_wire", "erbium::dhcp::dhcppkt::parse_options")


def scope(P, cg):
    roots = [i for i in P.bodies if i.endswith(ENTRY_SUFFIXES)] + [d for d in DECODER_ENTRIES if d in P.bodies]
    reach = sorted(r for r in cg.reachable(roots) if r in P.bodies)
    return roots, reach


def run(ctx):
    P = ctx.P
    cg = callgraph(P)
    roots, reach = scope(P, cg)
    ctx.floor("scope", "entry points", len(roots), 3 if ctx.config != "default" else 10)
    D = oblig.Discharger(P)
    oblig.Inter(P, cg)
    # ---- field invariants the engine assumes
    proven, bad = oblig.check_field_invariants(P, D)
    for b, sp, what, r in proven:
        ctx.ok("inv", "buffer-cursor-invariant:%s:%s" % (b.id.split("::")[-1], what), ctx.where(b, sp), "offset <= len(buffer) proven (%s)" % r)
    for b, sp, what, r in bad:
        ctx.bad("inv", "buffer-cursor-invariant:%s:%s:unproven" % (b.id.split("::")[-1], what), ctx.where(b, sp),
                "the cursor invariant offset <= len(buffer) must hold after this %s; the bounds reasoning of every decoder built on the cursor depends on it" % what)
    ctx.floor("inv", "cursor invariant obligations", len(proven), 3)
    # ---- local side conditions named by reviewed entries
    side_rules(ctx, cg)
    side_rules_2(ctx)
    side_rules_3(ctx)
    side_rules_4(ctx, cg)
    side_rules_5(ctx)
    # "the service still answers the next request": a task that waits for a lock it holds itself never does (C07.R11)
    ctx.include("C07", rules=("R11",))
    # ---- side conditions of the reviewed entries (evaluated lazily, once)
    side = RV.SideConditions(ctx)
    n_sites, n_dis, by_rule = check_sites(ctx, D, side, reach, "site")
    ctx.floor("site", "panic-capable sites enumerated", n_sites, 300 if ctx.config == "default" else 60)
    ctx.floor("site", "sites discharged by the engine", n_dis, 150 if ctx.config == "default" else 30)
    ctx.notes.append("engine discharges by rule: %s" % sorted(by_rule.items()))
    # ---- termination
    _termination(ctx, cg, reach)


def check_sites(ctx, D, side, reach, rule):
    """every panic-capable site of the bodies in `reach` is discharged by the engine or covered by a reviewed entry valid for ctx.prop"""
    P = ctx.P
    counts = {}
    n_sites = n_dis = 0
    by_rule = {}
    open_sites = []      # (body, site, key, hash)
    for r in reach:
        b = P.bodies[r]
        if "__static_ref_initialize" in r or "::__stability" in r:
            # lazy_static initialisers: constant metric registrations, run once, no input reaches them
            for s in oblig.sites_of(P, b):
                n_sites += 1
                ctx.ok(rule, "init:%s" % s.what, ctx.where(b, s.span), "lazy_static initialiser: registration with constant arguments, independent of any input")
            continue
        ss = oblig.sites_of(P, b)
        if ss:
            ctx.saw(b)
        for s in ss:
            n_sites += 1
            try:
                d = D.discharge(s)
            except Exception as e:   # an engine crash on one site must not hide the others
                d = None
            if d:
                n_dis += 1
                by_rule[d[0]] = by_rule.get(d[0], 0) + 1
                ctx.ok(rule, "%s:%s:%s" % (s.kind, d[0], _short(P, D, s)), ctx.where(b, s.span), d[1])
                continue
            key = oblig.site_key(P, D, s)
            open_sites.append((b, s, key, key.rsplit("#", 1)[1]))
    observed = {h for _, _, _, h in open_sites}
    for b, s, key, h in open_sites:
        counts[h] = counts.get(h, 0) + 1
        ent = next((e for e in RV.REVIEWED.get(h, ()) if ctx.prop in e["props"]), None)
        moved = False
        if ent is None:
            # the construct may have been reviewed under another name: its function or one of its locals was renamed.  Accept the
            # entry of the same name-free shape only if that entry's own site no longer exists anywhere (so it cannot be lent to a
            # second, new construct) and the candidates agree on the reason.
            lk = oblig.loose_key(P, D, s)
            cands = [(h2, e) for h2, es in RV.REVIEWED.items() if h2 not in observed for e in es if e.get("loose") == lk and ctx.prop in e["props"]]
            if cands and len({(e["class"], e["why"]) for _, e in cands}) == 1:
                ent, moved = cands[0][1], True
                counts[h] = counts.get(("moved", cands[0][0]), 0) + 1
                counts[("moved", cands[0][0])] = counts[h]
        pat = None
        if ent is None:
            pat = PAT.match(P, D, s, ctx.prop)
        if pat is not None:
            void = [c for c in pat.get("requires", ()) if not side.holds(c)]
            if void:
                ctx.bad(rule, "reviewed-but-side-condition-failed:%s" % key, ctx.where(b, s.span),
                        "this site is safe only while %s holds, and that rule fails on this tree" % ", ".join(void))
            else:
                ctx.ok(rule, "reviewed:%s:pattern:%s:%s" % (pat["class"], pat["pattern"], key), ctx.where(b, s.span), pat["why"])
            continue
        if ent is not None and counts[h] <= ent.get("count", 1):
            void = [c for c in ent.get("requires", ()) if not side.holds(c)]
            if void:
                ctx.bad(rule, "reviewed-but-side-condition-failed:%s" % key, ctx.where(b, s.span),
                        "this site is safe only while %s holds, and that rule fails on this tree" % ", ".join(void))
            else:
                ctx.ok(rule, "reviewed:%s:%s%s" % (ent["class"], key, ":re-keyed" if moved else ""), ctx.where(b, s.span), ent["why"])
            continue
        pr = D.prover(b)
        n = len(b.blocks[s.bb]["stmts"])
        ops = [show(oblig.canon(pr.T.operand(o, s.bb, n)))[:120] for o in s.ops[:2]]
        ctx.bad(rule, "undischarged:%s" % key, ctx.where(b, s.span),
                "%s can panic here and neither a dominating guard, a value range, a verified invariant nor a reviewed reason rules it "
                "out (operands: %s)%s" % (s.what, "; ".join(ops), "; more sites of this shape than were reviewed" if ent is not None else ""))
    return n_sites, n_dis, by_rule


def side_rules(ctx, cg):
    """S1: the error variants that the cache's clone helper declares unreachable are never built below the cache"""
    P = ctx.P
    entry = "erbium::dns::outquery::OutQuery::handle_query"
    helper = [i for i in P.bodies if i.endswith("dns::cache::clone_out_reply")]
    if entry not in P.bodies or not helper:
        if ctx.config in ("default", "dns"):
            ctx.bad("S1", "anchor", "", "OutQuery::handle_query / cache::clone_out_reply not found")
        return
    hb = P.bodies[helper[0]]
    cfg = cfg_of(hb)
    T = terms(P, hb)
    adt = P.adt("erbium::dns::Error")
    panics = {bb for bb, tm in hb.calls() if (callee_name(tm) or "").startswith(("core::panicking", "std::rt::begin_panic"))}
    dead = set()
    for bb, tm in hb.terms():
        if tm["k"] != "switch":
            continue
        d = norm(T.at_term(tm["discr"], bb))
        if d[0] != "discr":
            continue
        ty = oblig.Typer(P, hb).of(d[1]) or ""
        if not oblig._strip_ref(ty).endswith("dns::Error"):
            continue
        for i, v in enumerate(adt["variants"]):
            for e in discr_edges(cfg, bb, i):
                if e[1] in panics or (cfg.reachable_from(e[1]) & panics and len(cfg.succ[e[1]]) <= 1 and _straight_to_panic(cfg, e[1], panics)):
                    dead.add(v["name"])
    ctx.floor("S1", "variants declared unreachable by the cache", len(dead), 3)
    reach = cg.reachable([entry])
    built = {}
    for b, bb, idx, s in find_aggs(P, "dns::Error"):
        if b.id in reach or (b.parent and b.parent in reach):
            built.setdefault(s["rv"]["variant"], ctx.where(b, s["sp"]))
    for fid in reach:
        b = P.bodies.get(fid)
        if b is None:
            continue
        for _, k, _ in body_consts(b):
            f = k.get("fn", "")
            if f.startswith("erbium::dns::Error::"):
                built.setdefault(f.split("::")[-1], ctx.where(b))
    for v in sorted(dead):
        ctx.check(v not in built, "S1", "never-built-below-the-cache:%s" % v, built.get(v, ctx.where(hb)),
                  "clone_out_reply panics on Error::%s, so nothing the cache calls may build it" % v)


def side_rules_2(ctx):
    """S2: the IPv4-in-IPv6 branch of Prefix6::contains(Ipv4Addr) inspects the octets of network() — the masked address — so the
    ::ffff:0:0/96 pattern can only be seen when prefixlen >= 96 (the subtraction prefixlen - 96 relies on it)"""
    P = ctx.P
    fns = [f for f in P.bodies if "config::Prefix6 as" in f and "Match<std::net::Ipv4Addr>" in f and f.endswith("::contains")]
    if not fns:
        ctx.bad("S2", "anchor:Prefix6::contains(Ipv4Addr)", "", "mapped-prefix containment not found")
        return
    b = P.bodies[fns[0]]
    T = terms(P, b)
    srcs = []
    for bb, tm in b.calls():
        if (callee_name(tm) or "").endswith("Ipv6Addr::octets"):
            srcs.append(norm(T.call_args(bb)[0]))
    good = bool(srcs) and all(x[0] == "call" and str(x[1]).rsplit("::", 1)[-1] == "network" for x in srcs)
    ctx.check(good, "S2", "mapped-pattern-tested-on-the-masked-address", ctx.where(b),
              "the ::ffff:a.b.c.d pattern must be matched against self.network().octets(): matched against the address as written, a "
              "mapped prefix shorter than /96 reaches `prefixlen - 96` (octets taken from: %s)" % [show(x)[:60] for x in srcs])


def side_rules_3(ctx):
    """S3: the client cookie handed out by EdnsData::get_cookie is exactly 8 octets (`data.get(..8)?` or an equivalent checked
    slice): the reply path echoes it through set_cookie, which asserts that length"""
    P = ctx.P
    fns = [f for f in P.bodies if f.endswith("dnspkt::EdnsData::get_cookie")]
    if not fns:
        if ctx.config in ("default", "dns"):
            ctx.bad("S3", "anchor:get_cookie", "", "cookie accessor not found")
        return
    n = 0
    for b in P.family(fns[0]):
        T = terms(P, b)
        for bb, idx, st in b.stmts():
            rv = st.get("rv")
            if not (rv and rv["k"] == "agg" and rv["akind"] == "tuple" and len(rv["ops"]) == 2):
                continue
            t = norm(T.rvalue(rv, bb, idx))
            first = norm(t[3][0][1])
            n += 1
            good = False
            src = first
            if src[0] == "payload":
                src = norm(src[2])
            if src[0] == "call" and (str(src[1]).endswith("<impl [T]>::get") or oblig.INDEX_FNS.search(str(src[1]))) and len(src[2]) == 2:
                r = norm(src[2][1])
                if r[0] == "agg" and r[1].endswith("RangeTo") and is_const(norm(dict(r[3])["end"]), 8):
                    good = True
                if r[0] == "agg" and r[1].endswith("ops::Range") and is_const(norm(dict(r[3])["start"]), 0) and is_const(norm(dict(r[3])["end"]), 8):
                    good = True
            ctx.check(good, "S3", "client-cookie-is-exactly-8-octets", ctx.where(b, st["sp"]),
                      "the first component returned by get_cookie must be data[..8] obtained with a check (is %s): a shorter client cookie "
                      "reaches set_cookie's length assertion when the reply is built" % show(first)[:100])
    ctx.floor("S3", "cookie pairs built by the accessor", n, 1)


def side_rules_5(ctx):
    """S5: the registrations in lazy_static initialisers are accepted as "constant, independent of any input" — which they are
    only while every metric has a name of its own: registering a second collector under a name already taken returns AlreadyReg,
    and the initialiser's unwrap() panics the first time the metric is touched (on whatever rare path touches it)."""
    P = ctx.P
    names = {}
    for b in P.bodies.values():
        if "__static_ref_initialize" not in b.id or "::test" in b.id:
            continue
        T = None
        for bb, tm in b.calls():
            nme = callee_name(tm) or ""
            if nme.startswith("prometheus::") and nme.rsplit("::", 1)[-1] == "new" and ("Opts" in nme) and tm["args"]:
                T = T or terms(P, b)
                a0 = norm(T.call_args(bb)[0])
                if a0[0] == "const" and isinstance(a0[1], str):
                    names.setdefault(a0[1], []).append((b, tm))
    for nm, where in sorted(names.items()):
        b0, tm0 = where[-1]
        ctx.check(len(where) == 1, "S5", "metric-name-registered-once:%s" % nm, ctx.where(b0, tm0["sp"]),
                  "%d collectors are registered under the name %r: the second registration fails and its unwrap() panics in whichever "
                  "task first touches that metric" % (len(where), nm))
    if ctx.config == "default":
        ctx.floor("S5", "metric registrations", len(names), 10)


def _AWAIT_STEP(name):
    """the calls `.await` expands to"""
    return name.endswith("::into_future") or name.startswith("std::pin::Pin::<Ptr>::new_unchecked") or name.endswith("::poll") or \
        name.endswith("::get_context")


def side_rules_4(ctx, cg):
    """S4: the task serving a TCP upstream answers its requesters with `oneshot::Sender::send(..).unwrap()`, which panics when the
    receiver is gone.  The receiver is never gone while the requester lives: it is awaited directly, and so is every future on the
    way up to the task root, with no deadline or select that could drop it early."""
    P = ctx.P
    roots = [b for b in P.bodies.values() if "::test" not in b.id and "erbium::dns::" in b.id and
             any((callee_name(tm) or "").startswith("tokio::sync::oneshot::channel") for _, tm in b.calls())]
    if not roots:
        if ctx.config in ("default", "dns"):
            ctx.bad("S4", "anchor:oneshot-channel", "", "no oneshot channel is created below erbium::dns")
        return

    def fn_of(b):
        x = b
        while x.kind in ("closure", "coroutine") and x.parent in P.bodies and P.bodies[x.parent].kind != "closure" and x.id.startswith(x.parent):
            # the coroutine of an async fn: its future is what callers hold
            return x.parent
        return x.id

    def consumers(b, match):
        """calls of b one of whose arguments is (through moves) the value `match` recognises"""
        Tb = terms(P, b)
        out = []
        for bb, tm in b.calls():
            for a in Tb.call_args(bb):
                a = norm(a)
                while a[0] in ("ref", "deref"):
                    a = norm(a[1])
                if match(a):
                    out.append((callee_name(tm) or "?", tm))
        return out

    n = 0
    for b in roots:
        ctx.saw(b)
        T = terms(P, b)
        # the receiver half
        for bb, tm in b.calls():
            if not (callee_name(tm) or "").startswith("tokio::sync::oneshot::channel"):
                continue
            rx_locals = [lambda a, bb=bb: a[0] == "field" and a[2] == "1" and norm(a[1])[0] == "call" and
                         str(norm(a[1])[1]).startswith("tokio::sync::oneshot::channel") and norm(a[1])[3] == bb]
            for rx in rx_locals:
                n += 1
                cons = consumers(b, rx)
                bad = [c for c, _ in cons if not _AWAIT_STEP(c)]
                ctx.check(bool(cons) and not bad, "S4", "receiver-awaited-without-a-deadline:%s" % b.id.split("::{")[0].rsplit("::", 1)[-1], ctx.where(b, tm["sp"]),
                          "the oneshot receiver must be consumed by a plain `.await` (it is handed to %s): a deadline or select drops it, "
                          "and the upstream task's `send(..).unwrap()` then panics and takes the connection's other queries with it" % (bad or "nothing"))
        # ... and nobody above abandons the future that holds it.  Units: an async fn (its callers hold the future) or an async
        # block / closure (the body that builds it holds it); the walk ends at a block handed to tokio::spawn.
        def unit_of(x):
            if x.kind == "coroutine" and x.parent in P.bodies and P.bodies[x.parent].kind in ("fn", "assoc_fn"):
                return x.parent
            return x.id

        def polls(name, unit):
            cor = [y.id for y in P.bodies.values() if y.kind == "coroutine" and y.parent == unit] + [unit]
            return _AWAIT_STEP(name) or name in cor
        seen, todo = set(), [unit_of(b)]
        while todo:
            u = todo.pop()
            if u in seen or u not in P.bodies:
                continue
            seen.add(u)
            ub = P.bodies[u]
            if ub.kind in ("fn", "assoc_fn"):
                is_async = any(x.kind == "coroutine" and x.parent == u for x in P.bodies.values())
                for cb, cbb, ctm in cg.callers(u):
                    if "::test" in cb.id:
                        continue
                    cons = consumers(cb, lambda a, u=u, cbb=cbb: a[0] == "call" and a[1] == u and len(a) > 3 and a[3] == cbb)
                    if not cons and not is_async:
                        continue      # a synchronous call: nothing is held
                    n += 1
                    names = [c for c, _ in cons]
                    bad = [c for c in names if not polls(c, u)] or ([] if cons else ["nothing in this function (captured by a closure or a macro?)"])
                    ctx.check(not bad, "S4", "future-awaited-without-a-deadline:%s<-%s" % (u.rsplit("::", 1)[-1], unit_of(cb).split("::{")[0].rsplit("::", 1)[-1]),
                              ctx.where(cb, ctm["sp"]), "the future of %s must be awaited directly on the way up to its task (handed to %s)" % (u, bad or "-"))
                    todo.append(unit_of(cb))
            else:
                pb = P.bodies.get(ub.parent)
                if pb is None:
                    continue
                cons = consumers(pb, lambda a, u=u: closure_def_of_term(a) == u)
                names = [c for c, _ in cons]
                n += 1
                if any(c.startswith("tokio::spawn") or c.startswith("tokio::task::spawn") or c.startswith("tokio::runtime::Runtime::block_on") or
                       c.startswith("tokio::runtime::Runtime::spawn") for c in names):
                    ctx.ok("S4", "task-root:%s" % u.split("::{")[0].rsplit("::", 1)[-1], ctx.where(pb))
                    continue
                bad = [c for c in names if not polls(c, u)] or ([] if cons else ["nothing in this function (captured by a closure or a macro?)"])
                ctx.check(not bad, "S4", "block-awaited-without-a-deadline:%s" % u.split("::{")[0].rsplit("::", 1)[-1], ctx.where(pb),
                          "the async block %s must be awaited directly or spawned (handed to %s)" % (u, bad or "-"))
                todo.append(unit_of(pb))
    ctx.floor("S4", "awaits between the oneshot receiver and its task root", n, 3)


def _straight_to_panic(cfg, bb, panics):
    for _ in range(8):
        if bb in panics:
            return True
        if len(cfg.succ[bb]) != 1:
            return False
        bb = cfg.succ[bb][0]
    return False


def _short(P, D, s):
    k = oblig.site_key(P, D, s)
    return k.split("@", 1)[1][:70] if "@" in k else k[:70]


CURSOR_FNS = ("get_u8", "get_u16", "get_u32", "get_be16", "get_be32", "get_bytes", "get_vec", "get_ipv4", "get_tlv", "get_label", "get_domain",
              "get_rr", "get_option", "from_wire", "get_buffer", "get_string", "peek_u8", "split_first", "recv_msg", "recv", "accept", "read",
              "read_exact", "next", "get_type", "get_class", "changed", "sleep", "sleep_until", "select", "poll", "tick")


def _termination(ctx, cg, reach, loops_floor=40):
    P = ctx.P
    n = 0
    for r in reach:
        b = P.bodies[r]
        cfg = cfg_of(b)
        T = terms(P, b)
        for e in cfg.back_edges():
            loop = cfg.natural_loop(e)
            n += 1
            why = None
            # (a) a finite iterator drives the loop: next() whose None edge leaves the loop
            for bb, tm in b.calls():
                if bb in loop and (callee_name(tm) or "").rsplit("::", 1)[-1] in ("next", "next_back") and "Iterator" in (callee_name(tm) or "") + (tm["callee"].get("decl") or ""):
                    why = "iterator"
            # (b) every iteration consumes input / awaits an event through a call whose failure leaves the loop
            if why is None:
                for bb, tm in b.calls():
                    if bb in loop and (callee_name(tm) or "").rsplit("::", 1)[-1] in CURSOR_FNS:
                        why = "consumes-input-or-awaits"
            # (c) a counter moved by a constant towards the exit comparison
            if why is None:
                for bb, idx, s in b.stmts():
                    rv = s.get("rv")
                    if bb in loop and rv and rv["k"] == "bin" and rv["op"] in ("SubWithOverflow", "AddWithOverflow", "Sub", "Add", "Shr") and "k" in rv["b"]:
                        # ... a *counter*: the result goes back into the variable it was computed from (x = x + k), inside the loop.
                        # `len + 28 > limit` in the loop's test is arithmetic with a constant, not progress.
                        src = op_place(rv["a"])
                        if src is None or len(s["p"]) != 1:
                            continue
                        res = s["p"][0]
                        carried = {res}
                        for _ in range(3):
                            for b2, i2, s2 in b.stmts():
                                r2 = s2.get("rv")
                                if b2 in loop and r2 and r2["k"] == "use" and op_place(r2["op"]) and op_place(r2["op"])[0] in carried and len(s2["p"]) >= 1:
                                    carried.add(s2["p"][0])
                        if src[0] in carried:
                            why = "counter"
            # (e) padding loop: runs while len(x) % k != 0 and appends to something each round
            if why is None:
                grows = any(bb in loop and (callee_name(tm) or "").rsplit("::", 1)[-1] in ("push", "serialise", "extend_from_slice", "push_u8") for bb, tm in b.calls())
                for bb, tm in b.terms():
                    if bb in loop and tm["k"] == "switch" and any(t not in loop for _, t in cfg.switch_edges(bb)):
                        d = norm(T.at_term(tm["discr"], bb))
                        if grows and any(y[0] == "bin" and y[1] == "Rem" and norm(y[3])[0] == "const" and isinstance(norm(y[3])[1], int) and norm(y[3])[1] > 0
                                         and any(oblig._len_like(z) is not None for z in subterms(y[2])) for y in subterms(d)):
                            why = "pads-to-a-multiple"
            # (f) descends an owned structure: the loop variable is replaced by a field/payload of its previous value,
            #     and the exit test looks at that same value
            if why is None:
                recs = set()
                for bb, idx, st in b.stmts():
                    if bb in loop and "rv" in st and len(st["p"]) == 1:
                        t = norm(T.rvalue(st["rv"], bb, idx))
                        for alt in (t[1] if t[0] == "phi" else (t,)):
                            y, steps = alt, 0
                            while isinstance(y, tuple) and y[0] in ("payload", "field", "deref"):
                                y = y[2] if y[0] == "payload" else y[1]
                                steps += 1
                            if steps and isinstance(y, tuple) and y[0] == "rec":
                                recs.add(y)
                for bb, tm in b.terms():
                    if recs and bb in loop and tm["k"] == "switch" and any(t not in loop for _, t in cfg.switch_edges(bb)):
                        d = norm(T.at_term(tm["discr"], bb))
                        if any(y in recs for y in subterms(d)):
                            why = "descends-an-owned-structure"
            # (d) yield points: a service loop that awaits (handled by (b) for named awaits); coroutine yields
            if why is None and any(b.blocks[x]["term"] and b.blocks[x]["term"]["k"] == "yield" for x in loop):
                why = "awaits"
            key = "loop:%s:%s" % (r.split("::")[-1] if "{" not in r.split("::")[-1] else "::".join(r.split("::")[-2:]), why or "unbounded?")
            if why:
                ctx.ok("term", key, ctx.where(b), "")
            else:
                ent = RV.REVIEWED_LOOPS.get(r)
                if ent:
                    ctx.ok("term", "loop:reviewed:%s" % r.split("::")[-1], ctx.where(b), ent)
                else:
                    ctx.bad("term", key, ctx.where(b), "cannot see what bounds this loop: no finite iterator, no input-consuming call, no constant-step counter")
    ctx.floor("term", "loops in scope", n, loops_floor if ctx.config == "default" else min(loops_floor, 8))
    # recursion: every function that calls itself (exactly: same resolved instance) must shrink its argument or carry fuel.
    # Calls through a trait on a generic element type (Vec<T>::serialise -> T::serialise) recurse over the finite type, not the input.
    rec = set()
    for r in reach:
        b = P.bodies[r]
        if any(callee_name(tm) == r for _, tm in b.calls()):
            rec.add(r)
    for r in sorted(rec):
        b = P.bodies[r]
        T = terms(P, b)
        cfg = cfg_of(b)
        okk = False
        why = ""
        for bb, tm in b.calls():
            if callee_name(tm) != r:
                continue
            args = [norm(a) for a in T.call_args(bb)]
            # fuel: an integer argument passed as param + 1 under a dominating comparison with a constant
            for k, a in enumerate(args):
                if a[0] == "field" and a[2] == "0" and a[1][0] == "bin" and a[1][1].startswith("Add") and norm(a[1][2])[0] == "param":
                    def m(d, pnum=norm(a[1][2])[1]):
                        return d[0] == "bin" and d[1] in ("Gt", "Ge", "Lt", "Le") and any(norm(x) == ("param", pnum) for x in (d[2], d[3])) and any(norm(x)[0] == "const" for x in (d[2], d[3]))
                    if list(bool_switches(P, b, m)):
                        okk, why = True, "fuel"
            # shrinking slice: an argument is a strict sub-slice of a parameter
            for a in args:
                for y in subterms(a):
                    if y[0] == "call" and oblig.INDEX_FNS.search(str(y[1])) and len(y[2]) == 2 and norm(y[2][0])[0] == "param":
                        okk, why = True, "strict sub-slice of the parameter"
                    # the rest after split_last / split_first of the parameter is one element shorter
                    if y[0] == "field" and y[2] == "1":
                        z = norm(y[1])
                        if z[0] == "payload":
                            z = norm(z[2])
                        elif z[0] == "call" and str(z[1]).rsplit("::", 1)[-1] in ("unwrap", "expect", "unwrap_unchecked") and z[2]:
                            z = norm(z[2][0])
                        if z[0] == "call" and str(z[1]).rsplit("::", 1)[-1] in ("split_last", "split_first") and z[2] and norm(z[2][0])[0] == "param":
                            okk, why = True, "strict sub-slice of the parameter"
            # structural recursion over an owned value: the argument is a strict part of a parameter (element, field, payload)
            for a in args:
                y, steps = a, 0
                for _ in range(12):
                    if y[0] in ("payload", "downcast"):
                        y, steps = norm(y[2]) if y[0] == "payload" else norm(y[1]), steps + 1
                    elif y[0] in ("field", "index"):
                        y, steps = norm(y[1]), steps + 1
                    elif y[0] in ("deref", "ref"):
                        y = norm(y[1] if y[0] == "deref" else y[-1])
                    elif y[0] == "call" and str(y[1]).rsplit("::", 1)[-1] in ("first", "last", "get", "next", "iter", "as_ref", "deref", "as_slice") and y[2]:
                        y, steps = norm(y[2][0]), steps + (1 if str(y[1]).rsplit("::", 1)[-1] in ("first", "last", "get", "next") else 0)
                    else:
                        break
                if steps and y[0] == "param":
                    okk, why = True, "a strict part of the parameter (finite owned value)"
            # structural recursion over an owned tree: the argument is reached through a field of the parameter
            for a in args:
                if any(y[0] == "field" and y[2] in ("policies", "children") for y in subterms(a)) or any(
                        y[0] == "call" and str(y[1]).endswith("::next") for y in subterms(a)):
                    okk, why = True, "children of the parameter (finite owned tree)"
        ctx.check(okk, "term", "recursion:%s:%s" % (r.split("::")[-1], why or "unbounded?"), ctx.where(b),
                  "a recursive function in the input-facing scope must carry bounded fuel, shrink its argument or descend an owned tree")
