"""C11 — DHCP policy semantics (the shape clauses of the documented evaluation order)."""
from ..util import *
from ..prov import strip, norm, show, subterms
from ..cfg import cfg_of
from ..callgraph import callgraph

EXPLANATION = ("dominance / ordering rules over the policy evaluator: policy-supplied options are written only under "
               "`parameter-request-list contains key`; the sibling loop returns at the first policy that applies; a policy "
               "without conditions applies only when a sub-policy's conditions hold, a failed match applies nothing; own options "
               "are applied before the descent into sub-policies and the netmask/broadcast defaults after it, defaults never "
               "overwrite an explicit entry (including null); only Some values are emitted; handlers write unconditionally only "
               "options 53/54/51; the built-in base policy takes $self4, search list, captive portal, MTU and router from the "
               "right inputs")
ASSUMPTIONS = ["not decided: options(reply) = Model(config, request) — equivalence with the manual over all policy trees is behavioural"]
EXPLANATION += '; also: requested option codes are taken as sent (DhcpOption::from(u8) is the identity wrap); containment in an Ipv4Subnet (C08.R6) is evaluated here too'
EXTRA_CONFIGS = ["dhcp"]


def _resp_mutations(P, body, T):
    """blocks where the response is changed: assignments through the &mut Response param and mutate_* calls"""
    out = []
    for bb, idx, s in body.stmts():
        if len(s["p"]) >= 3 and s["p"][1] == "*" and "rv" in s and "&mut" in body.local_ty(s["p"][0]) and "Response" in body.local_ty(s["p"][0]):
            out.append((bb, "assign" + s["p"][2], s["sp"]))
    for bb, tm in body.calls():
        n = callee_name(tm) or ""
        if n.endswith("::mutate_option") or n.endswith("::mutate_option_default"):
            out.append((bb, n.rsplit("::", 1)[1], tm["sp"]))
    return out


def run(ctx):
    P = ctx.P
    cg = callgraph(P)
    # whether `match-subnet` holds is containment in an Ipv4Subnet, whose rules (masked comparison, or a constructor that refuses
    # host bits) are C08.R6's
    ctx.include("C08", rules=("R6",))
    # anchors by signature
    apply1 = [f for f, s in P.sigs.items() if len(s["inputs"]) == 3 and s["inputs"][0].endswith("DHCPRequest") and
              s["inputs"][1].endswith("dhcp::config::Policy") and "Response" in s["inputs"][2] and s["output"] == "bool" and f in P.bodies]
    applyN = [f for f, s in P.sigs.items() if len(s["inputs"]) == 3 and s["inputs"][0].endswith("DHCPRequest") and
              s["inputs"][1].endswith("[erbium::dhcp::config::Policy]") and "Response" in s["inputs"][2] and s["output"] == "bool" and f in P.bodies]
    check1 = [f for f, s in P.sigs.items() if len(s["inputs"]) == 2 and s["inputs"][0].endswith("DHCPRequest") and
              s["inputs"][1].endswith("dhcp::config::Policy") and s["output"].endswith("PolicyMatch") and f in P.bodies]
    checkN = [f for f, s in P.sigs.items() if len(s["inputs"]) == 2 and s["inputs"][0].endswith("DHCPRequest") and
              s["inputs"][1].endswith("[erbium::dhcp::config::Policy]") and s["output"] == "bool" and f in P.bodies]
    for what, l in (("apply one policy", apply1), ("apply sibling list", applyN), ("check one policy", check1), ("check sibling list", checkN)):
        ctx.floor("anchor", what, len(l), 1)
    if not (apply1 and applyN and check1 and checkN):
        return
    A1, AN, C1, CN = P.bodies[apply1[0]], P.bodies[applyN[0]], P.bodies[check1[0]], P.bodies[checkN[0]]
    for b in (A1, AN, C1, CN):
        ctx.saw(b)

    _r6_option_condition_is_equality(ctx, C1)
    _r7_subnet_defaults_whenever_asked(ctx, A1)
    _r8_null_stays_null(ctx)
    # ---------------- R2: first matching sibling wins (both in apply and in check)
    for body, callee, tag in ((AN, A1.id, "apply"), (CN, C1.id, "check")):
        T = terms(P, body)
        cfg = cfg_of(body)
        loops = [cfg.natural_loop(e) for e in cfg.back_edges()]
        calls = [(bb, tm) for bb, tm in body.calls() if callee_name(tm) == callee]
        okk = False
        detail = "no call of the per-policy function inside a loop"
        for bb, tm in calls:
            loop = [l for l in loops if bb in l]
            if not loop:
                continue
            loop = min(loop, key=len)
            if tag == "apply":
                def m(d, bb=bb):
                    return d[0] == "call" and d[1] == callee and d[3] == bb
                for sbb, d, te, fe in bool_switches(P, body, m):
                    # true edge leaves the loop and returns true; false edge stays in the loop
                    leaves = all(not (cfg.reachable_from(tgt) & {h for (u, h) in cfg.back_edges() if h in loop}) or
                                 _returns_before_loop(cfg, tgt, loop) for _, tgt in te)
                    sets_true = all(_assigns_const(body, cfg, tgt, True, loop) for _, tgt in te)
                    stays = all(tgt in loop for _, tgt in fe)
                    okk = leaves and sets_true and stays
                    detail = "true edge leaves the loop: %s, returns true: %s, false edge continues: %s" % (leaves, sets_true, stays)
            else:
                # check: switch on the PolicyMatch discriminant: MatchSucceeded -> return true
                for sbb, stm in body.terms():
                    if stm["k"] == "switch":
                        d = norm(T.at_term(stm["discr"], sbb))
                        if d[0] == "discr" and d[1][0] == "call" and d[1][1] == callee and d[1][3] == bb:
                            idx = _variant_index(P, "erbium::dhcp::PolicyMatch", "MatchSucceeded")
                            es = discr_edges(cfg, sbb, idx)
                            okk = bool(es) and all(_returns_before_loop(cfg, tgt, loop) and _assigns_const(body, cfg, tgt, True, loop) for _, tgt in es)
                            detail = "MatchSucceeded edge returns true: %s" % okk
        ctx.check(okk, "R2", "first-matching-sibling-wins:%s" % tag, ctx.where(body), detail)
        # the walk is the only place a sibling is evaluated: a call of the per-policy function outside the loop (a direct lookup of
        # "the" entry for this client, say) applies a sibling ahead of earlier ones that also match
        # (a closure of the walk is the walk written with an iterator adaptor — `policies.iter().any(|p| apply_policy(..))` — and is
        # spliced into this body as a loop when it is built here; what counts is a call in the function's own straight-line code)
        family_calls = [(x, bb, tm) for x in (body,) for bb, tm in x.calls() if callee_name(tm) == callee]
        outside = [P.rel(tm["sp"]) for x, bb, tm in family_calls if not any(bb in l for l in loops)]
        ctx.check(not outside, "R2", "siblings-are-evaluated-only-by-the-walk:%s" % tag, ctx.where(body),
                  "the per-policy function is also called outside the loop over the sibling list: %s" % (outside or "-"))
        if tag == "check":
            # a sibling without conditions whose children do not match must not end the search
            recs = [(bb, tm) for bb, tm in body.calls() if callee_name(tm) == body.id]
            good = bool(recs)
            for bb, tm in recs:
                loop = [l for l in loops if bb in l]
                if not loop:
                    good = False
                    continue
                loop = min(loop, key=len)
                cont = False

                def mr(d, bb=bb):
                    return d[0] == "call" and d[1] == body.id and d[3] == bb
                for sbb, d, te, fe in bool_switches(P, body, mr):
                    cont = all(tgt in loop for _, tgt in fe) and all(_assigns_const(body, cfg, tgt, True, loop) for _, tgt in te)
                good = good and cont
            ctx.check(good, "R2", "unconditional-sibling-without-matching-children-is-skipped", ctx.where(body),
                      "when a condition-less sibling's sub-policies do not match, the search must continue with the next sibling "
                      "(return true only on the true edge of the recursive check, stay in the loop on the false edge)")

    # ---------------- R3: match outcome gates application
    T = terms(P, A1)
    cfg = cfg_of(A1)
    muts = _resp_mutations(P, A1, T)
    descents = [(bb, tm) for bb, tm in A1.calls() if callee_name(tm) == AN.id]
    all_effects = [m[0] for m in muts] + [bb for bb, _ in descents]
    sw = None
    for sbb, stm in A1.terms():
        if stm["k"] == "switch":
            d = norm(T.at_term(stm["discr"], sbb))
            if d[0] == "discr" and d[1][0] == "call" and d[1][1] == C1.id:
                sw = sbb
    if sw is None:
        ctx.bad("R3", "match-outcome-switch-not-found", ctx.where(A1), "cannot find the switch on the policy match outcome")
    else:
        iF = _variant_index(P, "erbium::dhcp::PolicyMatch", "MatchFailed")
        iN = _variant_index(P, "erbium::dhcp::PolicyMatch", "NoMatch")
        # failed: reaches no effect
        for _, tgt in discr_edges(cfg, sw, iF):
            r = cfg.reachable_from(tgt)
            ctx.check(not (r & set(all_effects)), "R3", "failed-match-applies-nothing", ctx.where(A1),
                      "when a condition fails the policy must change nothing")
        # no-match: effects only through the true edge of check_policies(children)
        gate_true = []

        def m(d):
            return d[0] == "call" and d[1] == CN.id and any(y[0] == "field" and y[2] == "policies" for y in subterms(d[2][1]))
        for sbb, d, te, fe in bool_switches(P, A1, m):
            gate_true.extend(te)
        for e in discr_edges(cfg, sw, iN):
            r = cfg.reachable_avoiding_edges(e[1], set(gate_true))
            ctx.check(bool(gate_true) and not (r & set(all_effects)), "R3", "unconditional-policy-applies-only-if-a-child-matches", ctx.where(A1),
                      "a policy without conditions may apply only on the true edge of check_policies(children) (%d gate edge(s))" % len(gate_true))

    # ---------------- R1: parameter-request-list gating
    n = 0
    for bb, tm in A1.calls():
        nme = callee_name(tm) or ""
        if not (nme.endswith("::mutate_option") or nme.endswith("::mutate_option_default")):
            continue
        n += 1
        key = norm(T.call_args(bb)[1])

        def m(d, key=key):
            if d[0] == "call" and str(d[1]).startswith("std::collections::HashSet") and str(d[1]).endswith("::contains"):
                pl = d[2][0]
                from_pl = any(y[0] == "const" and len(y) > 2 and y[2].endswith("OPTION_PARAMLIST") for y in subterms(pl))
                return from_pl and norm(d[2][1]) == key
            return False
        guarded = False
        for sbb, d, te, fe in bool_switches(P, A1, m):
            if edge_dominated(cfg, te, bb):
                guarded = True
        ctx.check(guarded, "R1", "option-written-only-if-requested:%s:%s" % (nme.rsplit("::", 1)[1], _keyname(key)), ctx.where(A1, tm["sp"]),
                  "a policy option may be sent only if the client's parameter request list contains it (key %s)" % show(key)[:60])
    ctx.floor("R1", "policy option writes", n, 3)
    # the codes of the parameter request list are taken as sent: the u8 -> DhcpOption conversion wraps the octet and nothing else
    conv = [b for b in P.bodies.values() if b.id == "<erbium::dhcp::dhcppkt::DhcpOption as std::convert::From<u8>>::from"]
    for cb in conv:
        ctx.saw(cb)
        Tc = terms(P, cb)
        rets = [norm(Tc.rvalue(st["rv"], bb, idx)) for bb, idx, st in cb.stmts() if st["p"] == (0,) and "rv" in st]
        good = bool(rets) and all(r[0] == "agg" and len(r[3]) == 1 and norm(r[3][0][1]) == ("param", 1) for r in rets)
        ctx.check(good and not list(cb.calls()), "R1", "requested-option-codes-taken-as-sent", ctx.where(cb),
                  "DhcpOption::from(u8) must be DhcpOption(v) for every v (is %s): mapping one code onto another makes a request for the "
                  "one count as a request for the other" % [show(r)[:60] for r in rets])
    ctx.floor("R1", "u8 -> DhcpOption conversion", len(conv), 1)
    # handlers write unconditionally only 53/54/51
    n = 0
    for b in P.bodies.values():
        if b.crate != "erbium" or "dhcp::handle_" not in b.id:
            continue
        Tb = terms(P, b)
        for bb, tm in b.calls():
            if (callee_name(tm) or "").endswith("ResponseOptions::set_option"):
                n += 1
                k = norm(Tb.call_args(bb)[1])
                ctx.check(k[0] == "const" and k[1] in (53, 54, 51), "R1", "handler-writes-only-53/54/51:%s:%s" % (b.id.split("::")[-1], _keyname(k)),
                          ctx.where(b, tm["sp"]), "handlers may set unconditionally only message type, server id and lease time")
    ctx.floor("R1", "unconditional option writes in handlers", n, 6)

    # ---------------- R4: order own options -> children -> defaults; defaults do not overwrite; only Some emitted
    own = [m_[0] for m_ in muts if m_[1] == "mutate_option"]
    dfl = [m_[0] for m_ in muts if m_[1] == "mutate_option_default"]
    dsc = [bb for bb, _ in descents]
    ok1 = own and dsc and not any(cfg.paths_exist(d, o) for d in dsc for o in own)
    ok2 = dfl and dsc and not any(cfg.paths_exist(x, d) for d in dsc for x in dfl) and all(any(cfg.dominates(d, x) for d in dsc) for x in dfl)
    ctx.check(bool(ok1), "R4", "own-options-before-children", ctx.where(A1), "outer options first, inner policies override them")
    ctx.check(bool(ok2), "R4", "subnet-defaults-after-children", ctx.where(A1), "netmask/broadcast defaults are applied after the sub-policies")
    for fid, b in P.bodies.items():
        if fid.endswith("ResponseOptions::mutate_option_default"):
            ctx.saw(b)
            Tb = terms(P, b)
            cb = cfg_of(b)
            inner = [(bb, tm) for bb, tm in b.calls() if (callee_name(tm) or "").endswith("::mutate_option") or (callee_name(tm) or "").endswith("::insert")]

            def m(d):
                return d[0] == "call" and str(d[1]).endswith("::contains_key") and norm(d[2][1])[0] == "param"
            okk = False
            for sbb, d, te, fe in bool_switches(P, b, m):
                if inner and all(edge_dominated(cb, fe, bb) for bb, _ in inner):
                    okk = True
            ctx.check(okk, "R4", "default-never-overwrites-explicit-entry", ctx.where(b),
                      "a default may be written only when the table has no entry for the key (so an explicit null survives)")
        if fid.endswith("ResponseOptions::to_options"):
            ctx.saw(b)
            Tb = terms(P, b)
            cb = cfg_of(b)
            ins = [(bb, tm) for bb, tm in b.calls() if (callee_name(tm) or "").endswith("::insert")]
            okk = bool(ins)
            for bb, tm in ins:
                v = norm(Tb.call_args(bb)[2])
                # value derives from the Some payload of the table entry
                okk = okk and any(y[0] == "payload" and y[1] == "Some" for y in subterms(v))
            ctx.check(okk, "R4", "only-set-values-are-emitted", ctx.where(b), "explicitly unset (None) entries must not be sent")

    # ---------------- R5: provenance of the built-in base policy
    _r5(ctx)


def _variant_index(P, adt, name):
    a = P.adt(adt)
    if a is None:
        return -1
    for i, v in enumerate(a["variants"]):
        if v["name"] == name:
            return i
    return -1


def _keyname(k):
    if k[0] == "const" and len(k) > 2:
        return k[2].split("::")[-1]
    if k[0] == "const":
        return str(k[1])
    return "key"


def _returns_before_loop(cfg, tgt, loop):
    """from tgt a return is reached without re-entering the loop"""
    r = cfg.reachable_from(tgt, blocked=tuple(loop - {tgt}) if tgt not in loop else ())
    if tgt in loop:
        # the target itself is in the loop: it must leave without taking a back edge
        r = cfg.reachable_from(tgt)
        return False if any(h in r for h in loop if h != tgt and cfg.dominates(h, tgt) and (tgt, h) in cfg.back_edges()) else bool(set(cfg.return_blocks()) & r)
    return bool(set(cfg.return_blocks()) & r) and not (r & loop)


def _assigns_const(body, cfg, tgt, value, loop):
    r = cfg.reachable_from(tgt, blocked=tuple(loop))
    for bb in r:
        for s in body.blocks[bb]["stmts"]:
            if s["p"] == (0,) and "rv" in s and s["rv"]["k"] == "use" and s["rv"]["op"].get("k", {}).get("bool") is value:
                return True
    return False


def _r8_null_stays_null(ctx):
    """R8 `null` removes: the typed option parser hands back None for `null` whatever the option's type — no arm replaces the parser's
    None by a default value (`unwrap_or_default`, `unwrap_or`)."""
    P = ctx.P
    n = 0
    for b in P.bodies.values():
        root = b.id.split("::{")[0]
        if not root.endswith("dhcp::config::Config::parse_generic") or "::test" in b.id:
            continue
        n += 1
        ctx.saw(b)
        T = terms(P, b)
        bad = []
        for bb, tm in b.calls():
            nme = callee_name(tm) or ""
            last = nme.rsplit("::", 1)[-1]
            if last in ("unwrap_or_default", "unwrap_or", "unwrap_or_else", "get_or_insert_with", "get_or_insert") and "Option" in nme and tm["args"]:
                a = norm(T.call_args(bb)[0])
                if any(y[0] == "call" and "::parse_" in str(y[1]) for y in subterms(a)):
                    bad.append("%s at %s" % (last, P.rel(tm["sp"])))
        ctx.check(not bad, "R8", "null-stays-null-through-the-option-parser", ctx.where(b),
                  "a parsed `null` (None) is replaced by a default value: %s" % (bad or "-"))
    if ctx.config in ("default", "dhcp"):
        ctx.floor("R8", "typed option parser", n, 1)


def _r7_subnet_defaults_whenever_asked(ctx, A1):
    """R7 netmask and broadcast of the matched subnet are defaults for *every* matched subnet: once the policy's `match-subnet` is known
    to be present, the only thing that decides whether `mutate_option_default(NETMASK | BROADCAST, subnet.netmask() | .broadcast())`
    runs is whether the client asked for that option. A further condition (on the prefix length, say) takes the default away from
    the subnets it excludes."""
    P = ctx.P
    b = A1
    T = terms(P, b)
    cfg = cfg_of(b)
    n = 0
    for bb, tm in b.calls():
        if not (callee_name(tm) or "").endswith("mutate_option_default") or len(tm["args"]) < 3:
            continue
        a = [norm(x) for x in T.call_args(bb)]
        val = a[2]
        while val[0] in ("ref", "deref"):
            val = norm(val[1])
        if not (val[0] == "call" and str(val[1]).rsplit("::", 1)[-1] in ("netmask", "broadcast") and
                any(y[0] == "field" and y[2] == "match_subnet" for y in subterms(val))):
            continue
        n += 1
        subnet_edges = []
        for sb, t2 in b.terms():
            if t2["k"] == "switch":
                d = norm(T.at_term(t2["discr"], sb))
                if d[0] == "discr" and norm(d[1])[0] == "field" and norm(d[1])[2] == "match_subnet":
                    subnet_edges += discr_edges(cfg, sb, 1)
        extra = []
        for sb, t2 in b.terms():
            if t2["k"] != "switch" or not edge_dominated(cfg, subnet_edges, sb):
                continue
            es = [(sb, t) for t in cfg.succ[sb]]
            dom = [e for e in es if cfg.edge_dominates(e, bb)]
            if not dom or len(dom) == len(es):
                continue
            d = norm(T.at_term(t2["discr"], sb))
            while d[0] == "un" and d[1] == "Not":
                d = norm(d[2])
            asked = d[0] == "call" and str(d[1]).endswith("::contains") and ("HashSet" in str(d[1]) or "BTreeSet" in str(d[1]) or "slice" in str(d[1]))
            if not asked:
                extra.append(show(d)[:80])
        ctx.check(bool(subnet_edges) and not extra, "R7", "subnet-default-applies-whenever-asked:%s" % str(val[1]).rsplit("::", 1)[-1], ctx.where(b, tm["sp"]),
                  "besides `match-subnet` being present and the client asking for the option, the default also depends on: %s" % (extra or "-"))
    ctx.floor("R7", "subnet-derived defaults", n, 2)


def _r6_option_condition_is_equality(ctx, C1):
    """R6 a `match-<option>` condition holds when the option's value *is* the configured value (or, for `null`, when the option is
    absent): in the loop over the option conditions the decision is set to true only on the true edge of an equality test or where the
    request was found not to carry the option, and it is never the result of a looser comparison (a prefix, a substring, a
    case-folded match). A reservation keyed on host-name `nas` is otherwise also `nas-backup`'s."""
    P = ctx.P
    b = C1
    T = terms(P, b)
    cfg = cfg_of(b)
    loops = [cfg.natural_loop(e) for e in cfg.back_edges()]
    failed = {bb for bb, idx, st in b.stmts() if st["p"] == (0,) and st.get("rv") and st["rv"]["k"] == "agg" and st["rv"].get("variant") == "MatchFailed"}
    n = 0
    for sbb, tm in b.terms():
        if tm["k"] != "switch" or not any(sbb in l for l in loops):
            continue
        pl = op_place(tm["discr"])
        if pl is None or len(pl) != 1 or b.local_ty(pl[0]) != "bool":
            continue
        loop = min((l for l in loops if sbb in l), key=len)
        zero = [t for v, t in cfg.switch_edges(sbb) if v == 0]
        nonzero = [t for v, t in cfg.switch_edges(sbb) if v != 0]
        if zero and all(t in failed for t in zero) and not all(t in failed for t in nonzero):
            pol = 1        # the switched value is "the condition holds"
        elif nonzero and all(t in failed for t in nonzero) and not all(t in failed for t in zero):
            pol = -1       # the switched value is "the condition does not hold" (`if !holds { return MatchFailed }`)
        else:
            continue
        defs_true, other = [], []
        seen_l = set()

        def trace(L, pol, depth=0):
            if (L, pol) in seen_l or depth > 6:
                return
            seen_l.add((L, pol))
            for bb, idx, st in b.stmts():
                if tuple(st["p"]) != (L,) or not st.get("rv"):
                    continue
                rv = st["rv"]
                k = rv["op"].get("k") if rv["k"] == "use" else None
                if rv["k"] == "use" and isinstance(k, dict) and isinstance(k.get("bool"), bool):
                    if k["bool"] == (pol > 0):
                        defs_true.append((bb, st))
                elif rv["k"] == "use" and op_place(rv["op"]) and len(op_place(rv["op"])) == 1:
                    trace(op_place(rv["op"])[0], pol, depth + 1)
                elif rv["k"] == "un" and rv.get("op") == "Not" and op_place(rv["a"]) and len(op_place(rv["a"])) == 1:
                    trace(op_place(rv["a"])[0], -pol, depth + 1)
                else:
                    other.append((bb, st["sp"], "assignment"))
            for bb, t2 in b.calls():
                if tuple(t2["dest"]) == (L,):
                    last = (callee_name(t2) or "?").rsplit("::", 1)[-1]
                    if (last == "eq" and pol > 0) or (last == "ne" and pol < 0):
                        continue
                    if (last == "is_none" and pol > 0) or (last == "is_some" and pol < 0):
                        # `(None, sent) => sent.is_none()`: the absence test of the option the request carries, made where the
                        # configured value was found to be `null`
                        a = [norm(x) for x in T.call_args(bb)]
                        of_get = bool(a) and any(y[0] == "call" and str(y[1]).endswith("::get") for y in subterms(a[0]))
                        wanted_null = []
                        for b3, t3 in b.terms():
                            if t3["k"] == "switch" and b3 in loop:
                                d3 = norm(T.at_term(t3["discr"], b3))
                                if d3[0] == "discr" and not any(y[0] == "call" and str(y[1]).endswith("::get") for y in subterms(norm(d3[1]))):
                                    wanted_null += discr_edges(cfg, b3, 0)
                        if of_get and edge_dominated(cfg, wanted_null, bb):
                            continue
                    other.append((bb, t2["sp"], last))
        trace(pl[0], pol)
        if not defs_true and not other and not seen_l:
            continue
        n += 1
        eq_true = []
        for b2, d, te, fe2 in bool_switches(P, b, lambda d: d[0] == "call" and str(d[1]).endswith("::eq")):
            if b2 in loop:
                eq_true += te
        absent = []
        for b2, t2 in b.terms():
            if t2["k"] == "switch" and b2 in loop:
                d = norm(T.at_term(t2["discr"], b2))
                if d[0] == "discr" and norm(d[1])[0] == "call" and str(norm(d[1])[1]).endswith("::get"):
                    absent += discr_edges(cfg, b2, 0)
        bad = [(bb, st["sp"]) for bb, st in defs_true if not (edge_dominated(cfg, eq_true, bb) or edge_dominated(cfg, absent, bb))]
        ctx.check(not bad and not other, "R6", "option-condition-holds-on-equality-only", ctx.where(b, (bad or other or [(0, tm.get("sp"))])[0][1]),
                  "in the loop over the option conditions the decision becomes true outside an equality test (%d place(s)) or is computed by "
                  "something else (%s)" % (len(bad), [x[2] for x in other] or "nothing"))
    if n == 0:
        # the decision is not kept in a boolean (or jump threading has folded it into the control flow): then it is the edge itself —
        # the block of the loop where the outcome becomes MatchSucceeded is reached only across the true edge of an equality test
        # or the edge where the request was found not to carry the option
        eq_true, absent, absent_any, wanted_null = [], [], [], []
        inloop = set().union(*loops) if loops else set()
        for b2, d, te, fe2 in bool_switches(P, b, lambda d: d[0] == "call" and str(d[1]).endswith("::eq")):
            if b2 in inloop:
                eq_true += te
        for b2, t2 in b.terms():
            if t2["k"] == "switch" and b2 in inloop:
                d = norm(T.at_term(t2["discr"], b2))
                if d[0] == "discr" and norm(d[1])[0] == "call" and str(norm(d[1])[1]).endswith("::get"):
                    absent_any.append((b2, discr_edges(cfg, b2, 0)))
                elif d[0] == "discr" and not any(y[0] == "call" and str(y[1]).endswith("::get") for y in subterms(norm(d[1]))) and \
                        not (norm(d[1])[0] == "call" and str(norm(d[1])[1]).endswith("::next")):
                    wanted_null += discr_edges(cfg, b2, 0)
        # "the request does not carry the option" satisfies a condition only where the configured value was found to be `null`
        for b2, es in absent_any:
            if edge_dominated(cfg, wanted_null, b2):
                absent += es
        for bb, idx, st in b.stmts():
            if bb in inloop and st.get("rv") and st["rv"]["k"] == "agg" and st["rv"].get("variant") == "MatchSucceeded":
                n += 1
                ctx.check(bb not in cfg.reachable_avoiding_edges(0, set(eq_true) | set(absent)),
                          "R6", "option-condition-holds-on-equality-only", ctx.where(b, st["sp"]),
                          "in the loop over the option conditions the outcome becomes MatchSucceeded on a path that crosses neither the "
                          "true edge of an equality test nor the edge where the option is absent from the request")
    ctx.floor("R6", "decision of the option-condition loop", n, 1)
    # the two conditions outside the loop fail the policy at once: a hardware address that differs, a receiving address outside
    # `match-subnet`, lead to `return MatchFailed` — not to a note that a later condition may overwrite
    m2 = 0
    for sbb, d, te, fe in bool_switches(P, b, lambda d: d[0] == "call" and (
            (str(d[1]).rsplit("::", 1)[-1] in ("ne", "eq") and any(y[0] == "field" and y[2] in ("chaddr", "match_chaddr") for a in d[2] for y in subterms(norm(a)))) or
            (str(d[1]).endswith("Ipv4Subnet::contains") and any(y[0] == "field" and y[2] == "match_subnet" for a in d[2] for y in subterms(norm(a)))))):
        if any(sbb in l for l in loops):
            continue
        m2 += 1
        last = str(d[1]).rsplit("::", 1)[-1]
        failing = te if last == "ne" else fe
        ctx.check(bool(failing) and all(tgt in failed for _, tgt in failing), "R6", "a-failed-condition-ends-the-evaluation:%s" % ("chaddr" if last in ("ne", "eq") else "subnet"),
                  ctx.where(b), "on the edge where the condition does not hold the function must return MatchFailed")
    ctx.floor("R6", "conditions tested outside the option loop", m2, 2)


def _r5(ctx):
    P = ctx.P
    roots = [f for f in P.bodies if f.endswith("dhcp::build_default_config")]
    ctx.floor("R5", "built-in base policy builder", len(roots), 1)
    if not roots:
        return
    want = {"OPTION_DOMAINSERVER": "dns_servers", "OPTION_DOMAINSEARCH": "dns_search", "OPTION_CAPTIVEPORTAL": "captive_portal",
            "OPTION_MTUIF": "if_mtu", "OPTION_ROUTERADDR": "if_router"}
    seen = {}
    for b in P.family(roots[0]):
        ctx.saw(b)
        T = terms(P, b)
        for bb, tm in b.calls():
            if (callee_name(tm) or "").startswith("std::collections::HashMap") and (callee_name(tm) or "").endswith("::insert"):
                a = [norm(x) for x in T.call_args(bb)]
                k = a[1]
                if k[0] == "const" and len(k) > 2:
                    kn = k[2].split("::")[-1]
                    fields = {y[2] for y in subterms(a[2]) if y[0] == "field"}
                    # values computed in closures: look through captured closures too
                    for y in subterms(a[2]):
                        if y[0] == "agg" and y[1].startswith("closure:"):
                            cb = P.bodies.get(y[1][8:])
                            if cb is not None:
                                for _, kk, _ in body_consts(cb):
                                    pass
                    seen[kn] = (fields, ctx.where(b, tm["sp"]), a[2])
    for kn, fld in want.items():
        if kn not in seen:
            ctx.bad("R5", "base-policy:%s:missing" % kn, "", "the built-in policy must supply %s from %s" % (kn, fld))
            continue
        fields, where, v = seen[kn]
        ctx.check(fld in fields, "R5", "base-policy:%s<-%s" % (kn, fld), where, "value is %s" % show(v)[:120])
    # $self4 -> request.serverip
    okk = False
    for b in P.family(roots[0]):
        if b.kind != "closure":
            continue
        T = terms(P, b)
        cfg = cfg_of(b)

        def m(d):
            return d[0] == "call" and str(d[1]).endswith("::eq") and any(
                y[0] == "const" and len(y) > 2 and y[2].endswith("INTERFACE4") for a in d[2] for y in subterms(a))
        for sbb, d, te, fe in bool_switches(P, b, m):
            for bb, idx, s in b.stmts():
                if s["p"] == (0,) and "rv" in s:
                    t = norm(T.rvalue(s["rv"], bb, idx))
                    if t[0] == "agg" and t[2] == "Some":
                        v = norm(t[3][0][1])
                        rp = resolve_path(P, b, v)
                        if rp is not None and rp[2][-1:] == ("serverip",) and edge_dominated(cfg, te, bb):
                            okk = True
    # the interface MTU and router in it are the receiving interface's at the time of *this* request: the policy given to the
    # handlers is the builder's result for the request being handled, not something remembered from an earlier one
    n = 0
    for b in P.bodies.values():
        if not b.id.endswith("dhcp::handle_pkt"):
            continue
        T = terms(P, b)
        req = {pl[0] for pl in b.var_places("request") if len(pl) == 1}
        for bb, tm in b.calls():
            cn = callee_name(tm) or ""
            if not cn and tm["callee"].get("ptr") is not None and len(tm["args"]) == 5:
                cn = "(handler chosen as a function pointer)"       # `let handler: fn(..) = match type { .. }; handler(..)`
            elif not (cn.endswith("dhcp::handle_discover") or cn.endswith("dhcp::handle_request")) or len(tm["args"]) < 4:
                continue
            n += 1
            ctx.saw(b)
            v = norm(T.call_args(bb)[3])
            while True:
                if v[0] in ("ref", "deref", "cast") and len(v) > 1 and isinstance(v[1], tuple):
                    v = norm(v[1])
                elif v[0] == "agg" and len(v) > 3 and len(v[3]) == 1:
                    v = norm(v[3][0][1])
                elif v[0] == "call" and len(v[2]) == 1 and str(v[1]).rsplit("::", 1)[-1] in ("deref", "as_ref", "as_slice", "borrow", "into", "from", "new", "into_boxed_slice", "to_vec"):
                    v = norm(v[2][0])
                else:
                    break
            built = v[0] == "call" and str(v[1]).endswith("dhcp::build_default_config")
            mine = built and len(v[2]) == 2 and any(y[0] == "param" and y[1] in req for y in subterms(norm(v[2][1])))
            ctx.check(built and mine, "R5", "base-policy-built-for-this-request:%s" % cn.rsplit("::", 1)[-1], ctx.where(b, tm["sp"]),
                      "the base policy given to the handler must be build_default_config(conf, request) for the request in hand (is %s)" % show(v)[:160])
    ctx.floor("R5", "handler calls given a base policy", n, 1)
    # every IPv4 prefix of `addresses` gets its sub-policy: the closure that builds it gives up (None) only for a prefix that is not
    # IPv4 — a `?` on some detail (an MTU that does not fit, a missing router) would take the pool, netmask and router defaults with it
    m = 0
    padt = P.adt("erbium::config::Prefix")
    v4 = [i for i, v in enumerate(padt["variants"]) if v["name"] == "V4"] if padt else []
    for x in P.family(roots[0]):
        if x.kind != "closure" or "Option<erbium::dhcp::config::Policy>" not in x.ret_ty().replace("std::option::", ""):
            continue
        m += 1
        ctx.saw(x)
        Tx = terms(P, x)
        xcfg = cfg_of(x)
        notv4 = []
        for sb, t2 in x.terms():
            if t2["k"] == "switch":
                d = norm(Tx.at_term(t2["discr"], sb))
                if d[0] == "discr" and v4:
                    ty = ""
                    try:
                        ty = Tx.type_of(d[1]) or ""
                    except Exception:
                        ty = ""
                    for v, tgt in xcfg.switch_edges(sb):
                        if v != v4[0]:
                            notv4.append((sb, tgt))
        # (one early exit is part of the reviewed code: Ipv4Subnet::new(p4.network(), len).ok()? — the constructor refuses host bits and
        # is given the masked address)
        early = [P.rel(tm["sp"]) for bb, tm in x.calls() if "from_residual" in (callee_name(tm) or "") and
                 not any(y[0] == "call" and str(y[1]).endswith("Ipv4Subnet::new") for a_ in Tx.call_args(bb) for y in subterms(norm(a_)))]
        nones = [(bb, st["sp"]) for bb, idx, st in x.stmts() if tuple(st["p"]) == (0,) and st.get("rv") and st["rv"]["k"] == "agg" and st["rv"].get("variant") == "None"]
        stray = [P.rel(sp) for bb, sp in nones if not edge_dominated(xcfg, notv4, bb)]
        ctx.check(not early and not stray, "R5", "every-ipv4-prefix-gets-its-sub-policy", ctx.where(x),
                  "the sub-policy of an `addresses` prefix is dropped on a path other than \"not an IPv4 prefix\": early exits %s, None at %s" % (early or "-", stray or "-"))
    ctx.floor("R5", "per-prefix sub-policy builders", m, 1)
    ctx.check(okk, "R5", "base-policy:$self4<-request.serverip", ctx.where(P.bodies[roots[0]]),
              "the $self4 placeholder in dns-servers must be replaced by the receiving address")
