"""Run the fact extractor over /repo's current working tree (cached by content hash).

The cache key covers every file under /repo except target/ and .git/, plus the
driver binary, plus the feature configuration; any edit re-extracts.  The
dependency build is kept warm in /verif/.work/tgt-<cfg>, but the workspace
members' fingerprints are deleted before each extraction so cargo cannot skip
the wrapper (a skipped wrapper would silently replay stale facts); the run
fails closed unless a fresh fact file exists for every expected unit.
"""
import fcntl
import hashlib
import os
import shutil
import subprocess
import sys
import time

VERIF = os.path.dirname(os.path.dirname(os.path.abspath(__file__)))
REPO = os.environ.get("ERBIUM_REPO", "/repo")
WORK = os.environ.get("VERIF_WORK_DIR") or os.path.join(VERIF, ".work")     # (developer tools may give parallel workers a work dir each)
DRIVER_SRC = os.path.join(VERIF, "driver")
DRIVER_BIN = os.path.join(WORK, "driver-target", "release", "erbium-facts")

# feature configurations of erbium-core that the thorough tier also analyses
CONFIGS = {
    "default": [],
    "dns": ["-p", "erbium-core", "--lib", "--no-default-features", "--features", "dns"],
    "dhcp": ["-p", "erbium-core", "--lib", "--no-default-features", "--features", "dhcp"],
    "radv": ["-p", "erbium-core", "--lib", "--no-default-features", "--features", "radv"],
}
EXPECTED_UNITS = {
    "default": {("erbium_net", "lib"), ("erbium", "lib"), ("erbium", "bin"), ("erbium_dns", "bin"),
                ("erbium_dhcp", "bin"), ("erbium_lldp", "bin"), ("erbium_conftest", "bin")},
    "dns": {("erbium", "lib")},
    "dhcp": {("erbium", "lib")},
    "radv": {("erbium", "lib")},
}


class ExtractError(Exception):
    pass


def _sysroot():
    return subprocess.check_output(["rustc", "+nightly", "--print", "sysroot"], text=True).strip()


def build_driver(force=False):
    if os.path.exists(DRIVER_BIN) and not force:
        # rebuild if any driver source is newer than the binary
        newest = 0
        for root, _, files in os.walk(DRIVER_SRC):
            for f in files:
                newest = max(newest, os.path.getmtime(os.path.join(root, f)))
        if newest <= os.path.getmtime(DRIVER_BIN):
            return
    os.makedirs(WORK, exist_ok=True)
    env = dict(os.environ)
    env["CARGO_TARGET_DIR"] = os.path.join(WORK, "driver-target")
    env["CARGO_NET_OFFLINE"] = "true"
    r = subprocess.run(["cargo", "+nightly", "build", "--release", "--offline"], cwd=DRIVER_SRC, env=env,
                       stdout=subprocess.PIPE, stderr=subprocess.STDOUT, text=True)
    if r.returncode != 0 or not os.path.exists(DRIVER_BIN):
        raise ExtractError("driver build failed:\n" + r.stdout[-4000:])


def tree_key(config="default"):
    h = hashlib.sha256()
    h.update(config.encode())
    with open(DRIVER_BIN, "rb") as f:
        h.update(hashlib.sha256(f.read()).digest())
    paths = []
    for root, dirs, files in os.walk(REPO):
        dirs[:] = sorted(d for d in dirs if not (root == REPO and d in ("target", ".git")))
        for f in sorted(files):
            paths.append(os.path.join(root, f))
    for p in paths:
        if os.path.islink(p) or not os.path.isfile(p):
            continue
        h.update(os.path.relpath(p, REPO).encode())
        with open(p, "rb") as f:
            h.update(hashlib.sha256(f.read()).digest())
    return h.hexdigest()[:24]


def facts_for(config="default", log=None):
    """returns (facts_dir, key, extracted_now: bool, seconds)"""
    t0 = time.time()
    build_driver()
    key = tree_key(config)
    os.makedirs(os.path.join(WORK, "facts"), exist_ok=True)
    fdir = os.path.join(WORK, "facts", key)
    lock = open(os.path.join(WORK, "extract-%s.lock" % config), "w")
    fcntl.flock(lock, fcntl.LOCK_EX)
    try:
        if os.path.exists(os.path.join(fdir, "COMPLETE")):
            return fdir, key, False, time.time() - t0
        if os.path.exists(fdir):
            shutil.rmtree(fdir)
        tmp = fdir + ".tmp"
        if os.path.exists(tmp):
            shutil.rmtree(tmp)
        os.makedirs(tmp)
        tgt = os.path.join(WORK, "tgt-" + config)
        fp = os.path.join(tgt, "debug", ".fingerprint")
        if os.path.isdir(fp):
            for d in os.listdir(fp):
                if d.startswith("erbium"):
                    shutil.rmtree(os.path.join(fp, d), ignore_errors=True)
        env = dict(os.environ)
        env["LD_LIBRARY_PATH"] = _sysroot() + "/lib"
        env["RUSTFLAGS"] = "-Zmir-opt-level=0 -Awarnings"
        env["RUSTC_WORKSPACE_WRAPPER"] = DRIVER_BIN
        env["ERBIUM_FACTS_DIR"] = tmp
        env["CARGO_TARGET_DIR"] = tgt
        env["CARGO_NET_OFFLINE"] = "true"
        args = ["cargo", "+nightly", "check", "--offline"] + (CONFIGS[config] or ["--workspace"])
        r = subprocess.run(args, cwd=REPO, env=env, stdout=subprocess.PIPE, stderr=subprocess.STDOUT, text=True)
        if r.returncode != 0:
            raise ExtractError("cargo check with the fact extractor failed (does /repo compile?):\n" + r.stdout[-6000:])
        got = set()
        for f in os.listdir(tmp):
            if f.endswith(".json"):
                parts = f[:-5].rsplit("-", 2)
                got.add((parts[0], parts[1]))
        missing = EXPECTED_UNITS[config] - got
        if missing:
            raise ExtractError("fact files missing for units %s (cargo skipped the wrapper?)" % sorted(missing))
        with open(os.path.join(tmp, "COMPLETE"), "w") as f:
            f.write(key + "\n")
        os.rename(tmp, fdir)
        # keep the cache small: drop all but the 6 newest fact dirs
        base = os.path.join(WORK, "facts")
        ds = sorted((d for d in os.listdir(base) if os.path.isdir(os.path.join(base, d)) and not d.endswith(".tmp")),
                    key=lambda d: os.path.getmtime(os.path.join(base, d)))
        for d in ds[:-6]:
            shutil.rmtree(os.path.join(base, d), ignore_errors=True)
        return fdir, key, True, time.time() - t0
    finally:
        fcntl.flock(lock, fcntl.LOCK_UN)
        lock.close()


if __name__ == "__main__":
    cfgs = sys.argv[1:] or ["default"]
    for c in cfgs:
        d, k, fresh, s = facts_for(c)
        print("%s: %s key=%s fresh=%s %.1fs" % (c, d, k, fresh, s))
