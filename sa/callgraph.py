"""Whole-program call graph over resolved callees.

Edges: resolved call (or declaration when unresolved), closure/coroutine creation (parent -> closure body,
because the closure runs on behalf of its creator or of whoever it is handed to), fn items passed as values
(`or_else(map_no_row_to_none)`), and poll-of-future edges (already resolved by the driver to the coroutine body).
Unresolved trait-object / generic calls fan out to every workspace impl method of that name.
"""
import re
from .facts import callee_name, op_place


class CallGraph:
    def __init__(self, P):
        self.P = P
        self.out = {}      # body id -> set(callee ids)  (any id, also external)
        self.sites = {}    # callee id -> [(body, bb, term)]
        self.spawned = {}  # closure/coroutine body id -> True when created as the argument of a spawn call
        by_method = {}
        for im in P.impls:
            for m, path in im["methods"].items():
                by_method.setdefault(m, []).append(path)
        # `{}` / `{:?}` of a workspace type runs that type's Display / Debug impl — and, for a container or a derived impl, those of
        # the workspace types inside it.  format_args! names the trait and the value's type at `fmt::rt::Argument::new_<trait>::<T>`.
        fmt_impl = {}
        for im in P.impls:
            if (im.get("trait") or "").startswith("std::fmt::") and "fmt" in (im.get("methods") or {}):
                fmt_impl[(im["trait"].rsplit("::", 1)[-1], re.sub(r"<.*$", "", im["self_ty"]))] = im["methods"]["fmt"]
        # what a type contains (field types, transitively): a derived Debug hands its fields to the formatter as `&dyn Debug`
        inside = {}
        for path, adt in (P.adts or {}).items():
            ws = set()
            for v in adt.get("variants") or []:
                for f in v.get("fields") or []:
                    ws |= set(re.findall(r"[A-Za-z_][A-Za-z_0-9]*(?:::[A-Za-z_][A-Za-z_0-9]*)+", f.get("ty") or ""))
            inside[path] = ws

        def closure(ws):
            seen, todo = set(), list(ws)
            while todo:
                w = todo.pop()
                if w in seen:
                    continue
                seen.add(w)
                todo.extend(inside.get(w, ()))
            return seen
        # `a == b`, `a < b`, hashing and cloning of a value that *contains* a workspace type run that type's impl from inside the
        # standard library's generic code (Option<&T>::ne -> <&T>::eq -> T::eq), where no call site of ours shows it.  A derived impl
        # only compares fields; a hand-written one is code like any other, so it gets an edge from the comparison.
        handwritten = {}
        for im in P.impls:
            tr = im.get("trait") or ""
            if tr in ("std::cmp::PartialEq", "std::cmp::PartialOrd", "std::cmp::Ord", "std::hash::Hash", "std::clone::Clone", "std::ops::Drop",
                      "std::default::Default") and not im.get("auto_derived"):
                for m_, path_ in (im.get("methods") or {}).items():
                    handwritten.setdefault((tr.rsplit("::", 1)[-1], re.sub(r"<.*$", "", im["self_ty"])), []).append(path_)
        CMP_TRAITS = ("PartialEq", "PartialOrd", "Ord", "Hash", "Clone", "Default")
        FMT_TRAIT = {"debug": "Debug", "display": "Display", "lower_hex": "LowerHex", "upper_hex": "UpperHex", "octal": "Octal", "binary": "Binary",
                     "lower_exp": "LowerExp", "upper_exp": "UpperExp", "pointer": "Pointer"}
        for b in P.bodies.values():
            outs = self.out.setdefault(b.id, set())
            for bb, t in b.calls():
                n = callee_name(t)
                c = t["callee"]
                if n is not None and "fmt::rt::Argument" in n and "::new_" in n:
                    tr = FMT_TRAIT.get(n.rsplit("::new_", 1)[1].split("::")[0].split("<")[0])
                    ty = (c.get("gargs") or ["?"])[-1]
                    if tr:
                        named = set(re.findall(r"[A-Za-z_][A-Za-z_0-9]*(?:::[A-Za-z_][A-Za-z_0-9]*)+", ty))
                        for w in (closure(named) if tr == "Debug" else named):
                            for trait in (tr,):
                                f = fmt_impl.get((trait, w))
                                if f is not None and f != b.id:
                                    outs.add(f)
                                    self.sites.setdefault(f, []).append((b, bb, t))
                if n is not None and handwritten and c.get("local") is not True:
                    trn = next((x for x in CMP_TRAITS if ("::%s>::" % x) in n or ("::%s::" % x) in n or ("cmp::%s" % x) in n or ("hash::%s" % x) in n), None)
                    if trn:
                        tys = " ".join(str(g) for g in (c.get("gargs") or [])) + " " + n
                        named = set(re.findall(r"[A-Za-z_][A-Za-z_0-9]*(?:::[A-Za-z_][A-Za-z_0-9]*)+", tys))
                        for w in closure(named):
                            for f in handwritten.get((trn, w), ()):
                                if f != b.id and f != n:
                                    outs.add(f)
                                    self.sites.setdefault(f, []).append((b, bb, t))
                if n is not None:
                    outs.add(n)
                    self.sites.setdefault(n, []).append((b, bb, t))
                    if c.get("resolved") is None and c.get("trait"):
                        # unresolved trait call: fan out to workspace impls of that method
                        m = n.rsplit("::", 1)[1]
                        for path in by_method.get(m, []):
                            outs.add(path)
                            self.sites.setdefault(path, []).append((b, bb, t))
                for a in t["args"]:
                    k = a.get("k")
                    if k and "fn" in k:
                        outs.add(k["fn"])
                        self.sites.setdefault(k["fn"], []).append((b, bb, t))
            for bb, idx, s in b.stmts():
                rv = s.get("rv")
                if rv and rv["k"] == "agg" and rv["akind"] in ("closure", "coroutine", "coroutine_closure"):
                    outs.add(rv["def"])
                if rv and rv["k"] == "use" and rv["op"].get("k") and "fn" in rv["op"]["k"]:
                    outs.add(rv["op"]["k"]["fn"])
                if rv and rv["k"] == "cast" and rv["op"].get("k") and "fn" in rv["op"]["k"]:
                    # `f as fn(..) -> ..`: a function pointer is made here; whoever calls through it calls f.  The reification is
                    # recorded as a (pseudo) call site of f in this body, so that f has this body among its callers.
                    f = rv["op"]["k"]["fn"]
                    outs.add(f)
                    self.sites.setdefault(f, []).append((b, bb, {"k": "reify", "callee": {"resolved": f, "decl": f}, "args": [], "dest": s["p"],
                                                                 "sp": s.get("sp", b.span), "t": None}))
        # closures / async blocks handed to a spawn call run as their own task
        for b in P.bodies.values():
            made = {}
            for bb, idx, st in b.stmts():
                rv = st.get("rv")
                if rv and rv["k"] == "agg" and rv["akind"] in ("closure", "coroutine", "coroutine_closure") and len(st["p"]) == 1:
                    made[st["p"][0]] = rv["def"]
            for bb, t in b.calls():
                n = callee_name(t) or ""
                if n in ("tokio::spawn", "tokio::task::spawn", "tokio::task::spawn_local", "std::thread::spawn", "tokio::task::spawn_blocking") and t["args"]:
                    pl = op_place(t["args"][0])
                    if pl is not None and len(pl) == 1 and pl[0] in made:
                        self.spawned[made[pl[0]]] = True
        # async fn: parent fn body -> its coroutine is covered by the aggregate edge above

    def callers(self, callee_id):
        return self.sites.get(callee_id, [])

    def reachable(self, roots, stop=lambda n: False):
        seen = set()
        todo = list(roots)
        while todo:
            x = todo.pop()
            if x in seen:
                continue
            seen.add(x)
            if stop(x):
                continue
            for y in self.out.get(x, ()):
                if y not in seen:
                    todo.append(y)
        return seen

    def reaches(self, src, dst):
        return dst in self.reachable([src])


_cg = {}


def callgraph(P):
    g = _cg.get(id(P))
    if g is None:
        g = CallGraph(P)
        _cg[id(P)] = g
    return g
