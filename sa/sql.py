"""SQL extraction and a small parser for the SQL subset erbium uses (fails closed on anything else)."""
import re
from .facts import callee_name
from .prov import strip, subterms, norm
from .util import terms

SQL_METHODS = ("execute", "query_row", "prepare", "prepare_cached", "execute_batch", "query_row_and_then")


class SqlError(Exception):
    pass


_tok = re.compile(r"\s*(?:(\?\d*)|([A-Za-z_][A-Za-z_0-9]*)|(\d+)|('(?:[^']|'')*')|(>=|<=|<>|!=|==|\|\||[(),=<>*.;+\-/]))")

KEYWORDS = {"FILTER", "SELECT", "FROM", "WHERE", "AND", "OR", "NOT", "ORDER", "BY", "GROUP", "LIMIT", "DESC", "ASC", "AS", "INSERT",
            "REPLACE", "INTO", "VALUES", "CREATE", "TABLE", "IF", "EXISTS", "PRIMARY", "ALTER", "ADD", "COLUMN",
            "CASE", "WHEN", "THEN", "ELSE", "END", "NULL", "TRUE", "FALSE", "UPDATE", "DELETE", "DROP", "SET", "IGNORE",
            "PRAGMA", "BEGIN", "COMMIT", "ROLLBACK", "HAVING", "OFFSET", "UNIQUE", "DEFAULT", "INDEX", "ON", "CONFLICT",
            "ABORT", "FAIL", "TRANSACTION", "IN", "IS", "LIKE", "BETWEEN", "DISTINCT", "JOIN", "UNION", "ALL"}


def tokenize(s):
    out = []
    pos = 0
    s = s.strip()
    while pos < len(s):
        m = _tok.match(s, pos)
        if not m:
            if s[pos:].strip() == "":
                break
            raise SqlError("cannot tokenize SQL at %r" % s[pos:pos + 20])
        pos = m.end()
        if m.group(1) is not None:
            out.append(("param", int(m.group(1)[1:]) if len(m.group(1)) > 1 else 0))
        elif m.group(2) is not None:
            w = m.group(2)
            if w.upper() in KEYWORDS:
                out.append(("kw", w.upper()))
            else:
                out.append(("id", w.lower()))
        elif m.group(3) is not None:
            out.append(("num", int(m.group(3))))
        elif m.group(4) is not None:
            out.append(("str", m.group(4)[1:-1]))
        else:
            out.append(("op", m.group(5)))
    return out


class _P:
    def __init__(self, toks):
        self.t = toks
        self.i = 0

    def peek(self, k=0):
        return self.t[self.i + k] if self.i + k < len(self.t) else ("eof", None)

    def next(self):
        x = self.peek()
        self.i += 1
        return x

    def accept(self, kind, val=None):
        x = self.peek()
        if x[0] == kind and (val is None or x[1] == val):
            self.i += 1
            return True
        return False

    def expect(self, kind, val=None):
        x = self.next()
        if x[0] != kind or (val is not None and x[1] != val):
            raise SqlError("expected %s %s, found %s" % (kind, val, x))
        return x

    def kw(self, *words):
        for k, w in enumerate(words):
            if self.peek(k) != ("kw", w):
                return False
        self.i += len(words)
        return True

    # expressions: returned as nested tuples
    def expr(self):
        return self.or_()

    def or_(self):
        l = self.and_()
        while self.kw("OR"):
            l = ("or", l, self.and_())
        return l

    def and_(self):
        l = self.not_()
        while self.kw("AND"):
            l = ("and", l, self.not_())
        return l

    def not_(self):
        if self.kw("NOT"):
            return ("not", self.not_())
        return self.cmp()

    def cmp(self):
        l = self.add()
        x = self.peek()
        if x[0] == "op" and x[1] in ("=", "==", ">=", "<=", "<>", "!=", ">", "<"):
            self.next()
            r = self.add()
            op = {"==": "=", "<>": "!="}.get(x[1], x[1])
            return ("cmp", op, l, r)
        if self.kw("IS"):
            neg = self.kw("NOT")
            r = self.add()
            return ("is", neg, l, r)
        if self.kw("BETWEEN"):
            lo = self.add()
            if not self.kw("AND"):
                raise SqlError("BETWEEN without AND")
            hi = self.add()
            return ("between", l, lo, hi)
        if self.kw("IN"):
            self.expect("op", "(")
            items = []
            while True:
                items.append(self.expr())
                if self.accept("op", ")"):
                    break
                self.expect("op", ",")
            return ("in", l, tuple(items))
        if self.kw("LIKE"):
            return ("like", l, self.add())
        return l

    def add(self):
        l = self.atom()
        while self.peek()[0] == "op" and self.peek()[1] in ("+", "-", "*", "/", "||"):
            op = self.next()[1]
            l = ("arith", op, l, self.atom())
        return l

    def atom(self):
        x = self.next()
        if x[0] == "param":
            return ("param", x[1])
        if x[0] == "num":
            return ("num", x[1])
        if x[0] == "str":
            return ("str", x[1])
        if x == ("kw", "NULL"):
            return ("null",)
        if x == ("kw", "TRUE"):
            return ("num", 1)
        if x == ("kw", "FALSE"):
            return ("num", 0)
        if x == ("op", "("):
            e = self.expr()
            self.expect("op", ")")
            return e
        if x == ("op", "*"):
            return ("star",)
        if x == ("kw", "CASE"):
            whens = []
            while self.kw("WHEN"):
                c = self.expr()
                if not self.kw("THEN"):
                    raise SqlError("CASE without THEN")
                whens.append((c, self.expr()))
            els = None
            if self.kw("ELSE"):
                els = self.expr()
            if not self.kw("END"):
                raise SqlError("CASE without END")
            return ("case", tuple(whens), els)
        if x[0] == "id":
            if self.accept("op", "("):
                args = []
                if self.kw("DISTINCT"):
                    raise SqlError("DISTINCT not supported")
                if not self.accept("op", ")"):
                    while True:
                        args.append(self.expr())
                        if self.accept("op", ")"):
                            break
                        self.expect("op", ",")
                if self.kw("FILTER"):
                    # aggregate FILTER (WHERE cond): the aggregate over the rows satisfying cond.  COUNT(*) FILTER (WHERE c) is
                    # rewritten to the equivalent COUNT(CASE WHEN c THEN 1 END), SUM(e) FILTER to SUM(CASE WHEN c THEN e ELSE 0 END)
                    self.expect("op", "(")
                    if not self.kw("WHERE"):
                        raise SqlError("FILTER without WHERE")
                    cond = self.expr()
                    self.expect("op", ")")
                    fn = x[1].lower()
                    if fn == "count" and len(args) == 1:
                        return ("func", x[1], (("case", ((cond, ("num", 1)),), None),))
                    if fn in ("sum", "total") and len(args) == 1:
                        return ("func", x[1], (("case", ((cond, args[0]),), ("num", 0)),))
                    raise SqlError("FILTER on %s not supported" % x[1])
                return ("func", x[1], tuple(args))
            if self.accept("op", "."):
                y = self.expect("id")
                return ("col", y[1])
            return ("col", x[1])
        raise SqlError("unexpected token %s in expression" % (x,))


def parse_batch(sql):
    """the statements of a `;`-separated batch (execute_batch), each parsed on its own"""
    toks = tokenize(sql)
    parts, cur = [], []
    for t in toks:
        if t == ("op", ";"):
            if cur:
                parts.append(cur)
            cur = []
        else:
            cur.append(t)
    if cur:
        parts.append(cur)
    out = []
    for part in parts:
        p = _P(part)
        st = _stmt(p)
        if p.peek()[0] != "eof":
            raise SqlError("trailing tokens after statement: %s" % (p.peek(),))
        st["text"] = " ".join(str(t[1]) for t in part)
        out.append(st)
    return out


def parse(sql):
    toks = tokenize(sql)
    if toks and toks[-1] == ("op", ";"):
        toks = toks[:-1]
    if any(t == ("op", ";") for t in toks):
        raise SqlError("multiple statements in one string")
    p = _P(toks)
    st = _stmt(p)
    if p.peek()[0] != "eof":
        raise SqlError("trailing tokens after statement: %s" % (p.peek(),))
    st["text"] = " ".join(sql.split())
    return st


def _stmt(p):
    if p.kw("SELECT"):
        items = []
        while True:
            e = p.expr()
            alias = None
            if p.kw("AS"):
                alias = p.expect("id")[1]
            items.append((e, alias))
            if not p.accept("op", ","):
                break
        table = None
        if p.kw("FROM"):
            table = p.expect("id")[1]
        where = None
        if p.kw("WHERE"):
            where = p.expr()
        group = []
        if p.kw("GROUP", "BY"):
            while True:
                group.append(p.expr())
                if not p.accept("op", ","):
                    break
        order = []
        if p.kw("ORDER", "BY"):
            while True:
                e = p.expr()
                d = "ASC"
                if p.kw("DESC"):
                    d = "DESC"
                elif p.kw("ASC"):
                    d = "ASC"
                order.append((e, d))
                if not p.accept("op", ","):
                    break
        limit = None
        offset = None
        if p.kw("LIMIT"):
            limit = p.expr()
            if p.kw("OFFSET") or p.accept("op", ","):
                offset = p.expr()
        return {"kind": "select", "items": items, "table": table, "where": where, "group": group, "order": order, "limit": limit, "offset": offset}
    if p.kw("INSERT") or p.peek() == ("kw", "REPLACE"):
        conflict = "ABORT"
        if p.kw("REPLACE"):
            conflict = "REPLACE"
        elif p.kw("OR"):
            x = p.next()
            if x[0] != "kw":
                raise SqlError("bad conflict clause")
            conflict = x[1]
        if not p.kw("INTO"):
            raise SqlError("INSERT without INTO")
        table = p.expect("id")[1]
        cols = []
        if p.accept("op", "("):
            while True:
                c = p.next()
                if c[0] not in ("id", "kw"):
                    raise SqlError("bad column list")
                cols.append(str(c[1]).lower())
                if p.accept("op", ")"):
                    break
                p.expect("op", ",")
        if not p.kw("VALUES"):
            raise SqlError("INSERT without VALUES")
        p.expect("op", "(")
        vals = []
        while True:
            vals.append(p.expr())
            if p.accept("op", ")"):
                break
            p.expect("op", ",")
        upsert = None
        if p.kw("ON", "CONFLICT"):
            target = []
            if p.accept("op", "("):
                while True:
                    c = p.next()
                    target.append(str(c[1]).lower())
                    if p.accept("op", ")"):
                        break
                    p.expect("op", ",")
            if not (p.peek() == ("id", "do")):
                raise SqlError("ON CONFLICT without DO")
            p.next()
            if p.peek() == ("id", "nothing"):
                p.next()
                upsert = {"target": target, "action": "nothing", "set": []}
                conflict = "IGNORE"
            elif p.kw("UPDATE"):
                if not p.kw("SET"):
                    raise SqlError("DO UPDATE without SET")
                sets = []
                while True:
                    c = p.next()
                    p.expect("op", "=")
                    e = p.expr()
                    sets.append((str(c[1]).lower(), e))
                    if not p.accept("op", ","):
                        break
                uw = None
                if p.kw("WHERE"):
                    uw = p.expr()
                upsert = {"target": target, "action": "update", "set": sets, "where": uw}
                conflict = "UPSERT"
            else:
                raise SqlError("unsupported ON CONFLICT action")
        return {"kind": "insert", "conflict": conflict, "table": table, "cols": cols, "values": vals, "upsert": upsert}
    if p.peek() == ("kw", "CREATE") and p.peek(1) in (("kw", "UNIQUE"), ("kw", "INDEX")):
        p.next()
        unique = False
        if p.peek()[1].upper() == "UNIQUE":
            unique = True
            p.next()
        if p.peek()[1].upper() != "INDEX":
            raise SqlError("unsupported CREATE statement")
        p.next()
        p.kw("IF", "NOT", "EXISTS")
        name = p.expect("id")[1]
        if p.peek()[1].upper() != "ON":
            raise SqlError("CREATE INDEX without ON")
        p.next()
        table = p.expect("id")[1]
        p.expect("op", "(")
        cols = []
        while True:
            x = p.next()
            if x[0] == "eof":
                raise SqlError("unterminated CREATE INDEX")
            if x == ("op", ")"):
                break
            if x[0] == "id":
                cols.append(x[1])
        return {"kind": "create_index", "unique": unique, "name": name, "table": table, "columns": cols}
    if p.kw("CREATE", "TABLE"):
        ine = p.kw("IF", "NOT", "EXISTS")
        table = p.expect("id")[1]
        if p.kw("AS"):
            # CREATE TABLE t AS SELECT ...: the new table has the selected columns and NO constraints (no primary key, no NOT NULL)
            sel = _stmt(p)
            if sel.get("kind") != "select":
                raise SqlError("CREATE TABLE AS without SELECT")
            names = [(al or (e[1] if e[0] == "col" else "?")) for e, al in sel["items"]]
            return {"kind": "create", "table": table, "if_not_exists": ine, "columns": [str(x).lower() for x in names], "primary_key": [],
                    "as_select": sel}
        p.expect("op", "(")
        cols = []
        pk = []
        depth = 0
        cur = []
        while True:
            x = p.next()
            if x[0] == "eof":
                raise SqlError("unterminated CREATE TABLE")
            if x == ("op", "("):
                depth += 1
            if x == ("op", ")"):
                if depth == 0:
                    if cur:
                        cols.append(cur)
                    break
                depth -= 1
            if x == ("op", ",") and depth == 0:
                cols.append(cur)
                cur = []
                continue
            cur.append(x)
        columns = []
        for c in cols:
            if c[0] == ("kw", "PRIMARY"):
                # PRIMARY KEY ( col, ... )
                inside = False
                for t in c:
                    if t == ("op", "("):
                        inside = True
                    elif t == ("op", ")"):
                        inside = False
                    elif inside and t[0] in ("id", "kw"):
                        pk.append(str(t[1]).lower())
            else:
                name = str(c[0][1]).lower()
                columns.append(name)
                if ("kw", "PRIMARY") in c:
                    pk = [name]
        return {"kind": "create", "table": table, "if_not_exists": ine, "columns": columns, "primary_key": pk}
    if p.kw("ALTER", "TABLE"):
        table = p.expect("id")[1]
        if p.kw("ADD"):
            p.kw("COLUMN")
            col = p.next()
            rest = []
            while p.peek()[0] != "eof":
                rest.append(p.next())
            return {"kind": "alter", "table": table, "action": "add_column", "column": str(col[1]).lower()}
        if p.peek()[0] in ("id", "kw") and str(p.peek()[1]).upper() == "RENAME":
            p.next()
            if p.peek()[0] in ("id", "kw") and str(p.peek()[1]).upper() == "TO":
                p.next()
                new = p.next()[1]
                return {"kind": "alter", "table": table, "action": "rename_table", "column": None, "new_name": str(new).lower()}
            while p.peek()[0] != "eof":
                p.next()
            return {"kind": "alter", "table": table, "action": "rename_column", "column": None}
        raise SqlError("unsupported ALTER TABLE action")
    x = p.peek()
    # explicit transaction control: SAVEPOINT n / RELEASE [SAVEPOINT] n / ROLLBACK [TRANSACTION] [TO [SAVEPOINT] n] / END
    if x[0] in ("id", "kw") and str(x[1]).upper() in ("SAVEPOINT", "RELEASE", "ROLLBACK", "END"):
        word = str(x[1]).upper()
        p.next()
        rest = []
        while p.peek()[0] != "eof":
            rest.append(str(p.next()[1]).upper())
        if word == "ROLLBACK" and "TO" in rest:
            # rolls the work back but leaves the savepoint (and the transaction it started) open
            return {"kind": "rollback_to", "table": None, "name": rest[-1].lower() if rest else None}
        kind = {"SAVEPOINT": "savepoint", "RELEASE": "release", "ROLLBACK": "rollback", "END": "commit"}[word]
        return {"kind": kind, "table": None, "name": rest[-1].lower() if rest and word in ("SAVEPOINT", "RELEASE") else None}
    if x[0] == "kw" and x[1] in ("UPDATE", "DELETE", "DROP", "PRAGMA", "BEGIN", "COMMIT"):
        kind = x[1].lower()
        p.next()
        table = None
        if kind == "update":
            table = p.expect("id")[1]
        elif kind == "delete":
            if p.kw("FROM"):
                table = p.expect("id")[1]
        elif kind == "drop":
            p.next()
            p.kw("IF", "EXISTS")
            table = p.next()[1]
        while p.peek()[0] != "eof":
            p.next()
        return {"kind": kind, "table": table}
    raise SqlError("unsupported SQL statement starting with %s" % (x,))


def conjuncts(e):
    if e is None:
        return []
    if e[0] == "and":
        return conjuncts(e[1]) + conjuncts(e[2])
    return [e]


def mentions_param(e, n):
    if isinstance(e, tuple):
        if e[:1] == ("param",) and e[1] == n:
            return True
        return any(mentions_param(x, n) for x in e[1:])
    return False


class SqlSite:
    def __init__(self, body, bb, term, method, sql, stmt, params, err):
        self.body = body
        self.bb = bb
        self.term = term
        self.method = method
        self.sql = sql
        self.stmt = stmt
        self.params = params  # list of stripped terms, 1-based via param(n)
        self.err = err

    def param(self, n):
        if self.params is None or n < 1 or n > len(self.params):
            return None
        return self.params[n - 1]


def sql_sites(P, bodies=None):
    """every call of a rusqlite::Connection SQL method with its SQL text, parse and bound parameter terms"""
    out = []
    for b in (bodies if bodies is not None else P.bodies.values()):
        for bb, t in b.calls():
            n = callee_name(t) or ""
            if "rusqlite::Connection" not in n:
                continue
            m = n.rsplit("::", 1)[1].split("<")[0]
            if m not in SQL_METHODS:
                continue
            T = terms(P, b)
            args = T.call_args(bb)
            sqlt = strip(args[1]) if len(args) > 1 else ("unknown", "")
            sql = sqlt[1] if sqlt[0] == "const" and isinstance(sqlt[1], str) else None
            params = None
            if len(args) > 2:
                pt = strip(args[2])
                if pt[0] == "agg" and pt[1] == "array":
                    params = [norm(v) for _, v in pt[3]]
                elif pt[0] == "const":
                    params = []
            stmt, err = None, None
            if sql is None:
                err = "SQL text is not a constant"
            else:
                try:
                    stmt = parse(sql)
                except SqlError as e:
                    err = str(e)
                    if m == "execute_batch" and err.startswith("multiple statements"):
                        # a batch: one site per statement, all at this call
                        try:
                            for st in parse_batch(sql):
                                out.append(SqlSite(b, bb, t, m, st["text"], st, [], None))
                            continue
                        except SqlError as e2:
                            err = str(e2)
            out.append(SqlSite(b, bb, t, m, sql, stmt, params, err))
    return out
