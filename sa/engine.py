"""Check runner: evaluates a property's rules over the facts, applies KNOWN_FINDINGS.txt,
writes evidence and violation artefacts, and sets the exit status."""
import hashlib
import importlib
import json
import os
import random
import sys
import time
import traceback

from . import extract
from . import inline
from .facts import Program, FactsError

VERIF = extract.VERIF
KNOWN = os.path.join(VERIF, "KNOWN_FINDINGS.txt")
EVID = os.environ.get("VERIF_EVIDENCE_DIR") or os.path.join(VERIF, "evidence")   # developer tools redirect it for runs against a scratch worktree

PROPS = ["C%02d" % i for i in range(1, 21)]


class Instance:
    __slots__ = ("rule", "key", "where", "verdict", "detail")

    def __init__(self, rule, key, where, verdict, detail):
        self.rule = rule
        self.key = key
        self.where = where
        self.verdict = verdict
        self.detail = detail

    def as_dict(self):
        return {"rule": self.rule, "key": self.key, "where": self.where, "verdict": self.verdict, "detail": self.detail}


_ACTIVE_INCLUDES = set()


class Ctx:
    """what a rule module sees"""

    def __init__(self, prop, program, tier, config="default"):
        self.prop = prop
        self.P = program
        self.tier = tier
        self.config = config
        self.instances = []
        self.functions = set()
        self.notes = []

    def _add(self, rule, key, where, verdict, detail):
        full = "%s.%s:%s" % (self.prop, rule, key)
        self.instances.append(Instance("%s.%s" % (self.prop, rule), full, where, verdict, detail))

    def ok(self, rule, key, where="", detail=""):
        self._add(rule, key, where, "ok", detail)

    def bad(self, rule, key, where="", detail=""):
        self._add(rule, key, where, "violation", detail)

    def check(self, cond, rule, key, where="", detail="", bad_detail=None):
        if cond:
            self.ok(rule, key, where, detail)
        else:
            self.bad(rule, key, where, bad_detail if bad_detail is not None else detail)
        return cond

    def floor(self, rule, what, count, minimum):
        """fail closed when a rule matched fewer instances than were confirmed by hand"""
        if count < minimum:
            self.bad(rule, "floor:%s" % what, "", "matched %d instance(s) of %s, expected at least %d: anchor missing or the code "
                     "moved out of the rule's sight; cannot decide" % (count, what, minimum))
        else:
            self.ok(rule, "floor:%s" % what, "", "%d >= %d" % (count, minimum))

    def include(self, other_prop, rules=None, why=""):
        """clauses this property shares with another one: run that property's rules here and report them under this property
        (rule `via-Cxx.Rn`).  Known findings of the other property stay the other property's."""
        import importlib
        if other_prop in _ACTIVE_INCLUDES or other_prop == self.prop:
            return            # already being evaluated further up: no rule is its own side condition
        mod = importlib.import_module("sa.rules." + other_prop.lower())
        sub = Ctx(other_prop, self.P, self.tier, self.config)
        sub.P_view = getattr(self, "P_view", self.P)
        _ACTIVE_INCLUDES.add(other_prop)
        added_self = self.prop not in _ACTIVE_INCLUDES
        _ACTIVE_INCLUDES.add(self.prop)
        try:
            mod.run(sub)
        except Exception as e:
            self.bad("via-%s" % other_prop, "exception", "", "included rules crashed: %s" % e)
            return
        finally:
            _ACTIVE_INCLUDES.discard(other_prop)
            if added_self:
                _ACTIVE_INCLUDES.discard(self.prop)
        findings, _ = load_known()
        for i in sub.instances:
            rn = i.rule.split(".", 1)[1]
            if rules is not None and rn not in rules:
                continue
            if i.verdict == "violation" and (other_prop, i.key.split("@")[0]) in findings:
                continue
            self._add("via-%s.%s" % (other_prop, rn), i.key.split(":", 1)[1], i.where, i.verdict, i.detail)
        self.functions |= sub.functions

    def saw(self, body):
        self.functions.add(body.id if hasattr(body, "id") else body)

    def where(self, body, span=None):
        sp = span or body.span
        return "%s (%s)" % (self.P.rel(sp), body.id)

    def anchor(self, suffix, rule="anchor"):
        """the unique body with this path suffix; missing => FactsError (reported as a violation by the runner)"""
        b = self.P.one(suffix)
        self.saw(b)
        return b


def load_known():
    findings = {}
    fixed = []
    if not os.path.exists(KNOWN):
        return findings, fixed
    with open(KNOWN) as f:
        for line in f:
            line = line.rstrip("\n")
            if line.startswith("finding:"):
                rest = line[len("finding:"):].strip()
                parts = rest.split(" ", 2)
                prop = parts[0].split("=", 1)[1]
                key = parts[1].split("=", 1)[1]
                text = parts[2] if len(parts) > 2 else ""
                findings[(prop, key)] = text
            elif line.startswith("fixed:"):
                fixed.append(line)
    return findings, fixed


def _log_arguments_are_inert(ctx):
    """L1, for every function a property's rules looked at: the arguments of a log macro are evaluated only when that level is
    enabled, so they must not change anything — `log::trace!("{:?}", candidates.by_ref().take(3))` consumes the candidates exactly
    when someone turns tracing on.  Between the level test and the call of the logger no named variable of the function is borrowed
    mutably."""
    from .cfg import cfg_of
    from .facts import callee_name
    P = ctx.P
    n = 0
    for fid in sorted(ctx.functions):
        b = P.bodies.get(fid)
        if b is None or "::test" in fid:
            continue
        gates = [bb for bb, tm in b.calls() if (callee_name(tm) or "") == "log::max_level"]
        if not gates:
            continue
        named = {tuple(v["place"])[0]: v["name"] for v in b.vars if "place" in v and len(v["place"]) == 1 and v.get("name") and not v["name"].startswith("__")}
        cfg = cfg_of(b)
        logs = [bb for bb, tm in b.calls() if (callee_name(tm) or "").startswith("log::__private_api::log")]
        for g in gates:
            n += 1
            after = cfg.reachable_from(g)
            mine = [l for l in logs if l in after and cfg.dominates(g, l)]
            if not mine:
                continue
            l0 = min(mine, key=lambda x: len(cfg.reachable_from(g, blocked=(x,))))
            region = {x for x in cfg.reachable_from(g, blocked=(l0,)) if cfg.dominates(g, x) and l0 in cfg.reachable_from(x)}
            hits = []
            for x in region:
                for st in b.blocks[x]["stmts"]:
                    rv = st.get("rv")
                    if rv and rv["k"] == "ref" and rv.get("bk") == "mut" and rv["place"][0] in named and "*" not in rv["place"]:
                        hits.append("&mut %s at %s" % (named[rv["place"][0]], P.rel(st["sp"])))
            ctx.check(not hits, "L1", "log-arguments-have-no-side-effects:%s@%s" % (fid.split("::{")[0].rsplit("::", 1)[-1], P.rel(b.blocks[g]["term"]["sp"]).split(":")[-1]),
                      ctx.where(b, b.blocks[g]["term"]["sp"]),
                      "a log macro's arguments borrow a variable mutably (%s): that only happens when the level is enabled, so behaviour "
                      "depends on the log level" % "; ".join(sorted(set(hits))[:3]))
    if n:
        ctx.ok("L1", "log sites examined in the functions this property's rules looked at", "", "%d" % n)


def run_property(prop, tier, seed, configs=None):
    t0 = time.time()
    mod = importlib.import_module("sa.rules.%s" % prop.lower())
    cfgs = ["default"]
    if tier == "thorough":
        cfgs += list(getattr(mod, "EXTRA_CONFIGS", []))
    all_inst = []
    functions = set()
    units = []
    facts_keys = {}
    infra = []
    notes = []
    for cfg in cfgs:
        try:
            fdir, key, fresh, secs = extract.facts_for(cfg)
            facts_keys[cfg] = key
            P = Program(fdir)
            for u in P.units:
                units.append("%s:%s:%s(%d bodies)" % (cfg, u["crate"], u["kind"], u["bodies"]))
        except Exception as e:  # extraction failed: an analysis that did not run must not look like a pass
            infra.append(Instance("%s.infrastructure" % prop, "%s.infrastructure:%s:extract" % (prop, cfg), "",
                                  "violation", "fact extraction failed: %s" % str(e)[-3000:]))
            continue
        # structural rules see the program with helper functions inlined (sa/inline.py); the obligation engine keys its sites by
        # where the code lives and works on the original bodies (ctx.P_view is the inlined view for its side conditions)
        try:
            Pv = inline.inlined_view(P)
        except Exception as e:
            infra.append(Instance("%s.infrastructure" % prop, "%s.infrastructure:%s:inline" % (prop, cfg), "",
                                  "violation", "inlining failed: %s\n%s" % (e, traceback.format_exc()[-2000:])))
            continue
        raw = getattr(mod, "USE_ORIGINAL_BODIES", False)
        ctx = Ctx(prop, P if raw else Pv, tier, cfg)
        ctx.P_view = Pv
        notes.append("%s: %d helper function(s) inlined into their callers before the rules ran" % (cfg, len(Pv.inline_log)))
        try:
            mod.run(ctx)
        except FactsError as e:
            ctx.bad("anchor", "missing:%s" % hashlib.sha1(str(e).encode()).hexdigest()[:8], "", str(e))
        except Exception as e:
            ctx.bad("infrastructure", "exception", "", "rule crashed: %s\n%s" % (e, traceback.format_exc()[-3000:]))
        try:
            _log_arguments_are_inert(ctx)
        except Exception as e:
            ctx.bad("infrastructure", "exception", "", "log-argument rule crashed: %s\n%s" % (e, traceback.format_exc()[-2000:]))
        for i in ctx.instances:
            if cfg != "default":
                i.key = i.key + "@" + cfg
            all_inst.append(i)
        functions |= ctx.functions
        notes += ctx.notes
    all_inst += infra
    findings, _fixed = load_known()
    viol = [i for i in all_inst if i.verdict == "violation"]
    known, new = [], []
    for v in viol:
        base_key = v.key.split("@")[0]
        if (prop, base_key) in findings:
            known.append((v, findings[(prop, base_key)]))
        else:
            new.append(v)
    # evidence
    os.makedirs(os.path.join(EVID, "violations"), exist_ok=True)
    rnd = random.Random(seed)
    oks = [i for i in all_inst if i.verdict == "ok" and not i.key.split(":")[1].startswith("floor")]
    sample = (rnd.sample(oks, min(8, len(oks))) if oks else []) + viol[:8]
    by_rule = {}
    for i in all_inst:
        r = by_rule.setdefault(i.rule, {"ok": 0, "violation": 0})
        r[i.verdict] += 1
    distinct = len({(i.rule, i.key) for i in all_inst if not i.key.split(":")[1].startswith("floor")})
    replay_paths = []
    for v in new:
        h = hashlib.sha1(v.key.encode()).hexdigest()[:12]
        path = os.path.join(EVID, "violations", "%s-%s.json" % (prop, h))
        with open(path, "w") as f:
            json.dump({"property": prop, "tier": tier, "instance": v.as_dict()}, f, indent=1)
        replay_paths.append((v, path))
    ev = {
        "property_id": prop,
        "tier": tier,
        "seed": seed,
        "level": "other",
        "coverage": {
            "explanation": getattr(mod, "EXPLANATION", "static rules over the type-checked program (built MIR) of /repo"),
            "evaluations": len(all_inst),
            "distinct_nontrivial": distinct,
            "rule": "one evaluation = one rule instance (a call site, SQL statement, aggregate field, dominance or "
                    "provenance obligation) decided on the facts extracted from /repo's working tree on this run; "
                    "distinct = distinct (rule, construct key) pairs excluding floor bookkeeping",
            "samples": [i.as_dict() for i in sample],
            "by_rule": by_rule,
            "functions_analysed": sorted(functions),
            "units": units,
            "facts_key": facts_keys,
            "configs": cfgs,
            "known_findings_reported": [v.key for v, _ in known],
            "exhaustive": False,
        },
        "assumptions": list(getattr(mod, "ASSUMPTIONS", [])) + notes,
        "wall_s": round(time.time() - t0, 3),
        "violations": len(new),
    }
    with open(os.path.join(EVID, "%s.json" % prop), "w") as f:
        json.dump(ev, f, indent=1)
    return all_inst, known, replay_paths, ev


def main(argv):
    import argparse
    ap = argparse.ArgumentParser()
    ap.add_argument("prop", nargs="?")
    ap.add_argument("--tier", default=os.environ.get("VERIF_TIER", "quick"))
    ap.add_argument("--replay")
    ap.add_argument("-v", action="store_true")
    a = ap.parse_args(argv)
    seed = int(os.environ.get("VERIF_SEED", "0") or 0)
    if a.replay:
        with open(a.replay) as f:
            art = json.load(f)
        prop = art["property"]
        want = art["instance"]["key"]
        insts, known, new, ev = run_property(prop, art.get("tier", "quick"), seed)
        hit = [i for i in insts if i.key == want]
        for i in hit:
            print("REPLAY %s verdict=%s where=%s\n  %s" % (i.key, i.verdict, i.where, i.detail))
        if not hit:
            print("REPLAY %s: instance no longer exists on this tree" % want)
        if any(i.verdict == "violation" for i in hit):
            print("VIOLATION property=%s replay=%s" % (prop, a.replay))
            return 1
        return 0
    prop = a.prop
    if prop not in PROPS:
        print("usage: check Cxx [--tier quick|thorough]")
        return 2
    tier = a.tier if a.tier in ("quick", "thorough") else "quick"
    insts, known, new, ev = run_property(prop, tier, seed)
    print("%s tier=%s: %d rule instances, %d ok, %d known finding(s), %d new violation(s), %d functions, %.1fs" % (
        prop, tier, len(insts), sum(1 for i in insts if i.verdict == "ok"), len(known), len(new),
        len(ev["coverage"]["functions_analysed"]), ev["wall_s"]))
    if a.v:
        for i in insts:
            print("  [%s] %s  %s  %s" % (i.verdict, i.key, i.where, i.detail[:200]))
    seen = set()
    for v, text in known:
        k = v.key.split("@")[0]
        if k in seen:
            continue
        seen.add(k)
        print("KNOWN-FINDING: property=%s %s [%s] at %s" % (prop, text, k, v.where))
    for v, path in new:
        print("  violation %s at %s: %s" % (v.key, v.where, v.detail))
        print("VIOLATION property=%s replay=%s" % (prop, path))
    return 1 if new else 0
