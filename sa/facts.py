"""Fact loading: the type-checked program of /repo as dumped by /verif/driver.

Everything the rules look at comes from here.  Body ids are crate-qualified
def paths ("erbium::dhcp::pool::Pool::allocate_address"); places are tuples
(local, proj, proj, ...) with string projections:
  "*" deref, ".name" field, "@Variant" downcast, "[_n]" index by local,
  "[k]"/"[-k]" constant index, "[a:b]" subslice.
Operands are dicts {"c": place} | {"m": place} | {"k": const}.
"""
import glob
import json
import os


class FactsError(Exception):
    pass


def _tup(p):
    return tuple(p)


class Body:
    __slots__ = ("id", "kind", "parent", "span", "generic", "arg_count", "locals", "vars",
                 "blocks", "crate", "unit_kind", "impl_self", "impl_trait", "_names", "_cfg",
                 "_defs", "file")

    def __init__(self, d, crate, unit_kind):
        self.id = d["id"]
        self.kind = d["kind"]
        self.parent = d.get("parent")
        self.span = d["span"]
        self.file = d["span"].split(":")[0]
        self.generic = d["generic"]
        self.arg_count = d["arg_count"]
        self.locals = d["locals"]
        self.vars = d["vars"]
        self.blocks = d["blocks"]
        self.crate = crate
        self.unit_kind = unit_kind
        self.impl_self = d.get("impl_self")
        self.impl_trait = d.get("impl_trait")
        self._names = None
        self._cfg = None
        self._defs = None
        # normalise places to tuples once
        for v in self.vars:
            if "place" in v:
                v["place"] = _tup(v["place"])
        for b in self.blocks:
            for s in b["stmts"]:
                s["p"] = _tup(s["p"])
                if "rv" in s:
                    _norm_rv(s["rv"])
            t = b["term"]
            if t is None:
                continue
            k = t["k"]
            if k == "call":
                t["dest"] = _tup(t["dest"])
                for a in t["args"]:
                    _norm_op(a)
                if t["callee"].get("ptr") is not None:
                    _norm_op(t["callee"]["ptr"])
            elif k == "switch":
                _norm_op(t["discr"])
                t["targets"] = [(int(v), bb) for v, bb in t["targets"]]
            elif k == "assert":
                _norm_op(t["cond"])
                for a in t["ops"]:
                    _norm_op(a)
            elif k == "drop":
                t["place"] = _tup(t["place"])
            elif k == "yield":
                _norm_op(t["value"])
                t["resume_arg"] = _tup(t["resume_arg"])

    # ---- names
    def local_name(self, l):
        if self._names is None:
            self._names = {}
            for v in self.vars:
                p = v.get("place")
                if p is not None and len(p) == 1:
                    self._names.setdefault(p[0], v["name"])
        return self._names.get(l)

    def var_places(self, name):
        return [v["place"] for v in self.vars if v["name"] == name and "place" in v]

    def local_ty(self, l):
        return self.locals[l]["ty"]

    def args(self):
        return list(range(1, self.arg_count + 1))

    def ret_ty(self):
        return self.locals[0]["ty"]

    # ---- iteration helpers
    # iteration skips cleanup (unwind-only) blocks: the rules talk about executions that do not unwind
    def terms(self, cleanup=False):
        for i, b in enumerate(self.blocks):
            if b["term"] is not None and (cleanup or not b.get("cleanup")):
                yield i, b["term"]

    def calls(self, cleanup=False):
        for i, b in enumerate(self.blocks):
            t = b["term"]
            if t is not None and t["k"] == "call" and (cleanup or not b.get("cleanup")):
                yield i, t

    def stmts(self, cleanup=False):
        for i, b in enumerate(self.blocks):
            if b.get("cleanup") and not cleanup:
                continue
            for j, s in enumerate(b["stmts"]):
                yield i, j, s

    def line_of(self, sp):
        try:
            return int(sp.split(":")[1])
        except Exception:
            return 0

    def __repr__(self):
        return "<Body %s>" % self.id


def _norm_op(o):
    if "c" in o:
        o["c"] = _tup(o["c"])
    elif "m" in o:
        o["m"] = _tup(o["m"])


def _norm_rv(rv):
    k = rv["k"]
    if k in ("use", "repeat", "cast"):
        _norm_op(rv["op"])
    elif k in ("ref", "rawptr", "discr"):
        rv["place"] = _tup(rv["place"])
    elif k == "bin":
        _norm_op(rv["a"])
        _norm_op(rv["b"])
    elif k == "un":
        _norm_op(rv["a"])
    elif k == "agg":
        for o in rv["ops"]:
            _norm_op(o)


def op_place(o):
    """place read by an operand, or None for constants"""
    if "c" in o:
        return o["c"]
    if "m" in o:
        return o["m"]
    return None


def op_const(o):
    return o.get("k")


def const_int(k):
    """integer value of a constant dict (ints, newtype bits, bools, chars), else None"""
    if k is None:
        return None
    if "int" in k:
        return int(k["int"])
    if "bits" in k:
        return int(k["bits"])
    if "bool" in k:
        return 1 if k["bool"] else 0
    if "char" in k:
        return int(k["char"])
    return None


def callee_name(t):
    """best identity of a call terminator's callee: resolved impl item if known, else declaration"""
    c = t["callee"]
    return c.get("resolved") or c.get("decl")


def callee_decl(t):
    return t["callee"].get("decl")


class Program:
    def __init__(self, facts_dir):
        self.dir = facts_dir
        self.bodies = {}
        self.adts = {}
        self.impls = []
        self.consts = {}
        self.sigs = {}
        self.units = []
        files = sorted(glob.glob(os.path.join(facts_dir, "*.json")))
        if not files:
            raise FactsError("no fact files in %s" % facts_dir)
        for f in files:
            with open(f) as fh:
                d = json.load(fh)
            crate = d["crate"]
            uk = d["unit_kind"]
            if d.get("stolen", 0):
                raise FactsError("fact file %s is incomplete: %d MIR bodies were already consumed by the compiler" % (f, d["stolen"]))
            self.units.append({"crate": crate, "kind": uk, "bodies": d["n_bodies"], "file": os.path.basename(f)})
            for k, v in d["adts"].items():
                self.adts[k] = v
            for im in d["impls"]:
                im["crate"] = crate
                self.impls.append(im)
            for k, v in d["consts"].items():
                self.consts[k] = v
            for k, v in d["sigs"].items():
                self.sigs.setdefault(k, v)
            for bd in d["bodies"]:
                b = Body(bd, crate, uk)
                if b.id in self.bodies:
                    # the same def path can only repeat across bin units (main); keep them apart
                    b.id = "%s[%s]" % (b.id, crate + ":" + uk)
                self.bodies[b.id] = b
        self._children = None
        self._callers = None

    # ---- lookup
    def body(self, id_):
        b = self.bodies.get(id_)
        if b is None:
            raise FactsError("anchor-missing: no body %s" % id_)
        return b

    def find(self, suffix):
        """bodies whose id equals suffix or ends with '::'+suffix"""
        return [b for i, b in self.bodies.items() if i == suffix or i.endswith("::" + suffix)]

    def one(self, suffix):
        r = self.find(suffix)
        if len(r) != 1:
            raise FactsError("anchor-missing: expected exactly one body matching %s, found %d" % (suffix, len(r)))
        return r[0]

    def children(self, body_id):
        """closure / coroutine bodies lexically nested in body_id (direct children)"""
        if self._children is None:
            self._children = {}
            for b in self.bodies.values():
                if b.parent:
                    self._children.setdefault(b.parent, []).append(b)
        return self._children.get(body_id, [])

    def family(self, body_id):
        """body plus all transitively nested closures/coroutines"""
        out = []
        todo = [self.bodies[body_id]] if body_id in self.bodies else []
        while todo:
            b = todo.pop()
            out.append(b)
            todo.extend(self.children(b.id))
        return out

    def const_value(self, path):
        k = self.consts.get(path)
        if k is None:
            return None
        return k

    def adt(self, path):
        return self.adts.get(path)

    def rel(self, span):
        """repo-relative 'file:line' of a span string"""
        parts = span.split(":")
        f = parts[0]
        for pre in ("/repo/", os.environ.get("ERBIUM_REPO", "/repo").rstrip("/") + "/"):
            if f.startswith(pre):
                f = f[len(pre):]
        return "%s:%s" % (f, parts[1] if len(parts) > 1 else "?")
