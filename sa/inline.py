"""MIR-level inlining of helper functions (on the fact model, before any rule runs).

Why: the structural rules talk about what a handler *does* — which statement it sends to SQLite, which comparison guards which
call, where a field's value comes from.  Extracting part of a function into a helper (the most common behaviour-preserving edit)
moves those facts into another body; without this pass every rule anchored in the original function loses sight of them and
fails closed.  With it, a call to a small, non-recursive, synchronous workspace function that no rule names is replaced by the
callee's blocks (locals and blocks renumbered, parameters bound by assignment, `return` turned into an assignment of the
destination and a jump to the call's continuation), so dominance, provenance and SQL-site rules see the same program shape
whether or not the code was extracted.

Barriers (never inlined): every function that existed on the reviewed tree (sa/spec/known_functions.py — rules may find those
by signature or by what they contain, and their names appear in rule-instance keys), a new function whose signature equals that
of a reviewed function that disappeared (a rename), functions whose name a rule or analyser mentions, async functions (a call only builds the future), recursive functions, closures, constants, trait-dispatched calls, and
anything above the size limits.  A helper whose every use was inlined is dropped from the inlined program (its closures are
re-parented to the first function it was inlined into) so that its statements are not seen twice.

The obligation engine (C05/C19) works on the original bodies, not on this view: its sites are keyed by where the code lives.
"""
import copy
import os
import re

from .facts import Body, callee_name

MAX_CALLEE_BLOCKS = 120
MAX_BODY_BLOCKS = 2500
MAX_ROUNDS = 4
DESUGAR_ADAPTORS = False

_BLOCK_KEYS = ("t", "unwind", "otherwise", "imag")


def barrier_names():
    """identifiers mentioned anywhere in the analysers or rules: a function of that name is an anchor"""
    here = os.path.dirname(os.path.abspath(__file__))
    words = set()
    for root, _, files in os.walk(here):
        for f in files:
            if f.endswith(".py") and f != "inline.py":
                with open(os.path.join(root, f)) as fh:
                    words.update(re.findall(r"[A-Za-z_][A-Za-z0-9_]*", fh.read()))
    return words


def _last_name(fid):
    seg = fid.split("::")[-1]
    return re.sub(r"<.*$", "", seg)


def _map_place(pl, lo):
    out = [pl[0] + lo]
    for e in pl[1:]:
        m = re.match(r"\[_(\d+)\]$", e) if isinstance(e, str) else None
        out.append("[_%d]" % (int(m.group(1)) + lo) if m else e)
    return tuple(out)


def _map_op(o, lo):
    if "c" in o:
        return {"c": _map_place(o["c"], lo)}
    if "m" in o:
        return {"m": _map_place(o["m"], lo)}
    return copy.deepcopy(o)


def _map_rv(rv, lo):
    rv = dict(rv)
    k = rv["k"]
    if k in ("use", "repeat", "cast"):
        rv["op"] = _map_op(rv["op"], lo)
    elif k in ("ref", "rawptr", "discr"):
        rv["place"] = _map_place(rv["place"], lo)
    elif k == "bin":
        rv["a"], rv["b"] = _map_op(rv["a"], lo), _map_op(rv["b"], lo)
    elif k == "un":
        rv["a"] = _map_op(rv["a"], lo)
    elif k == "agg":
        rv["ops"] = [_map_op(o, lo) for o in rv["ops"]]
    return rv


def _map_term(t, lo, bo):
    t = dict(t)
    k = t["k"]
    for key in _BLOCK_KEYS:
        if isinstance(t.get(key), int):
            t[key] = t[key] + bo
    if k == "call":
        t["dest"] = _map_place(t["dest"], lo)
        t["args"] = [_map_op(a, lo) for a in t["args"]]
        c = dict(t["callee"])
        if c.get("ptr") is not None:
            c["ptr"] = _map_op(c["ptr"], lo)
        t["callee"] = c
    elif k == "switch":
        t["discr"] = _map_op(t["discr"], lo)
        t["targets"] = [(v, b + bo) for v, b in t["targets"]]
    elif k == "assert":
        t["cond"] = _map_op(t["cond"], lo)
        t["ops"] = [_map_op(a, lo) for a in t["ops"]]
    elif k == "drop":
        t["place"] = _map_place(t["place"], lo)
    elif k == "yield":
        t["value"] = _map_op(t["value"], lo)
        t["resume_arg"] = _map_place(t["resume_arg"], lo)
    return t


def _clone_body(b):
    nb = Body.__new__(Body)
    for s in Body.__slots__:
        setattr(nb, s, getattr(b, s))
    nb.locals = list(b.locals)
    nb.vars = list(b.vars)
    nb.blocks = [{"stmts": list(blk["stmts"]), "term": blk["term"], **({"cleanup": True} if blk.get("cleanup") else {})} for blk in b.blocks]
    nb._names = None
    nb._cfg = None
    nb._defs = None
    return nb


def _splice(B, cb, F):
    """replace the call terminating block cb of B by the body of F"""
    t = B.blocks[cb]["term"]
    lo, bo = len(B.locals), len(B.blocks)
    B.locals.extend(F.locals)
    for v in F.vars:
        if "place" in v:
            nv = dict(v)
            nv["place"] = _map_place(v["place"], lo)
            nv.pop("arg", None)
            B.vars.append(nv)
    sp = t["sp"]
    pre = list(B.blocks[cb]["stmts"])
    for i, a in enumerate(t["args"]):
        pre.append({"p": (lo + 1 + i,), "rv": {"k": "use", "op": a}, "sp": sp, "inl": F.id})
    B.blocks[cb] = {"stmts": pre, "term": {"k": "goto", "t": bo}, **({"cleanup": True} if B.blocks[cb].get("cleanup") else {})}
    cont = t.get("t")
    for blk in F.blocks:
        stmts = []
        for s in blk["stmts"]:
            ns = dict(s)
            ns["p"] = _map_place(s["p"], lo)
            if "rv" in s:
                ns["rv"] = _map_rv(s["rv"], lo)
            stmts.append(ns)
        ft = blk["term"]
        if ft is None:
            nt = None
        elif ft["k"] == "return":
            stmts.append({"p": tuple(t["dest"]), "rv": {"k": "use", "op": {"m": (lo,)}}, "sp": sp, "inl": F.id})
            nt = {"k": "goto", "t": cont} if isinstance(cont, int) else {"k": "unreachable"}
        else:
            nt = _map_term(ft, lo, bo)
        nblk = {"stmts": stmts, "term": nt}
        if blk.get("cleanup"):
            nblk["cleanup"] = True
        B.blocks.append(nblk)


def _desugar_any_all(B, cb, C, which):
    """`dest = iter.any(closure)` (or `all`) with the closure built in this body becomes the loop it abbreviates:
         head:  opt = Iterator::next(&mut it);  match opt { None => { dest = !hit; goto cont }  Some(x) => body }
         body:  r = <closure body>(x);  if r == hit_value { dest = hit; goto cont } else goto head
    (hit_value = true for any, false for all), with the closure's blocks spliced in.  The rules then see the same loop, the same
    calls and the same exits whether the search is written as a `for` loop or as an adaptor call."""
    t = B.blocks[cb]["term"]
    sp = t["sp"]
    hit = (which == "any")
    lo = len(B.locals)
    gargs = t["callee"].get("gargs") or ["?"]
    item_ty = "?"
    # new locals: it, itref, opt, d, item, envref, res
    names = ["it", "itref", "opt", "d", "item", "envref", "res"]
    tys = [gargs[0], "&mut " + gargs[0], "std::option::Option<%s>" % item_ty, "isize", item_ty, "&mut " + (gargs[1] if len(gargs) > 1 else "?"), "bool"]
    for ty in tys:
        B.locals.append({"ty": ty, "mut": True})
    L = {n: lo + i for i, n in enumerate(names)}
    clo = t["args"][1]
    clo_place = clo.get("m") or clo.get("c")
    bo = len(B.blocks)
    HEAD, SW, NONE, BODY, TEST, YES = bo, bo + 1, bo + 2, bo + 3, bo + 4, bo + 5
    cont = t.get("t")
    cleanup = {"cleanup": True} if B.blocks[cb].get("cleanup") else {}
    B.blocks[cb] = {"stmts": list(B.blocks[cb]["stmts"]) + [{"p": (L["it"],), "rv": {"k": "use", "op": t["args"][0]}, "sp": sp}],
                    "term": {"k": "goto", "t": HEAD}, **cleanup}
    nxt = {"decl": "std::iter::Iterator::next", "gargs": [gargs[0]], "trait": "std::iter::Iterator",
           "resolved": "<%s as std::iter::Iterator>::next" % gargs[0], "local": False}
    B.blocks.append({"stmts": [{"p": (L["itref"],), "rv": {"k": "ref", "bk": "mut", "place": (L["it"],)}, "sp": sp}],
                     "term": {"k": "call", "callee": nxt, "args": [{"m": (L["itref"],)}], "dest": (L["opt"],), "t": SW, "unwind": None, "sp": sp, "exp": True}})
    B.blocks.append({"stmts": [{"p": (L["d"],), "rv": {"k": "discr", "place": (L["opt"],), "ty": "isize"}, "sp": sp}],
                     "term": {"k": "switch", "discr": {"m": (L["d"],)}, "targets": [(0, NONE)], "otherwise": BODY, "ty": "isize"}})
    fin = {"k": "goto", "t": cont} if isinstance(cont, int) else {"k": "unreachable"}
    B.blocks.append({"stmts": [{"p": tuple(t["dest"]), "rv": {"k": "use", "op": {"k": {"ty": "bool", "bool": (not hit)}}}, "sp": sp}], "term": dict(fin)})
    # BODY: bind the closure's parameters and jump into its (spliced) entry
    entry = bo + 6
    B.blocks.append({"stmts": [{"p": (L["item"],), "rv": {"k": "use", "op": {"m": (L["opt"], "@Some", ".0")}}, "sp": sp},
                               {"p": (L["envref"],), "rv": {"k": "ref", "bk": "mut", "place": tuple(clo_place)}, "sp": sp}],
                     "term": {"k": "goto", "t": entry}})
    B.blocks.append({"stmts": [], "term": {"k": "switch", "discr": {"m": (L["res"],)}, "targets": [(0, YES if not hit else HEAD)], "otherwise": (YES if hit else HEAD), "ty": "bool"}})
    B.blocks.append({"stmts": [{"p": tuple(t["dest"]), "rv": {"k": "use", "op": {"k": {"ty": "bool", "bool": hit}}}, "sp": sp}], "term": dict(fin)})
    # the closure body, as a callee with arguments (envref, item) and destination res, continuing at TEST
    fake = {"k": "call", "args": [{"m": (L["envref"],)}, {"m": (L["item"],)}], "dest": (L["res"],), "t": TEST, "sp": sp}
    stub = len(B.blocks)
    B.blocks.append({"stmts": [], "term": fake})
    assert stub == entry
    _splice(B, stub, C)


def inline_program(P):
    """returns {body id: inlined Body} for the bodies that changed, the set of helper ids that were inlined away, and a log"""
    barrier = barrier_names()
    bodies = P.bodies
    # exact call edges between workspace bodies
    calls = {}
    for fid, b in bodies.items():
        outs = set()
        for bb, t in b.calls(cleanup=True):
            n = callee_name(t)
            if n in bodies:
                outs.add(n)
        calls[fid] = outs

    def reaches_self(f):
        seen, todo = set(), list(calls.get(f, ()))
        while todo:
            x = todo.pop()
            if x == f:
                return True
            if x in seen:
                continue
            seen.add(x)
            todo.extend(calls.get(x, ()))
        return False

    try:
        from .spec.known_functions import KNOWN
    except ImportError:
        KNOWN = None
    vanished = {} if KNOWN is None else {sig for k, sig in KNOWN.items() if k not in bodies}

    def sig_of(f):
        sg = P.sigs.get(f) or {}
        return "(%s) -> %s" % (", ".join(sg.get("inputs") or []), sg.get("output"))

    def inlinable(f):
        b = bodies.get(f)
        if b is None or b.kind not in ("fn", "assoc_fn"):
            return False
        if _last_name(f) in barrier:
            return False
        if KNOWN is None or f in KNOWN:
            # a function of the reviewed tree is an anchor: rules may find it by signature or by what it contains
            return False
        if sig_of(f) in vanished:
            # a reviewed function with exactly this signature is gone: this is that function under a new name
            return False
        sig = P.sigs.get(f) or {}
        if sig.get("async") or "Future<" in (sig.get("output") or ""):
            return False
        if len(b.blocks) > MAX_CALLEE_BLOCKS:
            return False
        if any(t["k"] == "yield" for _, t in b.terms(cleanup=True)):
            return False
        return True

    cand = {f for f in bodies if inlinable(f)}
    cand = {f for f in cand if not reaches_self(f)}
    # other references that keep a helper alive: fn items used as values
    fn_values = set()
    for b in bodies.values():
        for blk in b.blocks:
            for s in blk["stmts"]:
                rv = s.get("rv")
                if rv and rv["k"] == "use" and rv["op"].get("k") and "fn" in rv["op"]["k"]:
                    fn_values.add(rv["op"]["k"]["fn"])
            t = blk["term"]
            if t and t["k"] == "call":
                for a in t["args"]:
                    if a.get("k") and "fn" in a["k"]:
                        fn_values.add(a["k"]["fn"])
    changed = {}
    inlined_into = {}
    log = []

    def get(fid):
        return changed.get(fid, bodies[fid])

    for _ in range(MAX_ROUNDS):
        progress = False
        for fid in list(bodies):
            B = get(fid)
            sites = [(bb, t) for bb, t in B.calls(cleanup=False) if callee_name(t) in cand and callee_name(t) != fid and t["callee"].get("ptr") is None]
            if not sites:
                continue
            if fid not in changed:
                B = _clone_body(B)
                changed[fid] = B
            for bb, t in sites:
                F = get(callee_name(t))
                if len(B.blocks) + len(F.blocks) > MAX_BODY_BLOCKS or len(t["args"]) != F.arg_count:
                    continue
                _splice(B, bb, F)
                inlined_into.setdefault(F.id, []).append(fid)
                progress = True
        if not progress:
            break
    # iterator adaptors whose closure is built in the same body: any / all.  Switched off: several rules recognise the adaptor
    # call itself (C08.R9, C15.R6) and the loop-form rules (C11.R2) would need path-sensitive constant flow to follow the
    # rewritten exits; with the pass on, the unchanged tree raised C08.R9.  Kept for a later round.
    for fid in (list(bodies) if DESUGAR_ADAPTORS else ()):
        B = get(fid)
        made = {}
        for bb, idx, st in B.stmts(cleanup=True):
            rv = st.get("rv")
            if rv and rv["k"] == "agg" and rv["akind"] == "closure" and len(st["p"]) == 1:
                made[st["p"][0]] = rv["def"]
        todo = []
        for bb, t in B.calls(cleanup=False):
            n = t["callee"].get("decl") or ""
            if n in ("std::iter::Iterator::any", "std::iter::Iterator::all") and len(t["args"]) == 2:
                pl = t["args"][1].get("m") or t["args"][1].get("c")
                if pl is not None and len(pl) == 1 and pl[0] in made and made[pl[0]] in bodies:
                    C = get(made[pl[0]])
                    if C.arg_count == 2 and len(C.blocks) <= MAX_CALLEE_BLOCKS and not any(x["k"] == "yield" for _, x in C.terms(cleanup=True)):
                        todo.append((bb, C, n.rsplit("::", 1)[-1]))
        if not todo:
            continue
        if fid not in changed:
            B = _clone_body(B)
            changed[fid] = B
        for bb, C, which in todo:
            _desugar_any_all(B, bb, C, which)
            log.append("%s: %s(closure) rewritten as the loop it abbreviates" % (fid, which))
    # helpers with no remaining use
    still_called = set()
    for fid in bodies:
        for bb, t in get(fid).calls(cleanup=True):
            n = callee_name(t)
            if n in inlined_into:
                still_called.add(n)
    dropped = {f for f in inlined_into if f not in still_called and f not in fn_values}
    for f, into in sorted(inlined_into.items()):
        log.append("%s -> %s%s" % (f, ", ".join(sorted(set(into))[:4]), " (dropped)" if f in dropped else ""))
    return changed, dropped, inlined_into, log


def inlined_view(P):
    """a Program-like copy of P in which helper calls are inlined (see module doc); P itself is left untouched"""
    changed, dropped, inlined_into, log = inline_program(P)
    Q = copy.copy(P)
    Q.bodies = {i: changed.get(i, b) for i, b in P.bodies.items() if i not in dropped}
    # closures of a dropped helper now belong to the first function the helper went into
    for i, b in list(Q.bodies.items()):
        if b.parent in dropped:
            nb = _clone_body(b)
            par = b.parent
            hops = 0
            while par in dropped and hops < 6:
                par = sorted(set(inlined_into[par]))[0]
                hops += 1
            nb.parent = par
            Q.bodies[i] = nb
    Q._children = None
    Q._callers = None
    Q.raw = P
    Q.inline_log = log
    return Q
