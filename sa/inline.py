"""MIR-level inlining of helper functions (on the fact model, before any rule runs).

Why: the structural rules talk about what a handler *does* — which statement it sends to SQLite, which comparison guards which
call, where a field's value comes from.  Extracting part of a function into a helper (the most common behaviour-preserving edit)
moves those facts into another body; without this pass every rule anchored in the original function loses sight of them and
fails closed.  With it, a call to a small, non-recursive, synchronous workspace function that no rule names is replaced by the
callee's blocks (locals and blocks renumbered, parameters bound by assignment, `return` turned into an assignment of the
destination and a jump to the call's continuation), so dominance, provenance and SQL-site rules see the same program shape
whether or not the code was extracted.

Barriers (never inlined): every function that existed on the reviewed tree (sa/spec/known_functions.py — rules may find those
by signature or by what they contain, and their names appear in rule-instance keys), a new function whose signature equals that
of a reviewed function that disappeared (a rename), functions whose name a rule or analyser mentions, async functions (a call only builds the future), recursive functions, closures, constants, trait-dispatched calls, and
anything above the size limits.  A helper whose every use was inlined is dropped from the inlined program (its closures are
re-parented to the first function it was inlined into) so that its statements are not seen twice.

The obligation engine (C05/C19) works on the original bodies, not on this view: its sites are keyed by where the code lives.
"""
import copy
from .cfg import succs_of_term
import os
import re

from .facts import Body, callee_name

MAX_CALLEE_BLOCKS = 120
MAX_BODY_BLOCKS = 2500
MAX_ROUNDS = 4
DESUGAR_ADAPTORS = not os.environ.get("SA_NO_DESUGAR")

_BLOCK_KEYS = ("t", "unwind", "otherwise", "imag")


def barrier_names():
    """identifiers mentioned in string literals anywhere in the analysers or rules (that is how a rule names a function of the
    analysed program): a function of that name is an anchor.  Identifiers of the analysers' own code (`def lease_bounds`) are not."""
    import io
    import tokenize
    here = os.path.dirname(os.path.abspath(__file__))
    words = set()
    for root, _, files in os.walk(here):
        for f in files:
            if f.endswith(".py") and f != "inline.py":
                with open(os.path.join(root, f)) as fh:
                    src = fh.read()
                try:
                    for tok in tokenize.generate_tokens(io.StringIO(src).readline):
                        if tok.type == tokenize.STRING or tok.type == getattr(tokenize, "FSTRING_MIDDLE", -1):
                            words.update(re.findall(r"[A-Za-z_][A-Za-z0-9_]*", tok.string))
                except (tokenize.TokenError, IndentationError, SyntaxError):
                    words.update(re.findall(r"[A-Za-z_][A-Za-z0-9_]*", src))
    return words


def _last_name(fid):
    seg = fid.split("::")[-1]
    return re.sub(r"<.*$", "", seg)


def _map_place(pl, lo):
    out = [pl[0] + lo]
    for e in pl[1:]:
        m = re.match(r"\[_(\d+)\]$", e) if isinstance(e, str) else None
        out.append("[_%d]" % (int(m.group(1)) + lo) if m else e)
    return tuple(out)


def _map_op(o, lo):
    if "c" in o:
        return {"c": _map_place(o["c"], lo)}
    if "m" in o:
        return {"m": _map_place(o["m"], lo)}
    return copy.deepcopy(o)


def _map_rv(rv, lo):
    rv = dict(rv)
    k = rv["k"]
    if k in ("use", "repeat", "cast"):
        rv["op"] = _map_op(rv["op"], lo)
    elif k in ("ref", "rawptr", "discr"):
        rv["place"] = _map_place(rv["place"], lo)
    elif k == "bin":
        rv["a"], rv["b"] = _map_op(rv["a"], lo), _map_op(rv["b"], lo)
    elif k == "un":
        rv["a"] = _map_op(rv["a"], lo)
    elif k == "agg":
        rv["ops"] = [_map_op(o, lo) for o in rv["ops"]]
    return rv


def _map_term(t, lo, bo):
    t = dict(t)
    k = t["k"]
    for key in _BLOCK_KEYS:
        if isinstance(t.get(key), int):
            t[key] = t[key] + bo
    if k == "call":
        t["dest"] = _map_place(t["dest"], lo)
        t["args"] = [_map_op(a, lo) for a in t["args"]]
        c = dict(t["callee"])
        if c.get("ptr") is not None:
            c["ptr"] = _map_op(c["ptr"], lo)
        t["callee"] = c
    elif k == "switch":
        t["discr"] = _map_op(t["discr"], lo)
        t["targets"] = [(v, b + bo) for v, b in t["targets"]]
    elif k == "assert":
        t["cond"] = _map_op(t["cond"], lo)
        t["ops"] = [_map_op(a, lo) for a in t["ops"]]
    elif k == "drop":
        t["place"] = _map_place(t["place"], lo)
    elif k == "yield":
        t["value"] = _map_op(t["value"], lo)
        t["resume_arg"] = _map_place(t["resume_arg"], lo)
    return t


def _clone_body(b):
    nb = Body.__new__(Body)
    for s in Body.__slots__:
        setattr(nb, s, getattr(b, s))
    nb.locals = list(b.locals)
    nb.vars = list(b.vars)
    nb.blocks = [{"stmts": list(blk["stmts"]), "term": blk["term"], **({"cleanup": True} if blk.get("cleanup") else {})} for blk in b.blocks]
    nb._names = None
    nb._cfg = None
    nb._defs = None
    return nb


def _splice(B, cb, F):
    """replace the call terminating block cb of B by the body of F"""
    t = B.blocks[cb]["term"]
    lo, bo = len(B.locals), len(B.blocks)
    B.locals.extend(F.locals)
    for v in F.vars:
        if "place" in v:
            nv = dict(v)
            nv["place"] = _map_place(v["place"], lo)
            nv.pop("arg", None)
            B.vars.append(nv)
    sp = t["sp"]
    pre = list(B.blocks[cb]["stmts"])
    for i, a in enumerate(t["args"]):
        pre.append({"p": (lo + 1 + i,), "rv": {"k": "use", "op": a}, "sp": sp, "inl": F.id})
    B.blocks[cb] = {"stmts": pre, "term": {"k": "goto", "t": bo}, **({"cleanup": True} if B.blocks[cb].get("cleanup") else {})}
    cont = t.get("t")
    for blk in F.blocks:
        stmts = []
        for s in blk["stmts"]:
            ns = dict(s)
            ns["p"] = _map_place(s["p"], lo)
            if "rv" in s:
                ns["rv"] = _map_rv(s["rv"], lo)
            stmts.append(ns)
        ft = blk["term"]
        if ft is None:
            nt = None
        elif ft["k"] == "return":
            stmts.append({"p": tuple(t["dest"]), "rv": {"k": "use", "op": {"m": (lo,)}}, "sp": sp, "inl": F.id})
            nt = {"k": "goto", "t": cont} if isinstance(cont, int) else {"k": "unreachable"}
        else:
            nt = _map_term(ft, lo, bo)
        nblk = {"stmts": stmts, "term": nt}
        if blk.get("cleanup"):
            nblk["cleanup"] = True
        B.blocks.append(nblk)


def _desugar_any_all(B, cb, C, which):
    """`dest = iter.any(closure)` (or `all`) with the closure built in this body becomes the loop it abbreviates:
         head:  opt = Iterator::next(&mut it);  match opt { None => { dest = !hit; goto cont }  Some(x) => body }
         body:  r = <closure body>(x);  if r == hit_value { dest = hit; goto cont } else goto head
    (hit_value = true for any, false for all), with the closure's blocks spliced in.  The rules then see the same loop, the same
    calls and the same exits whether the search is written as a `for` loop or as an adaptor call."""
    t = B.blocks[cb]["term"]
    sp = t["sp"]
    hit = (which == "any")
    lo = len(B.locals)
    gargs = t["callee"].get("gargs") or ["?"]
    item_ty = "?"
    # new locals: it, itref, opt, d, item, envref, res
    names = ["it", "itref", "opt", "d", "item", "envref", "res"]
    tys = [gargs[0], "&mut " + gargs[0], "std::option::Option<%s>" % item_ty, "isize", item_ty, "&mut " + (gargs[1] if len(gargs) > 1 else "?"), "bool"]
    for ty in tys:
        B.locals.append({"ty": ty, "mut": True})
    L = {n: lo + i for i, n in enumerate(names)}
    clo = t["args"][1]
    clo_place = clo.get("m") or clo.get("c")
    bo = len(B.blocks)
    HEAD, SW, NONE, BODY, TEST, YES = bo, bo + 1, bo + 2, bo + 3, bo + 4, bo + 5
    cont = t.get("t")
    cleanup = {"cleanup": True} if B.blocks[cb].get("cleanup") else {}
    B.blocks[cb] = {"stmts": list(B.blocks[cb]["stmts"]) + [{"p": (L["it"],), "rv": {"k": "use", "op": t["args"][0]}, "sp": sp}],
                    "term": {"k": "goto", "t": HEAD}, **cleanup}
    nxt = {"decl": "std::iter::Iterator::next", "gargs": [gargs[0]], "trait": "std::iter::Iterator",
           "resolved": "<%s as std::iter::Iterator>::next" % gargs[0], "local": False}
    B.blocks.append({"stmts": [{"p": (L["itref"],), "rv": {"k": "ref", "bk": "mut", "place": (L["it"],)}, "sp": sp}],
                     "term": {"k": "call", "callee": nxt, "args": [{"m": (L["itref"],)}], "dest": (L["opt"],), "t": SW, "unwind": None, "sp": sp, "exp": True}})
    B.blocks.append({"stmts": [{"p": (L["d"],), "rv": {"k": "discr", "place": (L["opt"],), "ty": "isize"}, "sp": sp}],
                     "term": {"k": "switch", "discr": {"m": (L["d"],)}, "targets": [(0, NONE)], "otherwise": BODY, "ty": "isize"}})
    fin = {"k": "goto", "t": cont} if isinstance(cont, int) else {"k": "unreachable"}
    B.blocks.append({"stmts": [{"p": tuple(t["dest"]), "rv": {"k": "use", "op": {"k": {"ty": "bool", "bool": (not hit)}}}, "sp": sp}], "term": dict(fin)})
    # BODY: bind the closure's parameters and jump into its (spliced) entry
    entry = bo + 6
    B.blocks.append({"stmts": [{"p": (L["item"],), "rv": {"k": "use", "op": {"m": (L["opt"], "@Some", ".0")}}, "sp": sp},
                               {"p": (L["envref"],), "rv": {"k": "ref", "bk": "mut", "place": tuple(clo_place)}, "sp": sp}],
                     "term": {"k": "goto", "t": entry}})
    B.blocks.append({"stmts": [], "term": {"k": "switch", "discr": {"m": (L["res"],)}, "targets": [(0, YES if not hit else HEAD)], "otherwise": (YES if hit else HEAD), "ty": "bool"}})
    B.blocks.append({"stmts": [{"p": tuple(t["dest"]), "rv": {"k": "use", "op": {"k": {"ty": "bool", "bool": hit}}}, "sp": sp}], "term": dict(fin)})
    # the closure body, as a callee with arguments (envref, item) and destination res, continuing at TEST
    fake = {"k": "call", "args": [{"m": (L["envref"],)}, {"m": (L["item"],)}], "dest": (L["res"],), "t": TEST, "sp": sp}
    stub = len(B.blocks)
    B.blocks.append({"stmts": [], "term": fake})
    assert stub == entry
    _splice(B, stub, C)


def _desugar_last(B, cb):
    """`dest = it.last()` becomes the loop it abbreviates:
         r = None;  head: opt = Iterator::next(&mut it);  match opt { None => { dest = r; goto cont }  Some(x) => { r = Some(x); goto head } }
    so that a search written as `iter.filter(test).last()` reads like the `for` loop that keeps the last item passing the test."""
    t = B.blocks[cb]["term"]
    gargs = t["callee"].get("gargs") or []
    if len(gargs) != 1 or len(t["args"]) != 1 or len(t["dest"]) != 1 or not isinstance(t.get("t"), int):
        return 0
    sp = t["sp"]
    oty = B.locals[t["dest"][0]].get("ty", "std::option::Option<?>")
    lo = len(B.locals)
    names = ["it", "itref", "opt", "d", "r"]
    tys = [gargs[0], "&mut " + gargs[0], oty, "isize", oty]
    for ty in tys:
        B.locals.append({"ty": ty, "mut": True})
    L = {n: lo + i for i, n in enumerate(names)}
    bo = len(B.blocks)
    HEAD, SW, DONE, BODY = bo, bo + 1, bo + 2, bo + 3
    cleanup = {"cleanup": True} if B.blocks[cb].get("cleanup") else {}
    none = {"k": "agg", "akind": "adt", "adt": "std::option::Option", "variant": "None", "vidx": 0, "fields": [], "ops": [], "ty": oty}
    B.blocks[cb] = {"stmts": list(B.blocks[cb]["stmts"]) + [{"p": (L["it"],), "rv": {"k": "use", "op": t["args"][0]}, "sp": sp},
                                                          {"p": (L["r"],), "rv": none, "sp": sp}],
                    "term": {"k": "goto", "t": HEAD}, **cleanup}
    nxt = {"decl": "std::iter::Iterator::next", "gargs": [gargs[0]], "trait": "std::iter::Iterator",
           "resolved": "<%s as std::iter::Iterator>::next" % re.sub(r"<.*$", "<I, P>", gargs[0]), "local": False}
    B.blocks.append({"stmts": [{"p": (L["itref"],), "rv": {"k": "ref", "bk": "mut", "place": (L["it"],)}, "sp": sp}],
                     "term": {"k": "call", "callee": nxt, "args": [{"m": (L["itref"],)}], "dest": (L["opt"],), "t": SW, "unwind": None, "sp": sp, "exp": True}})
    B.blocks.append({"stmts": [{"p": (L["d"],), "rv": {"k": "discr", "place": (L["opt"],), "ty": "isize"}, "sp": sp}],
                     "term": {"k": "switch", "discr": {"m": (L["d"],)}, "targets": [(0, DONE)], "otherwise": BODY, "ty": "isize"}})
    B.blocks.append({"stmts": [{"p": tuple(t["dest"]), "rv": {"k": "use", "op": {"m": (L["r"],)}}, "sp": sp}], "term": {"k": "goto", "t": t["t"]}})
    some = {"k": "agg", "akind": "adt", "adt": "std::option::Option", "variant": "Some", "vidx": 1, "fields": ["0"],
            "ops": [{"m": (L["opt"], "@Some", ".0")}], "ty": oty}
    B.blocks.append({"stmts": [{"p": (L["r"],), "rv": some, "sp": sp}], "term": {"k": "goto", "t": HEAD}})
    B._names = None
    B._cfg = None
    B._defs = None
    return 1


def _desugar_filter(B, fb, C, log=None):
    """`for x in it.filter(pred) { body }` with the closure built in this body becomes `for x in it { if pred(&x) { body } }`:
    the filter call hands the inner iterator on, every `next()` on the filtered iterator becomes `next()` on the inner one followed
    by the predicate's blocks, and a rejected item goes back to the loop's head like `continue`.  Returns the number of next() calls
    rewritten (0: nothing was changed)."""
    t = B.blocks[fb]["term"]
    gargs = t["callee"].get("gargs") or []
    if len(gargs) != 2 or len(t["args"]) != 2 or len(t["dest"]) != 1 or not isinstance(t.get("t"), int):
        return 0
    fty = "std::iter::Filter<%s, %s>" % (gargs[0], gargs[1])
    nexts = [bb for bb, x in enumerate(B.blocks) if x["term"] is not None and x["term"]["k"] == "call" and not x.get("cleanup") and
             (x["term"]["callee"].get("decl") or "") == "std::iter::Iterator::next" and (x["term"]["callee"].get("gargs") or [None])[0] == fty and
             isinstance(x["term"].get("t"), int) and len(x["term"]["dest"]) == 1]
    if not nexts:
        return 0
    sp = t["sp"]
    clo = t["args"][1].get("m") or t["args"][1].get("c")
    keep = len(B.locals)
    B.locals.append({"ty": gargs[1], "mut": True})
    # loop heads, to send a rejected item back to (computed before the rewrite)
    from .cfg import CFG
    cfg0 = CFG(B)
    heads = {}
    for nb in nexts:
        h = nb
        loops = [l for l in (cfg0.natural_loop(e) for e in cfg0.back_edges()) if nb in l]
        if loops:
            inner = min(loops, key=len)
            hs = [e[1] for e in cfg0.back_edges() if cfg0.natural_loop(e) == inner]
            if hs:
                x, okp = hs[0], True
                for _ in range(6):          # the head must lead straight to the next() call
                    if x == nb:
                        break
                    sx = cfg0.succ[x]
                    if len(sx) != 1:
                        okp = False
                        break
                    x = sx[0]
                if okp and x == nb:
                    h = hs[0]
        heads[nb] = h
    B.blocks[fb] = {"stmts": list(B.blocks[fb]["stmts"]) + [{"p": (keep,), "rv": {"k": "use", "op": t["args"][1]}, "sp": sp},
                                                          {"p": tuple(t["dest"]), "rv": {"k": "use", "op": t["args"][0]}, "sp": sp}],
                    "term": {"k": "goto", "t": t["t"]}, **({"cleanup": True} if B.blocks[fb].get("cleanup") else {})}
    nxt = {"decl": "std::iter::Iterator::next", "gargs": [gargs[0]], "trait": "std::iter::Iterator",
           "resolved": "<%s as std::iter::Iterator>::next" % re.sub(r"<.*$", "<'a, T>", gargs[0]), "local": False}
    for nb in nexts:
        nt = dict(B.blocks[nb]["term"])
        opt = nt["dest"][0]
        T0 = nt["t"]
        lo = len(B.locals)
        for ty in ("isize", "&?", "&mut " + gargs[1], "bool"):
            B.locals.append({"ty": ty, "mut": True})
        D, ITEMREF, ENVREF, RES = lo, lo + 1, lo + 2, lo + 3
        bo = len(B.blocks)
        SW, BODY, TEST, STUB = bo, bo + 1, bo + 2, bo + 3
        nt["callee"] = nxt
        nt["t"] = SW
        B.blocks[nb] = {"stmts": B.blocks[nb]["stmts"], "term": nt}
        # where the consumer goes with None and with Some: when what follows the next() is the consumer's own `match` on the item,
        # each outcome is sent straight to its arm (the consumer's test repeated after ours would join the two again)
        T_none = T_some = T0
        b0 = B.blocks[T0]
        t0 = b0["term"]
        if t0 is not None and t0["k"] == "switch" and len(b0["stmts"]) == 1 and (b0["stmts"][0].get("rv") or {}).get("k") == "discr" and \
                tuple(b0["stmts"][0]["rv"]["place"]) == (opt,) and (t0["discr"].get("m") or t0["discr"].get("c")) == tuple(b0["stmts"][0]["p"]) and \
                not b0.get("cleanup"):
            tn = [tg for v, tg in t0["targets"] if v == 0]
            ts = [tg for v, tg in t0["targets"] if v == 1] or [t0["otherwise"]]
            if tn and isinstance(ts[0], int):
                T_none = len(B.blocks) + 4
                T_some = len(B.blocks) + 5
        B.blocks.append({"stmts": [{"p": (D,), "rv": {"k": "discr", "place": (opt,), "ty": "isize"}, "sp": sp}],
                         "term": {"k": "switch", "discr": {"m": (D,)}, "targets": [(0, T_none)], "otherwise": BODY, "ty": "isize"}})
        B.blocks.append({"stmts": [{"p": (ITEMREF,), "rv": {"k": "ref", "bk": "shared", "place": (opt, "@Some", ".0")}, "sp": sp},
                                   {"p": (ENVREF,), "rv": {"k": "ref", "bk": "mut", "place": (keep,)}, "sp": sp}],
                         "term": {"k": "goto", "t": STUB}})
        B.blocks.append({"stmts": [], "term": {"k": "switch", "discr": {"m": (RES,)}, "targets": [(0, heads[nb])], "otherwise": T_some, "ty": "bool"}})
        B.blocks.append({"stmts": [], "term": {"k": "call", "args": [{"m": (ENVREF,)}, {"m": (ITEMREF,)}], "dest": (RES,), "t": TEST, "sp": sp}})
        if T_none != T0:
            assert len(B.blocks) == T_none
            B.blocks.append({"stmts": [dict(b0["stmts"][0])], "term": {"k": "goto", "t": tn[0]}})
            B.blocks.append({"stmts": [dict(b0["stmts"][0])], "term": {"k": "goto", "t": ts[0]}})
        _splice(B, STUB, C)
    blank_unreachable(B)       # the consumer's own test, when both outcomes were sent past it
    B._names = None
    B._cfg = None
    B._defs = None
    return len(nexts)


def _succs(t):
    if t is None:
        return []
    out = []
    for key in ("t", "otherwise", "imag"):
        if isinstance(t.get(key), int):
            out.append(t[key])
    if t["k"] == "switch":
        out.extend(b for _, b in t["targets"])
    return out


def _inline_await(B, cb, F, C):
    """`F(args).await` with F a new async fn: the awaited coroutine's body is spliced in where it is polled.
       at the call:   co = coroutine<C>[args];  fut = co
       at the poll:   C._1 = co; C._2 = task context; <blocks of C>; on return: poll_result = Poll::Ready(ret); continue at the
                      switch that follows the poll.  C's own suspension points stay suspension points of B."""
    t = B.blocks[cb]["term"]
    # the poll of this future: first call resolved to C reachable from the call's continuation
    seen, todo, pb = set(), [t.get("t")], None
    while todo:
        x = todo.pop(0)
        if not isinstance(x, int) or x in seen or len(seen) > 40:
            continue
        seen.add(x)
        tx = B.blocks[x]["term"]
        if tx and tx["k"] == "call" and callee_name(tx) == C.id:
            pb = x
            break
        if tx and tx["k"] == "call" and callee_name(tx) == F.id:
            continue
        todo.extend(_succs(tx))
    if pb is None:
        return False
    pt = B.blocks[pb]["term"]
    sp = t["sp"]
    lo = len(B.locals)
    B.locals.append({"ty": C.locals[1]["ty"], "mut": True})      # co
    B.locals.append({"ty": C.locals[0]["ty"], "mut": True})      # ret
    co, ret = lo, lo + 1
    agg = {"k": "agg", "akind": "coroutine", "def": C.id, "ops": list(t["args"]), "adt": None, "variant": None, "fields": []}
    B.blocks[cb] = {"stmts": list(B.blocks[cb]["stmts"]) + [{"p": (co,), "rv": agg, "sp": sp, "inl": F.id},
                                                            {"p": tuple(t["dest"]), "rv": {"k": "use", "op": {"c": (co,)}}, "sp": sp, "inl": F.id}],
                    "term": {"k": "goto", "t": t.get("t")} if isinstance(t.get("t"), int) else {"k": "unreachable"},
                    **({"cleanup": True} if B.blocks[cb].get("cleanup") else {})}
    R = len(B.blocks)
    ready = {"k": "agg", "akind": "adt", "adt": "std::task::Poll", "variant": "Ready", "fields": ["0"], "ops": [{"m": (ret,)}], "def": None}
    after = pt.get("t")
    if isinstance(after, int):
        st = B.blocks[after]["term"]
        if st and st["k"] == "switch":
            z = [b2 for v, b2 in st["targets"] if v == 0]
            if z:
                # the result is Poll::Ready (variant 0): continue on that edge, the Pending edge (suspend and poll again) is gone
                B.blocks.append({"stmts": list(B.blocks[after]["stmts"]), "term": {"k": "goto", "t": z[0]}})
                after = len(B.blocks) - 1
                R += 1
    B.blocks.append({"stmts": [{"p": tuple(pt["dest"]), "rv": ready, "sp": sp, "inl": F.id}],
                     "term": {"k": "goto", "t": after} if isinstance(after, int) else {"k": "unreachable"}})
    ctx_op = {"c": (2,)} if B.kind == "coroutine" and len(B.locals) > 2 else {"k": {"ty": "()", "zst": True}}
    B.blocks[pb] = {"stmts": list(B.blocks[pb]["stmts"]),
                    "term": {"k": "call", "args": [{"c": (co,)}, ctx_op], "dest": (ret,), "t": R, "sp": sp, "callee": pt["callee"]}}
    _splice(B, pb, C)
    return True


# ---------------------------------------------------------------------------------------------------------------- jump threading

_UNK = ("unk",)


def _eval_op(o, env):
    if "k" in o:
        k = o["k"]
        if "bool" in k:
            return ("c", 1 if k["bool"] else 0)
        if "int" in k:
            try:
                return ("c", int(k["int"]))
            except ValueError:
                return _UNK
        return _UNK
    pl = o.get("c") or o.get("m")
    return _eval_place(tuple(pl), env)


def _eval_place(pl, env):
    v = env.get(pl[0], _UNK)
    variant = None
    for e in pl[1:]:
        if v[0] != "agg":
            return _UNK
        if e.startswith("@"):
            if v[1] != e[1:]:
                return _UNK
            continue
        if e.startswith("."):
            v = v[2].get(e[1:], _UNK)
            continue
        return _UNK
    return v


_VARIANT_INDEX = {"None": 0, "Some": 1, "Ok": 0, "Err": 1, "Ready": 0, "Pending": 1, "Continue": 0, "Break": 1}


def _step_stmt(st, env):
    """abstract effect of one statement on the known-value environment"""
    pl = st["p"]
    rv = st.get("rv")
    if len(pl) != 1:
        env.pop(pl[0], None)      # partial assignment: forget the root
        return
    v = _UNK
    if rv is not None:
        k = rv["k"]
        if k == "use":
            v = _eval_op(rv["op"], env)
        elif k == "agg" and rv.get("akind") in ("adt", "tuple"):
            fields = rv.get("fields") or [str(i) for i in range(len(rv["ops"]))]
            v = ("agg", rv.get("variant") or "", {f: _eval_op(o, env) for f, o in zip(fields, rv["ops"])}, rv.get("adt"))
        elif k == "discr":
            y = _eval_place(tuple(rv["place"]), env)
            if y[0] == "agg" and y[1] in _VARIANT_INDEX and str(y[3] or "").split("::")[-1] in ("Option", "Result", "Poll", "ControlFlow"):
                v = ("c", _VARIANT_INDEX[y[1]])
        elif k == "un" and rv["op"] == "Not":
            a = _eval_op(rv["a"], env)
            if a[0] == "c" and a[1] in (0, 1):
                v = ("c", 1 - a[1])
    if v == _UNK:
        env.pop(pl[0], None)
    else:
        env[pl[0]] = v


def body_hash(b):
    """identity of a body's code, independent of where it stands in the file (spans left out)"""
    import hashlib
    h = hashlib.sha256()

    def feed(d):
        if isinstance(d, dict):
            for k in d:
                if k in ("sp", "_at", "inl", "exp"):
                    continue
                h.update(str(k).encode())
                feed(d[k])
        elif isinstance(d, (list, tuple)):
            h.update(b"[")
            for x in d:
                feed(x)
            h.update(b"]")
        else:
            h.update(repr(d).encode())
    for d in b.locals:
        h.update(str(d.get("ty")).encode())
    for blk in b.blocks:
        h.update(b"|")
        for st in blk["stmts"]:
            if not st.get("exp"):
                feed(st)
        t = blk["term"]
        if t is not None:
            if t.get("exp"):
                # what a macro expands to carries line numbers (log!, panic locations): only the shape of the control flow counts
                feed({"k": t["k"], "succ": succs_of_term(t)})
            else:
                feed(t)
    return h.hexdigest()[:16]


def _tuple_elems(ty):
    """element types of a tuple type string "(A, B<C, D>, E)" (top-level commas), or None"""
    ty = ty.strip()
    if not (ty.startswith("(") and ty.endswith(")")) or ty == "()":
        return None
    inner, out, depth, cur = ty[1:-1], [], 0, ""
    for ch in inner:
        if ch in "<([":
            depth += 1
        elif ch in ">)]":
            depth -= 1
        if ch == "," and depth == 0:
            out.append(cur.strip())
            cur = ""
        else:
            cur += ch
    if cur.strip():
        out.append(cur.strip())
    return out or None


_PRIMS = {"bool", "char", "u8", "u16", "u32", "u64", "u128", "usize", "i8", "i16", "i32", "i64", "i128", "isize", "f32", "f64", "()", "!"}


def needs_drop(P, ty, depth=0):
    """whether dropping a value of this type runs any code (conservatively yes for whatever is not plainly inert)"""
    ty = ty.strip()
    if ty in _PRIMS or ty.startswith("&") or ty.startswith("*const") or ty.startswith("*mut") or ty.startswith("fn(") or ty.startswith("unsafe fn("):
        return False
    if depth > 4 or P is None:
        return True
    el = _tuple_elems(ty)
    if el:
        return any(needs_drop(P, e, depth + 1) for e in el)
    m = re.match(r"^\[(.*); [^;]+\]$", ty)
    if m:
        return needs_drop(P, m.group(1), depth + 1)
    if "<" in ty:
        return True
    try:
        adt = P.adt(ty)
    except Exception:
        adt = None
    if adt is None:
        return True
    if any(str(im.get("trait", "")).endswith("ops::Drop") and im.get("self_ty") == ty for im in P.impls):
        return True
    return any(needs_drop(P, f["ty"], depth + 1) for v in adt["variants"] for f in v["fields"])


def blank_unreachable(B):
    """blocks no path from the entry reaches any more (their jumps were threaded past them) must not keep defining variables"""
    seen, todo = set(), [0]
    while todo:
        x = todo.pop()
        if x in seen:
            continue
        seen.add(x)
        tx = B.blocks[x]["term"]
        if tx is not None:
            todo.extend(_succs(tx))
            if isinstance(tx.get("unwind"), int):
                todo.append(tx["unwind"])
    n = 0
    for i, blk in enumerate(B.blocks):
        if i not in seen and not blk.get("cleanup") and (blk["stmts"] or (blk["term"] or {}).get("k") != "unreachable"):
            blk["stmts"] = []
            blk["term"] = {"k": "unreachable"}
            n += 1
    if n:
        B._names = None
        B._cfg = None
        B._defs = None
    return n


def split_tuples(B, P=None):
    """Scalar replacement of the tuple temporaries that splicing a helper leaves behind: a local that is only ever built whole
    (`t = (a, b)` or `t = move t2` of another such local) and read field by field becomes one local per field.  `let (n, cut) =
    helper(..)` then reads, after inlining, like the straight-line code the helper was extracted from: `n = count; cut = true`."""
    cand = {}
    for l, d in enumerate(B.locals):
        if l == 0 or l <= B.arg_count:
            continue
        el = _tuple_elems(d.get("ty", ""))
        if el:
            cand[l] = el
    if not cand:
        return 0
    bad = set()
    whole_copies = []      # (dst, src)

    def see_place(pl, as_def_of_whole=False):
        l = pl[0]
        if l not in cand:
            # an index projection may mention a candidate: never for tuples
            return
        if len(pl) == 1:
            if not as_def_of_whole:
                bad.add(l)
        elif len(pl) == 2 and isinstance(pl[1], str) and re.match(r"\.\d+$", pl[1]):
            pass
        else:
            bad.add(l)

    def see_op(o):
        pl = o.get("c") or o.get("m")
        if pl is not None:
            see_place(pl)
    for blk in B.blocks:
        for st in blk["stmts"]:
            rv = st.get("rv")
            p_ = st["p"]
            if rv is None:
                see_place(p_)
                continue
            whole_def = len(p_) == 1 and p_[0] in cand
            if whole_def and rv["k"] == "agg" and rv.get("akind") == "tuple" and len(rv["ops"]) == len(cand[p_[0]]):
                for o in rv["ops"]:
                    see_op(o)
                continue
            src = (rv["op"].get("c") or rv["op"].get("m")) if rv["k"] == "use" else None
            if whole_def and src is not None and len(src) == 1 and src[0] in cand and len(cand[src[0]]) == len(cand[p_[0]]):
                whole_copies.append((p_[0], src[0]))
                continue
            see_place(p_, as_def_of_whole=False)
            k = rv["k"]
            if k in ("use", "repeat", "cast"):
                see_op(rv["op"])
            elif k in ("ref", "rawptr", "discr"):
                if rv["place"][0] in cand:
                    bad.add(rv["place"][0])
            elif k == "bin":
                see_op(rv["a"]); see_op(rv["b"])
            elif k == "un":
                see_op(rv["a"])
            elif k == "agg":
                for o in rv["ops"]:
                    see_op(o)
        t = blk["term"]
        if t is None:
            continue
        k = t["k"]
        if k == "call":
            if t["dest"][0] in cand:
                bad.add(t["dest"][0])
            for a in t["args"]:
                see_op(a)
            if t["callee"].get("ptr") is not None:
                see_op(t["callee"]["ptr"])
        elif k == "switch":
            see_op(t["discr"])
        elif k == "assert":
            see_op(t["cond"])
            for a in t["ops"]:
                see_op(a)
        elif k == "drop":
            l = t["place"][0]
            if l in cand:
                # dropping the whole tuple is dropping its fields: fine while at most one of them has anything to drop
                nd = [i for i, e in enumerate(cand[l]) if needs_drop(P, e)]
                if len(t["place"]) != 1 or len(nd) > 1:
                    bad.add(l)
        elif k == "yield":
            see_op(t["value"])
            if t["resume_arg"][0] in cand:
                bad.add(t["resume_arg"][0])
    for v in B.vars:
        if "place" in v and v["place"][0] in cand and len(v["place"]) != 1:
            bad.add(v["place"][0])
    changed = True
    while changed:
        changed = False
        for d, s_ in whole_copies:
            if (d in bad) != (s_ in bad):
                bad.add(d); bad.add(s_)
                changed = True
    # only worth doing (and only exercised) on locals that have a whole definition
    defined = set()
    for blk in B.blocks:
        for st in blk["stmts"]:
            if len(st["p"]) == 1 and st["p"][0] in cand and st.get("rv") is not None:
                defined.add(st["p"][0])
    todo = {l: el for l, el in cand.items() if l not in bad and l in defined}
    if not todo:
        return 0
    newl = {}
    for l, el in todo.items():
        for i, ty in enumerate(el):
            newl[(l, i)] = len(B.locals)
            B.locals.append({"ty": ty, "mut": True})

    def mp(pl):
        if pl[0] in todo and len(pl) == 2:
            return (newl[(pl[0], int(pl[1][1:]))],)
        return pl

    def mo(o):
        if "c" in o:
            return {"c": mp(o["c"])}
        if "m" in o:
            return {"m": mp(o["m"])}
        return o
    for blk in B.blocks:
        out = []
        for st in blk["stmts"]:
            rv = st.get("rv")
            p_ = st["p"]
            if rv is not None and len(p_) == 1 and p_[0] in todo:
                if rv["k"] == "agg":
                    for i, o in enumerate(rv["ops"]):
                        ns = {k_: v_ for k_, v_ in st.items() if k_ not in ("p", "rv")}
                        ns["p"] = (newl[(p_[0], i)],)
                        ns["rv"] = {"k": "use", "op": mo(o)}
                        out.append(ns)
                else:
                    src = rv["op"].get("c") or rv["op"].get("m")
                    key = "c" if "c" in rv["op"] else "m"
                    for i in range(len(todo[p_[0]])):
                        ns = {k_: v_ for k_, v_ in st.items() if k_ not in ("p", "rv")}
                        ns["p"] = (newl[(p_[0], i)],)
                        ns["rv"] = {"k": "use", "op": {key: (newl[(src[0], i)],)}}
                        out.append(ns)
                continue
            if rv is None:
                if p_[0] in todo:
                    continue        # storage markers of the split local
                out.append(st)
                continue
            ns = dict(st)
            ns["p"] = mp(p_)
            r2 = dict(rv)
            k = rv["k"]
            if k in ("use", "repeat", "cast"):
                r2["op"] = mo(rv["op"])
            elif k == "bin":
                r2["a"], r2["b"] = mo(rv["a"]), mo(rv["b"])
            elif k == "un":
                r2["a"] = mo(rv["a"])
            elif k == "agg":
                r2["ops"] = [mo(o) for o in rv["ops"]]
            ns["rv"] = r2
            out.append(ns)
        blk["stmts"] = out
        t = blk["term"]
        if t is None:
            continue
        t = dict(t)
        k = t["k"]
        if k == "call":
            t["args"] = [mo(a) for a in t["args"]]
            t["dest"] = mp(tuple(t["dest"]))
            if t["callee"].get("ptr") is not None:
                c = dict(t["callee"]); c["ptr"] = mo(c["ptr"]); t["callee"] = c
        elif k == "switch":
            t["discr"] = mo(t["discr"])
        elif k == "assert":
            t["cond"] = mo(t["cond"])
            t["ops"] = [mo(a) for a in t["ops"]]
        elif k == "yield":
            t["value"] = mo(t["value"])
        elif k == "drop" and t["place"][0] in todo:
            l = t["place"][0]
            nd = [i for i, e in enumerate(todo[l]) if needs_drop(P, e)]
            if nd:
                t["place"] = (newl[(l, nd[0])],)
            else:
                t = {"k": "goto", "t": t["t"], "sp": t.get("sp")}
        blk["term"] = t
    B._names = None
    B._cfg = None
    B._defs = None
    return len(todo)


TOTAL_ORDER_TYPES = ("u8", "u16", "u32", "u64", "u128", "usize", "i8", "i16", "i32", "i64", "i128", "isize", "std::time::Duration",
                     "std::time::Instant", "tokio::time::Instant")


def expand_then_some(B):
    """`c.then_some(v)` is `if c { Some(v) } else { None }`: written out, so that rules about where `Some(..)` / `None` are built see
    the same two places whichever way the function ends"""
    n = 0
    for bi in range(len(B.blocks)):
        blk = B.blocks[bi]
        t = blk["term"]
        if t is None or t["k"] != "call" or blk.get("cleanup") or not isinstance(t.get("t"), int) or len(t["args"]) != 2:
            continue
        if not str(t["callee"].get("decl") or "").endswith("bool>::then_some") and not str(t["callee"].get("resolved") or "").endswith("bool>::then_some"):
            continue
        oty = B.locals[t["dest"][0]].get("ty", "std::option::Option<?>") if len(t["dest"]) == 1 else "std::option::Option<?>"
        bo = len(B.blocks)
        sp = t.get("sp")
        B.blocks.append({"stmts": [{"p": tuple(t["dest"]), "rv": {"k": "agg", "akind": "adt", "adt": "std::option::Option", "variant": "Some", "vidx": 1,
                                                                  "fields": ["0"], "ops": [t["args"][1]], "ty": oty}, "sp": sp}],
                         "term": {"k": "goto", "t": t["t"]}})
        B.blocks.append({"stmts": [{"p": tuple(t["dest"]), "rv": {"k": "agg", "akind": "adt", "adt": "std::option::Option", "variant": "None", "vidx": 0,
                                                                  "fields": [], "ops": [], "ty": oty}, "sp": sp}],
                         "term": {"k": "goto", "t": t["t"]}})
        B.blocks[bi] = {"stmts": blk["stmts"], "term": {"k": "switch", "discr": t["args"][0], "targets": [(0, bo + 1)], "otherwise": bo, "ty": "bool"}}
        n += 1
    if n:
        B._names = None
        B._cfg = None
        B._defs = None
    return n


def forward_refs(B):
    """`r = &mut x` (directly or through moves of single-definition temporaries) with `x` a plain local place: every `(*r)…` reads
    and writes `x…`.  Binding a reference parameter of a spliced helper leaves such chains behind; after forwarding, `*cut = true`
    in the helper reads `cut = true` in the caller, like the code the helper was extracted from."""
    ndefs = {}
    defs = {}
    for bi, blk in enumerate(B.blocks):
        for st in blk["stmts"]:
            if st.get("rv") is not None and len(st["p"]) == 1:
                ndefs[st["p"][0]] = ndefs.get(st["p"][0], 0) + 1
                defs[st["p"][0]] = st["rv"]
        t = blk["term"]
        if t is not None and t["k"] == "call" and len(t["dest"]) == 1:
            ndefs[t["dest"][0]] = ndefs.get(t["dest"][0], 0) + 2
        if t is not None and t["k"] == "yield" and len(t.get("resume_arg") or ()) == 1:
            ndefs[t["resume_arg"][0]] = ndefs.get(t["resume_arg"][0], 0) + 2
    target = {}

    def resolve(l, depth=0):
        if depth > 6 or l <= B.arg_count or ndefs.get(l) != 1:
            return None
        rv = defs[l]
        if rv["k"] == "ref":
            pl = tuple(rv["place"])
            if all(isinstance(e, str) and re.match(r"\.\w+$", e) for e in pl[1:]) and pl[0] != l:
                return pl
            if len(pl) >= 2 and pl[1] == "*" and all(isinstance(e, str) and re.match(r"\.\w+$", e) for e in pl[2:]) and pl[0] != l:
                inner = resolve(pl[0], depth + 1)          # a reborrow `&mut *r2`
                if inner is not None:
                    return tuple(inner) + pl[2:]
            return None
        if rv["k"] == "use":
            src = rv["op"].get("m") or rv["op"].get("c")
            if src is not None and len(src) == 1:
                return resolve(src[0], depth + 1)
        return None
    for l, d in enumerate(B.locals):
        if str(d.get("ty", "")).startswith("&"):
            pl = resolve(l)
            if pl is not None:
                target[l] = pl
    if not target:
        return 0
    n = [0]

    def mp(pl):
        if pl and pl[0] in target and len(pl) >= 2 and pl[1] == "*":
            n[0] += 1
            return tuple(target[pl[0]]) + tuple(pl[2:])
        return pl

    def mo(o):
        if "c" in o:
            return {"c": mp(tuple(o["c"]))}
        if "m" in o:
            q = mp(tuple(o["m"]))
            return {"m": q} if q == tuple(o["m"]) else {"c": q}     # moving out of *r is a read of x
        return o
    for blk in B.blocks:
        out = []
        for st in blk["stmts"]:
            ns = dict(st)
            ns["p"] = mp(tuple(st["p"]))
            rv = st.get("rv")
            if rv is not None:
                r2 = dict(rv)
                k = rv["k"]
                if k in ("use", "repeat", "cast"):
                    r2["op"] = mo(rv["op"])
                elif k in ("ref", "rawptr", "discr"):
                    r2["place"] = mp(tuple(rv["place"]))
                elif k == "bin":
                    r2["a"], r2["b"] = mo(rv["a"]), mo(rv["b"])
                elif k == "un":
                    r2["a"] = mo(rv["a"])
                elif k == "agg":
                    r2["ops"] = [mo(o) for o in rv["ops"]]
                ns["rv"] = r2
            out.append(ns)
        blk["stmts"] = out
        t = blk["term"]
        if t is None:
            continue
        t = dict(t)
        k = t["k"]
        if k == "call":
            t["args"] = [mo(a) for a in t["args"]]
            t["dest"] = mp(tuple(t["dest"]))
        elif k == "switch":
            t["discr"] = mo(t["discr"])
        elif k == "assert":
            t["cond"] = mo(t["cond"])
            t["ops"] = [mo(a) for a in t["ops"]]
        elif k == "drop":
            t["place"] = mp(tuple(t["place"]))
        blk["term"] = t
    if n[0]:
        B._names = None
        B._cfg = None
        B._defs = None
    return n[0]


def select_to_minmax(B):
    """`if a < b { t = b } else { t = a }` (any of < <= > >=, either arm order) is `t = max(a, b)` resp. `min`: a clamp written with
    comparisons reads like one written with std::cmp::min / max.  Only for totally ordered types, where the two agree on every value."""
    n = 0
    for ai, A in enumerate(B.blocks):
        t = A["term"]
        if t is None:
            continue
        P_ = Q_ = None
        op = None
        sw = None
        if t["k"] == "call" and str(t["callee"].get("decl") or "").startswith("std::cmp::PartialOrd::") and len(t["args"]) == 2 and \
                len(t["dest"]) == 1 and isinstance(t.get("t"), int):
            op = t["callee"]["decl"].rsplit("::", 1)[-1]
            ty = (t["callee"].get("gargs") or ["?"])[0]
            if op not in ("lt", "le", "gt", "ge") or ty not in TOTAL_ORDER_TYPES:
                continue
            refs = {}
            for st in A["stmts"]:
                rv = st.get("rv")
                if rv and rv["k"] == "ref" and len(st["p"]) == 1:
                    refs[st["p"][0]] = tuple(rv["place"])
            a0 = t["args"][0].get("m") or t["args"][0].get("c")
            a1 = t["args"][1].get("m") or t["args"][1].get("c")
            if not (a0 and a1 and len(a0) == 1 and len(a1) == 1 and a0[0] in refs and a1[0] in refs):
                continue
            P_, Q_ = refs[a0[0]], refs[a1[0]]
            S = B.blocks[t["t"]]
            if S["stmts"] or S["term"] is None or S["term"]["k"] != "switch":
                continue
            sw = S["term"]
            d = sw["discr"].get("m") or sw["discr"].get("c")
            if d != tuple(t["dest"]):
                continue
        elif t["k"] == "switch" and A["stmts"]:
            st = A["stmts"][-1]
            rv = st.get("rv")
            d = t["discr"].get("m") or t["discr"].get("c")
            if not (rv and rv["k"] == "bin" and rv["op"] in ("Lt", "Le", "Gt", "Ge") and d == tuple(st["p"]) and len(st["p"]) == 1):
                continue
            pa = rv["a"].get("c") or rv["a"].get("m")
            pb = rv["b"].get("c") or rv["b"].get("m")
            if not (pa and pb) or B.locals[pa[0]].get("ty") not in TOTAL_ORDER_TYPES or len(pa) != 1 or len(pb) != 1:
                continue
            op, ty, P_, Q_, sw = rv["op"].lower(), B.locals[pa[0]].get("ty"), tuple(pa), tuple(pb), t
        else:
            continue
        if sw.get("targets") is None or len(sw["targets"]) != 1 or sw["targets"][0][0] != 0:
            continue
        F, T_ = B.blocks[sw["targets"][0][1]], B.blocks[sw["otherwise"]]

        def single_copy(blk):
            if len(blk["stmts"]) != 1 or blk["term"] is None or blk["term"]["k"] != "goto":
                return None
            st = blk["stmts"][0]
            rv = st.get("rv")
            if not (rv and rv["k"] == "use" and len(st["p"]) == 1):
                return None
            src = rv["op"].get("c") or rv["op"].get("m")
            return (st["p"][0], tuple(src), blk["term"]["t"]) if src else None
        ct, cf = single_copy(T_), single_copy(F)
        if not ct or not cf or ct[0] != cf[0] or ct[2] != cf[2] or {ct[1], cf[1]} != {P_, Q_} or P_ == Q_:
            continue
        p_smaller_when_true = op in ("lt", "le")
        picks_q_when_true = ct[1] == Q_
        # true & p smaller & pick q -> larger -> max;  true & p smaller & pick p -> min;  true & p larger & pick p -> max; ...
        is_max = (p_smaller_when_true and picks_q_when_true) or (not p_smaller_when_true and not picks_q_when_true)
        name = "std::cmp::max" if is_max else "std::cmp::min"
        newt = {"k": "call", "callee": {"decl": name, "resolved": name, "gargs": [ty], "trait": None, "local": False},
                "args": [{"c": P_}, {"c": Q_}], "dest": (ct[0],), "t": ct[2], "sp": t.get("sp"), "exp": False}
        if t.get("unwind") is not None:
            newt["unwind"] = t["unwind"]
        if t["k"] == "switch":
            A["stmts"] = A["stmts"][:-1]
        A["term"] = newt
        n += 1
    if n:
        # the arms that were folded away must not keep defining the variable
        seen, todo = set(), [0]
        while todo:
            x = todo.pop()
            if x in seen:
                continue
            seen.add(x)
            tx = B.blocks[x]["term"]
            if tx is not None:
                todo.extend(_succs(tx))
                if tx.get("unwind") is not None and isinstance(tx.get("unwind"), int):
                    todo.append(tx["unwind"])
        for i, blk in enumerate(B.blocks):
            if i not in seen and not blk.get("cleanup"):
                blk["stmts"] = []
                blk["term"] = {"k": "unreachable"}
        B._names = None
        B._cfg = None
        B._defs = None
    return n


def thread_jumps(B, max_threads=40):
    """Constant jump threading, so that inlining a helper that returns a constant (or a constant-tagged value) on each of its paths
    restores the dominance facts of the un-extracted code: when a block assigns a known value to a local and the blocks that
    follow — containing statements only — reach a switch on that value, a private copy of those blocks is made for this origin in
    which the switch is replaced by the jump it must take.  Blocks with calls are never copied (call-site counts are unchanged)."""
    n_done = 0
    origins = []
    for o, blk in enumerate(B.blocks):
        if blk.get("cleanup") or blk["term"] is None or blk["term"]["k"] not in ("goto", "falseedge", "drop"):
            continue
        env = {}
        for st in blk["stmts"]:
            _step_stmt(st, env)
        if env:
            origins.append((o, env))
    for o, env0 in origins:
        if n_done >= max_threads:
            break
        env = dict(env0)
        path = []          # (block index, forced successor or None)
        cur = B.blocks[o]["term"].get("t")
        resolved = False
        seen = set()
        final = None
        while isinstance(cur, int) and cur not in seen and len(path) < 30:
            seen.add(cur)
            blk = B.blocks[cur]
            t = blk["term"]
            if blk.get("cleanup") or t is None:
                break
            e2 = dict(env)
            for st in blk["stmts"]:
                _step_stmt(st, e2)
            if t["k"] in ("goto", "falseedge", "drop"):
                if t["k"] == "drop":
                    e2.pop(tuple(t["place"])[0], None)
                path.append((cur, t.get("t")))
                env = e2
                cur = t.get("t")
                continue
            if t["k"] == "switch":
                d = _eval_op(t["discr"], e2)
                if d[0] == "c":
                    tgt = [b2 for v, b2 in t["targets"] if v == d[1]]
                    nxt = tgt[0] if tgt else t.get("otherwise")
                    path.append((cur, nxt))
                    env = e2
                    cur = nxt
                    resolved = True
                    continue
            break
        final = cur
        # only worth it if a switch was resolved; cut the path after the last resolved switch
        if not resolved or not isinstance(final, int):
            continue
        last = max(i for i, (b, _) in enumerate(path) if B.blocks[b]["term"]["k"] == "switch")
        path = path[:last + 1]
        final = path[-1][1]
        if not isinstance(final, int):
            continue
        # duplicate
        base = len(B.blocks)
        for i, (b, nxt) in enumerate(path):
            to = (base + i + 1) if i + 1 < len(path) else final
            if B.blocks[b]["term"]["k"] == "drop":
                tt = dict(B.blocks[b]["term"])      # a drop on the way stays a drop (guards are released where they were)
                tt["t"] = to
            else:
                tt = {"k": "goto", "t": to}
            nb = {"stmts": list(B.blocks[b]["stmts"]), "term": tt}
            B.blocks.append(nb)
        ot = dict(B.blocks[o]["term"])
        ot["t"] = base
        B.blocks[o] = {"stmts": B.blocks[o]["stmts"], "term": ot, **({"cleanup": True} if B.blocks[o].get("cleanup") else {})}
        n_done += 1
    if n_done:
        B._cfg = None
    return n_done


def inline_program(P):
    """returns {body id: inlined Body} for the bodies that changed, the set of helper ids that were inlined away, and a log"""
    barrier = barrier_names()
    bodies = P.bodies
    # exact call edges between workspace bodies
    calls = {}
    for fid, b in bodies.items():
        outs = set()
        for bb, t in b.calls(cleanup=True):
            n = callee_name(t)
            if n in bodies:
                outs.add(n)
        calls[fid] = outs

    def reaches_self(f):
        seen, todo = set(), list(calls.get(f, ()))
        while todo:
            x = todo.pop()
            if x == f:
                return True
            if x in seen:
                continue
            seen.add(x)
            todo.extend(calls.get(x, ()))
        return False

    try:
        from .spec.known_functions import KNOWN
    except ImportError:
        KNOWN = None
    vanished = {} if KNOWN is None else {sig for k, sig in KNOWN.items() if k not in bodies}

    def sig_of(f):
        sg = P.sigs.get(f) or {}
        return "(%s) -> %s" % (", ".join(sg.get("inputs") or []), sg.get("output"))

    def inlinable(f):
        b = bodies.get(f)
        if b is None or b.kind not in ("fn", "assoc_fn"):
            return False
        if _last_name(f) in barrier:
            return False
        if KNOWN is None or f in KNOWN:
            # a function of the reviewed tree is an anchor: rules may find it by signature or by what it contains
            return False
        if sig_of(f) in vanished:
            # a reviewed function with exactly this signature is gone: this is that function under a new name
            return False
        sig = P.sigs.get(f) or {}
        if sig.get("async") or "Future<" in (sig.get("output") or ""):
            return False
        if len(b.blocks) > MAX_CALLEE_BLOCKS:
            return False
        if any(t["k"] == "yield" for _, t in b.terms(cleanup=True)):
            return False
        return True

    cand = {f for f in bodies if inlinable(f)}
    cand = {f for f in cand if not reaches_self(f)}

    def inlinable_async(f):
        b = bodies.get(f)
        c = bodies.get(f + "::{closure#0}") if isinstance(f, str) else None
        sig = P.sigs.get(f) or {}
        if b is None or c is None or c.kind != "coroutine" or not sig.get("async") or b.kind not in ("fn", "assoc_fn"):
            return False
        if _last_name(f) in barrier or KNOWN is None or f in KNOWN or sig_of(f) in vanished:
            return False
        if len(c.blocks) > MAX_CALLEE_BLOCKS * 3 or len(b.blocks) > 3 or c.arg_count != 2:
            return False
        return True
    cand_async = {f for f in bodies if inlinable_async(f)}
    # other references that keep a helper alive: fn items used as values
    fn_values = set()
    for b in bodies.values():
        for blk in b.blocks:
            for s in blk["stmts"]:
                rv = s.get("rv")
                if rv and rv["k"] == "use" and rv["op"].get("k") and "fn" in rv["op"]["k"]:
                    fn_values.add(rv["op"]["k"]["fn"])
            t = blk["term"]
            if t and t["k"] == "call":
                for a in t["args"]:
                    if a.get("k") and "fn" in a["k"]:
                        fn_values.add(a["k"]["fn"])
    changed = {}
    inlined_into = {}
    log = []

    def get(fid):
        return changed.get(fid, bodies[fid])

    for _ in range(MAX_ROUNDS):
        progress = False
        for fid in list(bodies):
            B = get(fid)
            sites = [(bb, t) for bb, t in B.calls(cleanup=False) if callee_name(t) in cand and callee_name(t) != fid and t["callee"].get("ptr") is None]
            if not sites:
                continue
            if fid not in changed:
                B = _clone_body(B)
                changed[fid] = B
            for bb, t in sites:
                F = get(callee_name(t))
                if len(B.blocks) + len(F.blocks) > MAX_BODY_BLOCKS or len(t["args"]) != F.arg_count:
                    continue
                _splice(B, bb, F)
                inlined_into.setdefault(F.id, []).append(fid)
                progress = True
        # awaits of new async functions
        for fid in list(bodies):
            B = get(fid)
            sites = [(bb, t) for bb, t in B.calls(cleanup=False) if callee_name(t) in cand_async and callee_name(t) != fid
                     and callee_name(t) + "::{closure#0}" != fid]
            if not sites:
                continue
            if fid not in changed:
                B = _clone_body(B)
                changed[fid] = B
            for bb, t in sites:
                F = get(callee_name(t))
                C = get(F.id + "::{closure#0}")
                if len(B.blocks) + len(C.blocks) > MAX_BODY_BLOCKS:
                    continue
                if _inline_await(B, bb, F, C):
                    inlined_into.setdefault(F.id, []).append(fid)
                    inlined_into.setdefault(C.id, []).append(fid)
                    progress = True
        if not progress:
            break
    # iterator adaptors whose closure is built in the same body: any / all.  Switched off: several rules recognise the adaptor
    # call itself (C08.R9, C15.R6) and the loop-form rules (C11.R2) would need path-sensitive constant flow to follow the
    # rewritten exits; with the pass on, the unchanged tree raised C08.R9.  Kept for a later round.
    for fid in (list(bodies) if DESUGAR_ADAPTORS else ()):
        B = get(fid)
        made = {}
        for bb, idx, st in B.stmts(cleanup=True):
            rv = st.get("rv")
            if rv and rv["k"] == "agg" and rv["akind"] == "closure" and len(st["p"]) == 1:
                made[st["p"][0]] = rv["def"]
        todo = []
        for bb, t in B.calls(cleanup=False):
            n = t["callee"].get("decl") or ""
            if n in ("std::iter::Iterator::any", "std::iter::Iterator::all") and len(t["args"]) == 2:
                pl = t["args"][1].get("m") or t["args"][1].get("c")
                if pl is not None and len(pl) == 1 and pl[0] in made and made[pl[0]] in bodies:
                    C = get(made[pl[0]])
                    if C.arg_count == 2 and len(C.blocks) <= MAX_CALLEE_BLOCKS and not any(x["k"] == "yield" for _, x in C.terms(cleanup=True)):
                        todo.append((bb, C, n.rsplit("::", 1)[-1]))
        if not todo:
            continue
        if fid not in changed:
            B = _clone_body(B)
            changed[fid] = B
        for bb, C, which in todo:
            _desugar_any_all(B, bb, C, which)
            log.append("%s: %s(closure) rewritten as the loop it abbreviates" % (fid, which))
    # `for x in it.filter(pred)` in bodies that differ from the reviewed tree (or received inlined code): rewritten as the loop with
    # an `if` it abbreviates, so that a test moved into the adaptor is still a test in the loop
    try:
        from .spec.known_functions import BODY_HASH as _BH
    except ImportError:
        _BH = None
    for fid in (list(bodies) if (DESUGAR_ADAPTORS and _BH is not None) else ()):
        B = get(fid)
        if "::test" in fid or B.kind in ("const", "static", "assoc_const") or len(B.blocks) >= 900:
            continue
        if fid not in changed and body_hash(bodies[fid]) in _BH.get(fid, ()):
            continue
        made = {}
        for bb, idx, st in B.stmts(cleanup=True):
            rv = st.get("rv")
            if rv and rv["k"] == "agg" and rv["akind"] == "closure" and len(st["p"]) == 1:
                made[st["p"][0]] = rv["def"]
        lasts = [bb for bb, t in B.calls(cleanup=False) if (t["callee"].get("decl") or "") == "std::iter::Iterator::last" and
                 str((t["callee"].get("gargs") or [""])[0]).startswith("std::iter::Filter<")]
        for bb in lasts:
            if fid not in changed:
                B = _clone_body(B)
                changed[fid] = B
            if _desugar_last(B, bb):
                log.append("%s: filter(..).last() rewritten as the loop it abbreviates" % fid)
        todo = []
        for bb, t in B.calls(cleanup=False):
            if (t["callee"].get("decl") or "") == "std::iter::Iterator::filter" and len(t["args"]) == 2:
                pl = t["args"][1].get("m") or t["args"][1].get("c")
                if pl is not None and len(pl) == 1 and pl[0] in made and made[pl[0]] in bodies:
                    C = get(made[pl[0]])
                    if C.arg_count == 2 and len(C.blocks) <= MAX_CALLEE_BLOCKS and not any(x["k"] == "yield" for _, x in C.terms(cleanup=True)):
                        todo.append((bb, C))
        for bb, C in todo:
            if fid not in changed:
                B = _clone_body(B)
                changed[fid] = B
            k = _desugar_filter(B, bb, C)
            if k:
                log.append("%s: filter(closure) over %d next() call(s) rewritten as the loop with a test it abbreviates" % (fid, k))
    # bodies whose code differs from the reviewed tree's get the same normalisation as bodies that received inlined code: an edit
    # that routes a decision through a local (`let reason = if a { Some(..) } else { None }; match reason { .. }`) turned a
    # dominance fact into value flow, and threading the constant jumps turns it back.  Unchanged bodies are left exactly as they are.
    try:
        from .spec.known_functions import BODY_HASH
    except ImportError:
        BODY_HASH = None
    if BODY_HASH is not None and not os.environ.get("SA_NO_THREAD_CHANGED"):
        for fid in list(bodies):
            if fid in changed or "::test" in fid or fid.startswith("test"):
                continue
            b0 = bodies[fid]
            if b0.kind in ("const", "static", "assoc_const") or len(b0.blocks) >= 900:
                continue
            if body_hash(b0) not in BODY_HASH.get(fid, ()):
                changed[fid] = _clone_body(b0)
                log.append("%s: differs from the reviewed tree (normalised like inlined code)" % fid)
    # restore the dominance facts that a constant-returning helper turned into value flow
    if os.environ.get("SA_THREAD_ALL"):
        for fid in list(bodies):
            if fid not in changed and len(bodies[fid].blocks) < 900:
                changed[fid] = _clone_body(bodies[fid])
    for fid, B in changed.items():
        k = expand_then_some(B)
        if k:
            log.append("%s: %d then_some(..) written out" % (fid, k))
    for fid, B in changed.items():
        k = forward_refs(B)
        if k:
            log.append("%s: %d access(es) through a forwarded reference" % (fid, k))
    for fid, B in changed.items():
        k = select_to_minmax(B)
        if k:
            log.append("%s: %d comparison-and-pick diamond(s) read as min/max" % (fid, k))
    for fid, B in changed.items():
        k = split_tuples(B, P)
        if k:
            log.append("%s: %d tuple temporar%s split into fields" % (fid, k, "y" if k == 1 else "ies"))
    for fid, B in changed.items():
        n = 0
        for _ in range(3):
            k = thread_jumps(B)
            n += k
            if not k:
                break
        if n:
            blank_unreachable(B)
            log.append("%s: %d constant jump(s) threaded" % (fid, n))
    # helpers with no remaining use
    still_called = set()
    for fid in bodies:
        for bb, t in get(fid).calls(cleanup=True):
            n = callee_name(t)
            if n in inlined_into:
                still_called.add(n)
    dropped = {f for f in inlined_into if f not in still_called and f not in fn_values}
    for f, into in sorted(inlined_into.items()):
        log.append("%s -> %s%s" % (f, ", ".join(sorted(set(into))[:4]), " (dropped)" if f in dropped else ""))
    return changed, dropped, inlined_into, log


def inlined_view(P):
    """a Program-like copy of P in which helper calls are inlined (see module doc); P itself is left untouched"""
    changed, dropped, inlined_into, log = inline_program(P)
    Q = copy.copy(P)
    Q.bodies = {i: changed.get(i, b) for i, b in P.bodies.items() if i not in dropped}
    # closures of a dropped helper now belong to the first function the helper went into
    for i, b in list(Q.bodies.items()):
        if b.parent in dropped:
            nb = _clone_body(b)
            par = b.parent
            hops = 0
            while par in dropped and hops < 6:
                par = sorted(set(inlined_into[par]))[0]
                hops += 1
            nb.parent = par
            Q.bodies[i] = nb
    Q._children = None
    Q._callers = None
    Q.raw = P
    Q.inline_log = log
    return Q
